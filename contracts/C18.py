"""C18 -- SharePoint listing is complete, exact and fault-contained.

Contracts on sharepoint2text/sharepoint_io/client.py (real AST, re-read each run).

Part A (filter): `FileFilter.matches` returns <=> the predicate written from the
statement: date bounds inclusive-after / exclusive-before **on instants**,
extension match case-insensitive, patterns on the full path.  Datetimes are
modelled abstractly as (microseconds, aware?) pairs; the instant denoted by an
ISO-8601 string is a *real* number of microseconds (`SEM_US`), `fnmatch` and
`str.lower` are uninterpreted.
Part B (transport): `_send` closes every response object it obtained before it
returns or raises (ghost set `open`), maps HTTPError/URLError to the request
error carrying status/url, rejects non-2xx; `_get_json`.
Part C (listing): `_list_items_paginated`, `_get_folders_from_url` (loop
invariants over an abstract page chain), `_walk_drive_items` (modular
recursion), `_walk_and_filter`, `list_all_files`, `list_files_filtered`.
Part D (caches): `_access_token` / `_site_id` are assigned only after a
successful response (dataflow obligations).
"""
import z3

from pyvc import ops
from pyvc.contracts import FnContract, LoopSpec, Raises
from pyvc.symex import Executor, LoopCtx, Outcome
from pyvc.state import HeapObj
from pyvc.values import (NONE, V, VBool, VExc, VExt, VFunc, VInt, VNoneT, VRef, VSeq, VStr, VTuple,
                         VUnk, ext_sort, fresh_name)
from pyvc.verify import Maker, p_obj, p_opt, p_str, p_unk, p_int, p_bool

CLIENT = "sharepoint2text/sharepoint_io/client.py"
S, I, R, B = z3.StringSort(), z3.IntSort(), z3.RealSort(), z3.BoolSort()


def sv(x):
    return z3.StringVal(x)


# =============================================================== datetimes ==
# A datetime is abstracted to the pair (us, aware): for an aware datetime `us`
# is the instant in microseconds since the epoch (UTC), for a naive one the
# wall-clock reading.  Ordering comparisons of a naive with an aware datetime
# raise TypeError (Python semantics), == is False.
DT = z3.Datatype("DateTime")
DT.declare("mkdt", ("us", I), ("aware", B))
DT = DT.create()


def dt_val(us, aware):
    return VExt("datetime", DT.mkdt(us, aware))


def p_dt():
    """An arbitrary datetime object."""
    def mk(ex, st, name):
        return VExt("datetime", DT.mkdt(z3.Int(name + ".us"), z3.Bool(name + ".aware")))
    return Maker(mk, desc="datetime (microsecond instant, aware flag)")


# ---- ISO-8601 semantics (spec side) and datetime.fromisoformat (library side)
SEM_OK = z3.Function("iso_denotes", S, B)        # the string is an ISO-8601 timestamp
SEM_US = z3.Function("iso_instant_us", S, R)     # the instant it denotes, in microseconds (a real: any precision)
SEM_AWARE = z3.Function("iso_has_offset", S, B)  # it carries a UTC designator / offset
PY_OK = z3.Function("fromisoformat_ok", S, B)    # datetime.fromisoformat accepts the string
PY_US = z3.Function("fromisoformat_us", S, I)
PY_AWARE = z3.Function("fromisoformat_aware", S, B)
FRAC_US = z3.Function("fraction_us", S, R)       # value of a digit string read as decimal fraction of a second, in us
INTVAL = z3.Function("digits_value", S, I)       # value of a digit string read as integer
LJUST0 = z3.Function("ljust_zero", S, I, S)      # s.ljust(n, "0")
LOWER = z3.Function("str_lower", S, S)
FNMATCH = z3.Function("fnmatch", S, S, B)

DIGITS = z3.Plus(z3.Range("0", "9"))
TZ_ALTS = ("none", "Z", "+", "-")


def tz_norm(tz_kind, tz):
    return sv("+00:00") if tz_kind == "Z" else tz


def iso_axioms_undotted(s, tz_kind):
    """ASSUMED (ISO-SEM, instance for a timestamp without fractional part): 'Z' means +00:00 and
    datetime.fromisoformat is exact on whole-second timestamps with an explicit offset or none."""
    x = z3.Concat(s.arg(0), sv("+00:00")) if tz_kind == "Z" else s
    return z3.And(SEM_OK(s) == PY_OK(x), SEM_US(s) == z3.ToReal(PY_US(x)), SEM_AWARE(s) == PY_AWARE(x))


def iso_axioms_dotted(base, frac, tz_kind, tz):
    """ASSUMED (ISO-SEM, instance for `base.frac tz`, frac a non-empty digit string): the timestamp denotes the
    whole-second timestamp `base tz` plus the fraction; fromisoformat is exact on six-digit fractions; the first six
    digits of the fraction, right-padded with zeros, are the floor of the fraction in microseconds."""
    tzn = tz_norm(tz_kind, tz)
    s = z3.Concat(base, sv("."), frac, tz)
    whole = z3.Concat(base, tzn)
    f6 = LJUST0(z3.SubString(frac, 0, 6), 6)
    six = z3.Concat(base, sv("."), f6, tzn)
    return z3.And(
        SEM_OK(s) == PY_OK(whole), SEM_US(s) == z3.ToReal(PY_US(whole)) + FRAC_US(frac), SEM_AWARE(s) == PY_AWARE(whole),
        FRAC_US(frac) >= 0, FRAC_US(frac) < 1000000, z3.ToInt(FRAC_US(frac)) == INTVAL(f6),
        PY_OK(six) == PY_OK(whole), PY_US(six) == PY_US(whole) + INTVAL(f6), PY_AWARE(six) == PY_AWARE(whole),
        z3.Length(f6) == 6,
    )


OFFSET = z3.Star(z3.Union(z3.Range("0", "9"), z3.Re(":")))


def dotted_structure(base, frac, tz_kind, tz):
    """Shape of `base.frac tz`: no dot before the fraction, fraction = digits, offset = digits and colons."""
    conds = [z3.Not(z3.Contains(base, sv("."))), z3.InRe(frac, DIGITS)]
    if tz_kind in ("+", "-"):
        conds.append(z3.InRe(tz.arg(1), OFFSET))
    return conds


_ISO_FORMS: dict = {}     # term id of the parameter -> description of the structured form


def p_iso_string():
    """`dt_string` of _parse_iso_datetime: structured alternatives `base [. frac] tz` (tz: none | Z | +.. | -..)
    carrying the ISO-SEM axiom instances, plus an unstructured arbitrary string (totality only)."""
    def mk(ex, st, name):
        alts = []
        for k in TZ_ALTS:
            # no fractional part
            body = z3.String(f"{name}!u{k}")
            conds = [z3.Not(z3.Contains(body, sv(".")))]
            if k == "Z":
                s = z3.Concat(body, sv("Z"))
            else:
                s = body
                conds.append(z3.Not(z3.SuffixOf(sv("Z"), s)))
            conds.append(iso_axioms_undotted(s, k))
            _ISO_FORMS[s.get_id()] = ("undotted", k)
            alts.append((z3.And(conds), VStr(s)))
        for k in TZ_ALTS:
            base, frac = z3.String(f"{name}!base{k}"), z3.String(f"{name}!frac{k}")
            if k == "none":
                tz = sv("")
            elif k == "Z":
                tz = sv("Z")
            else:
                tz = z3.Concat(sv(k), z3.String(f"{name}!off{k}"))
            s = z3.Concat(base, sv("."), frac, tz)
            conds = dotted_structure(base, frac, k, tz)
            conds.append(iso_axioms_dotted(base, frac, k, tz))
            _ISO_FORMS[s.get_id()] = ("dotted", k)
            alts.append((z3.And(conds), VStr(s)))
        free = z3.String(f"{name}!any")
        _ISO_FORMS[free.get_id()] = ("any", "")
        alts.append((None, VStr(free)))
        return alts
    return Maker(mk, desc="ISO-8601 timestamp string `base[.frac][tz]` | arbitrary string")


def parsed(s):
    """Spec: what parsing must return for a denoting string: the instant at datetime resolution (microseconds;
    exact w.r.t. every comparison with a datetime bound because bounds lie on the microsecond grid)."""
    return dt_val(z3.ToInt(SEM_US(s)), SEM_AWARE(s))


# =========================================================== library models ==
def m_lower(ex, st, args, kwargs, node):
    s = args[0]
    c = s.const()
    if c is not None:
        return [(st, VStr(c.lower()))]
    return [(st, VStr(LOWER(s.t)))]


def m_fnmatch(ex, st, args, kwargs, node):
    """fnmatch.fnmatch(name, pattern): ASSUMED total and deterministic on strings (uninterpreted)."""
    a, b = args
    if not (isinstance(a, VStr) and isinstance(b, VStr)):
        return ex.havoc_call(st, "fnmatch.fnmatch", args, node)
    return [(st, VBool(FNMATCH(a.t, b.t)))]


def m_fromisoformat(ex, st, args, kwargs, node):
    """datetime.fromisoformat(x): ASSUMED -- ValueError when it does not accept x, else the datetime
    (PY_US(x), PY_AWARE(x)); TypeError for a non-string."""
    x = args[0]
    if not isinstance(x, VStr):
        ex.raise_in(st, ex.mk_exc("TypeError"))
        return []
    st2 = ex.fork_raise(st, z3.Not(PY_OK(x.t)), "ValueError")
    if st2 is None:
        return []
    return [(st2, dt_val(PY_US(x.t), PY_AWARE(x.t)))]


# ---- structural string reasoning -------------------------------------------
# z3's sequence solver does not find `indexof(base ++ "." ++ x, ".") = |base|` inside a larger VC (measured: unknown
# at 10 s; cvc5 proves the isolated lemma at once).  The executor therefore resolves find / split / slices on
# concatenations structurally.  Every step is justified by a solver query against the current path condition
# (`proves`), so this is eager lemma application, not an assumption; when a step cannot be justified the plain
# z3 term (IndexOf / SubString) is used.
def str_parts(t):
    if z3.is_app(t) and t.decl().kind() == z3.Z3_OP_SEQ_CONCAT:
        out = []
        for ch in t.children():
            out.extend(str_parts(ch))
        return out
    if z3.is_string_value(t) and t.as_string() == "":
        return []
    return [t]


def part_len(p):
    return z3.IntVal(len(p.as_string())) if z3.is_string_value(p) else z3.Length(p)


def mk_concat(parts):
    parts = [p for p in parts if not (z3.is_string_value(p) and p.as_string() == "")]
    merged = []
    for p in parts:
        if merged and z3.is_string_value(p) and z3.is_string_value(merged[-1]):
            merged[-1] = sv(merged[-1].as_string() + p.as_string())
        else:
            merged.append(p)
    if not merged:
        return sv("")
    if len(merged) == 1:
        return merged[0]
    return z3.Concat(*merged)


def proves(ex, st, fact, timeout_ms=1500):
    sol = z3.Solver()
    sol.set("timeout", timeout_ms)
    sol.add(*[c for c in st.pc])
    sol.add(z3.Not(fact))
    return sol.check() == z3.unsat


def struct_index_of(ex, st, t, sep: str):
    """Int term equal to t.find(sep) (sep a constant), or None if the structure does not decide it."""
    parts = str_parts(t)
    pos = z3.IntVal(0)
    for p in parts:
        if z3.is_string_value(p):
            lit = p.as_string()
            k = lit.find(sep)
            if k >= 0:
                return z3.simplify(pos + k)
            if len(sep) > 1 and any(lit.endswith(sep[:j]) for j in range(1, len(sep))):
                return None
        else:
            if len(sep) != 1 or not proves(ex, st, z3.Not(z3.Contains(p, sv(sep)))):
                return None
        pos = pos + part_len(p)
    return z3.IntVal(-1)


def struct_cut(ex, st, parts, pos):
    """Split `parts` at character position `pos` (Int term): (left parts, right parts) or None."""
    acc = z3.IntVal(0)
    for k in range(len(parts) + 1):
        d = z3.simplify(pos - acc)
        if z3.is_int_value(d):
            dv = d.as_long()
            if dv == 0:
                return parts[:k], parts[k:]
            if k < len(parts) and z3.is_string_value(parts[k]) and 0 < dv < len(parts[k].as_string()):
                lit = parts[k].as_string()
                return parts[:k] + [sv(lit[:dv])], [sv(lit[dv:])] + parts[k + 1:]
        if k < len(parts):
            acc = acc + part_len(parts[k])
    acc = z3.IntVal(0)
    for k in range(len(parts) + 1):
        if proves(ex, st, pos == acc, 500):
            return parts[:k], parts[k:]
        if k < len(parts):
            acc = acc + part_len(parts[k])
    return None


def struct_substr(ex, st, t, lo, hi):
    """t[lo:hi] for in-range positions lo <= hi given as Int terms (None = end): term or None."""
    parts = str_parts(t)
    c1 = struct_cut(ex, st, parts, lo)
    if c1 is None:
        return None
    if hi is None:
        return mk_concat(c1[1])
    c2 = struct_cut(ex, st, c1[1], z3.simplify(hi - lo))
    if c2 is None:
        return None
    return mk_concat(c2[0])


def struct_endswith(ex, st, parts, ch: str):
    """Bool term equal to `concat(parts).endswith(ch)` for a single character ch (exact case split on the last part)."""
    if not parts:
        return z3.BoolVal(False)
    p = parts[-1]
    if z3.is_string_value(p):
        return z3.BoolVal(p.as_string().endswith(ch))
    rest = struct_endswith(ex, st, parts[:-1], ch)
    if proves(ex, st, z3.Not(z3.SuffixOf(sv(ch), p)), 500):
        if z3.is_false(rest) or proves(ex, st, z3.Length(p) > 0, 500):
            return z3.BoolVal(False)
        return z3.And(z3.Length(p) == 0, rest)
    return z3.Or(z3.SuffixOf(sv(ch), p), z3.And(z3.Length(p) == 0, rest))


def m_split(ex, st, args, kwargs, node):
    """str.split(sep, 1) with a constant separator: one part if sep does not occur, else the text before the
    first occurrence and the text after it."""
    s = args[0]
    if len(args) == 3 and isinstance(args[1], VStr) and args[1].const() and isinstance(args[2], VInt) and args[2].const() == 1:
        sepc = args[1].const()
        sep = args[1].t
        idx = struct_index_of(ex, st, s.t, sepc)
        if idx is not None:
            if z3.is_int_value(idx) and idx.as_long() == -1:
                return [(st, ex.new_list(st, [s]))]
            head = struct_substr(ex, st, s.t, z3.IntVal(0), idx)
            tail = struct_substr(ex, st, s.t, z3.simplify(idx + len(sepc)), None)
            if head is not None and tail is not None:
                return [(st, ex.new_list(st, [VStr(head), VStr(tail)]))]
        idx = z3.IndexOf(s.t, sep, 0)
        out = []
        has = z3.Contains(s.t, sep)
        if ex.feasible(st.pc, has):
            s1 = st.fork().assume(has)
            head = z3.SubString(s.t, 0, idx)
            tail = z3.SubString(s.t, idx + z3.Length(sep), z3.Length(s.t) - idx - z3.Length(sep))
            out.append((s1, ex.new_list(s1, [VStr(head), VStr(tail)])))
        if ex.feasible(st.pc, z3.Not(has)):
            s2 = st.fork().assume(z3.Not(has))
            out.append((s2, ex.new_list(s2, [s])))
        return out
    return [(st, VUnk("str.split"))]


def m_ljust(ex, st, args, kwargs, node):
    s = args[0]
    if len(args) == 3 and isinstance(args[1], VInt) and isinstance(args[2], VStr) and args[2].const() == "0":
        n = ops.int_term(args[1])
        c, k = s.const(), args[1].const()
        if c is not None and k is not None:
            return [(st, VStr(c.ljust(k, "0")))]
        return [(st, VStr(LJUST0(s.t, n)))]
    return [(st, VUnk("str.ljust"))]


def install_string_models(reg):
    reg.ext_models["str.lower"] = m_lower
    reg.ext_models["str.split"] = m_split
    reg.ext_models["str.ljust"] = m_ljust
    reg.ext_models["fnmatch.fnmatch"] = m_fnmatch
    reg.ext_models["datetime.datetime.fromisoformat"] = m_fromisoformat


# ================================================================ executor ==
def subst_v(v: V, i, j):
    """v with the Int constant i replaced by the term j."""
    if isinstance(v, VBool):
        return VBool(z3.substitute(v.t, (i, j)))
    if isinstance(v, VStr):
        return VStr(z3.substitute(v.t, (i, j)))
    if isinstance(v, VInt):
        return VInt(z3.substitute(v.t, (i, j)))
    if isinstance(v, VExt):
        return VExt(v.sort, z3.substitute(v.t, (i, j)))
    raise ops.Unsupported(f"element kind {v.kind} in symbolic comprehension")


class C18Executor(Executor):
    """Pack-local extensions: datetime comparison, generator expressions over
    symbolic sequences (`any(f(x) for x in seq)` becomes an existential)."""

    # -- datetime ------------------------------------------------------------
    def compare(self, st, op, a, b, node):
        if isinstance(a, VExt) and isinstance(b, VExt) and a.sort == b.sort == "datetime":
            ua, ub = DT.us(a.t), DT.us(b.t)
            aa, ab = DT.aware(a.t), DT.aware(b.t)
            if op in ("Eq", "NotEq"):
                t = z3.And(aa == ab, ua == ub)
                return [(st, VBool(t if op == "Eq" else z3.Not(t)))]
            if op in ("Lt", "LtE", "Gt", "GtE"):
                st2 = self.fork_raise(st, aa != ab, "TypeError")   # can't compare offset-naive and offset-aware
                if st2 is None:
                    return []
                return [(st2, VBool({"Lt": ua < ub, "LtE": ua <= ub, "Gt": ua > ub, "GtE": ua >= ub}[op]))]
        return super().compare(st, op, a, b, node)

    # -- strings: structural find / slices (see str_parts) ----------------------
    def str_method(self, st, s, name, args, kwargs, node):
        if name == "find" and len(args) == 1 and isinstance(args[0], VStr) and args[0].const():
            idx = struct_index_of(self, st, s.t, args[0].const())
            if idx is not None:
                return [(st, VInt(idx))]
        if name == "endswith" and len(args) == 1 and isinstance(args[0], VStr) and args[0].const() and len(args[0].const()) == 1:
            return [(st, VBool(z3.simplify(struct_endswith(self, st, str_parts(s.t), args[0].const()))))]
        if name == "encode":
            return self.str_method_encode(st, s)
        return super().str_method(st, s, name, args, kwargs, node)

    def contains(self, st, container, item, node):
        if isinstance(container, VStr) and isinstance(item, VStr) and item.const() and len(item.const()) == 1:
            ch = item.const()
            terms = []
            for p in str_parts(container.t):
                if z3.is_string_value(p):
                    if ch in p.as_string():
                        return [(st, VBool(True))]
                elif not proves(self, st, z3.Not(z3.Contains(p, sv(ch))), 500):
                    terms.append(z3.Contains(p, sv(ch)))
            return [(st, VBool(z3.Or(terms) if terms else z3.BoolVal(False)))]
        return super().contains(st, container, item, node)

    def str_slice(self, st, base, sl, node):
        if sl.step is None:
            ln = z3.simplify(z3.Length(base.t))

            def pos(e, dflt):
                if e is None:
                    return dflt
                t = self._ev_int1(e, st, node)
                tc = z3.simplify(t)
                if z3.is_int_value(tc):
                    c = tc.as_long()
                    if c < 0:
                        return z3.simplify(ln + c) if proves(self, st, ln + c >= 0, 500) else None
                    return tc if (c == 0 or proves(self, st, ln >= c, 500)) else None
                return tc if proves(self, st, z3.And(tc >= 0, tc <= ln), 500) else None
            lo, hi = pos(sl.lower, z3.IntVal(0)), pos(sl.upper, "end")
            if lo is not None and hi is not None:
                if isinstance(hi, str) or proves(self, st, lo <= hi, 500):
                    r = struct_substr(self, st, base.t, lo, None if isinstance(hi, str) else hi)
                    if r is not None:
                        return [(st, VStr(r))]
        return super().str_slice(st, base, sl, node)

    # -- transport, abstract library objects ----------------------------------
    def __init__(self, *a, unshaped_keys=(), **kw):
        super().__init__(*a, **kw)
        self.unshaped_keys = tuple(unshaped_keys)

    def call(self, st, f, args, kwargs, node):
        if isinstance(f, VExt) and f.sort == "Transport":
            return transport_call(self, st, f, args, kwargs, node)
        return super().call(st, f, args, kwargs, node)

    def handler_classes(self, h, st):
        # urllib.error.X / json.JSONDecodeError and their short aliases are one class each
        return [n.split(".")[-1] if n.split(".")[0] in ("urllib", "json") else n for n in super().handler_classes(h, st)]

    def mk_exc(self, cls, **attrs):
        if cls == "SharePointRequestError" and "status_code" not in attrs:
            attrs["status_code"] = VInt(z3.Int(fresh_name("status_code")))   # None behaves like a non-matching int under ==
        return super().mk_exc(cls, **attrs)

    def truth(self, st, v):
        if isinstance(v, VExt) and v.sort == "Bytes":
            return VBool(BLEN(v.t) > 0)
        if isinstance(v, VExt) and v.sort == "Json":
            return VBool(J_TRUTHY(v.t))
        return super().truth(st, v)

    def str_method_encode(self, st, s):
        return [(st, VExt("Bytes", ENC(s.t)))]

    def b_getattr(self, st, args, kwargs, node):
        if len(args) == 3 and isinstance(args[0], VExt) and args[0].sort == "Response" and isinstance(args[1], VStr) \
                and args[1].const() == "status":
            r = args[0].t
            a = st.fork().assume(z3.Not(R_HAS_STATUS(r)))
            b = st.fork().assume(z3.And(R_HAS_STATUS(r), R_STATUS_NONE(r)))
            c = st.assume(z3.And(R_HAS_STATUS(r), z3.Not(R_STATUS_NONE(r))))
            return [(a, args[2]), (b, NONE), (c, VInt(R_STATUS(r)))]
        return super().b_getattr(st, args, kwargs, node)

    def b_isinstance(self, st, args, kwargs, node):
        v, t = args
        if isinstance(v, VExt) and v.sort == "Json":
            names = [x.name for x in (t.items if isinstance(t, VTuple) else [t])]
            if names == ["dict"]:
                return [(st, VBool(J_ISDICT(v.t)))]
            if names == ["str"]:
                return [(st, VBool(J_ISSTR(v.t)))]
        return super().b_isinstance(st, args, kwargs, node)

    # -- comprehensions over symbolic sequences ------------------------------
    def e_GeneratorExp(self, n, st):
        if len(n.generators) == 1 and not n.generators[0].ifs and isinstance(n.generators[0].target, ast_Name):
            g = n.generators[0]
            its = self.ev(g.iter, st)
            if len(its) == 1 and isinstance(its[0][1], VSeq):
                s2, seq = its[0]
                i = z3.Int(fresh_name("ci"))
                from pyvc.state import Frame
                fr = Frame({}, len(s2.frames) - 1, s2.frame.fnode)
                s2.frames.append(fr)
                mark = len(self.sinks[-1])
                pclen = len(s2.pc)
                s2.bind(g.target.id, seq.elem(i))
                res = self.ev(n.elt, s2)
                if len(res) != 1 or len(self.sinks[-1]) != mark or len(res[0][0].pc) != pclen:
                    self.unsupported(n, "forking / raising element expression in comprehension over a symbolic sequence")
                s3, val = res[0]
                s3.frames.pop()
                return [(s3, VSeq(seq.length, lambda j, val=val, i=i: subst_v(val, i, j), val.kind))]
        return super().e_GeneratorExp(n, st)

    def b_any(self, st, args, kwargs, node):
        v = args[0]
        if isinstance(v, VSeq):
            j = z3.Int(fresh_name("j"))
            return [(st, VBool(z3.Exists([j], z3.And(j >= 0, j < v.length, self.truth(st, v.elem(j)).t))))]
        return super().b_any(st, args, kwargs, node)


import ast as _ast  # noqa: E402
ast_Name = _ast.Name

EXECUTOR = C18Executor


# ================================================================== Part A ==
def p_seq_str(fname):
    """A list of strings of any length (immutable view)."""
    def mk(ex, st, name):
        n = z3.Int(f"{fname}.len")
        at = z3.Function(f"{fname}.at", I, S)
        return [(n >= 0, VSeq(n, lambda i: VStr(at(i)), "str", tag=fname))]
    return Maker(mk, desc="list[str] of any length")


META = p_obj("SharePointFileMetadata", {
    "name": p_str(), "id": p_str(), "web_url": p_str(), "download_url": p_unk(), "size": p_unk(), "mime_type": p_unk(),
    "last_modified": p_opt(p_str()), "created": p_opt(p_str()), "parent_path": p_opt(p_str()), "custom_fields": p_unk()})

FILTER = p_obj("FileFilter", {
    "created_after": p_opt(p_dt()), "created_before": p_opt(p_dt()),
    "modified_after": p_opt(p_dt()), "modified_before": p_opt(p_dt()),
    "folder_paths": p_unk(), "path_patterns": p_seq_str("path_patterns"), "extensions": p_seq_str("extensions")})


def fields(c, pname, st=None):
    st = st or c.entry
    return st.obj(c.args[pname].ref).data


def full_path_spec(meta_fields):
    """Statement: the full path = parent path and name joined by '/', or the name alone at the root."""
    pp, name = meta_fields["parent_path"], meta_fields["name"]
    if isinstance(pp, VNoneT):
        return name.t
    return z3.If(z3.Length(pp.t) > 0, z3.Concat(pp.t, sv("/"), name.t), name.t)


def date_ok(s, after, before):
    """Statement: inclusive-after and exclusive-before, on the instant the file's timestamp denotes."""
    if isinstance(after, VNoneT) and isinstance(before, VNoneT):
        return z3.BoolVal(True)
    if isinstance(s, VNoneT):
        return z3.BoolVal(False)
    t = SEM_US(s.t)
    cs = [z3.Length(s.t) > 0, SEM_OK(s.t)]
    if not isinstance(after, VNoneT):
        cs.append(t >= z3.ToReal(DT.us(after.t)))
    if not isinstance(before, VNoneT):
        cs.append(t < z3.ToReal(DT.us(before.t)))
    return z3.And(cs)


def any_of(seq: VSeq, pred):
    j = z3.Int(fresh_name("k!spec"))
    return z3.Exists([j], z3.And(j >= 0, j < seq.length, pred(seq.elem(j).t)))


def matches_spec(c):
    f, m = fields(c, "self"), fields(c, "file_meta")
    name = m["name"].t
    exts, pats = f["extensions"], f["path_patterns"]
    fp = full_path_spec(m)
    ext_ok = z3.Or(exts.length == 0, any_of(exts, lambda e: z3.SuffixOf(LOWER(e), LOWER(name))))
    pat_ok = z3.Or(pats.length == 0, any_of(pats, lambda p: FNMATCH(fp, p)))
    return z3.And(date_ok(m["created"], f["created_after"], f["created_before"]),
                  date_ok(m["last_modified"], f["modified_after"], f["modified_before"]),
                  ext_ok, pat_ok)


def matches_requires(c):
    """Bounds are instants (aware datetimes); timestamps sent by the server carry a UTC designator / offset."""
    f, m = fields(c, "self"), fields(c, "file_meta")
    cs = []
    for k in ("created_after", "created_before", "modified_after", "modified_before"):
        if not isinstance(f[k], VNoneT):
            cs.append(DT.aware(f[k].t))
    for k in ("created", "last_modified"):
        if not isinstance(m[k], VNoneT):
            cs.append(z3.Implies(SEM_OK(m[k].t), SEM_AWARE(m[k].t)))
    return z3.And(cs + [z3.BoolVal(True)])


def parse_returns(c):
    s = c.args["dt_string"].t
    form = _ISO_FORMS.get(s.get_id(), ("call-site", ""))
    if form[0] == "any":
        # arbitrary string: totality only (None or some datetime)
        if c.result is None or isinstance(c.result, VNoneT):
            return NONE
        return c.result
    return [(z3.Not(SEM_OK(s)), NONE), (SEM_OK(s), parsed(s))]


def part_a(reg):
    out = []
    out.append(FnContract(
        target=f"{CLIENT}::SharePointFileMetadata.get_full_path",
        params=[("self", META)],
        returns=lambda c: VStr(full_path_spec(fields(c, "self"))),
        note="full path = parent_path/name, or name at the root",
    ))
    out.append(FnContract(
        target=f"{CLIENT}::_parse_iso_datetime",
        params=[("dt_string", p_iso_string())],
        returns=parse_returns,
        raises=[],
        note="returns the instant denoted by the ISO-8601 string at datetime (microsecond) resolution, None if it denotes none",
    ))
    out.append(FnContract(
        target=f"{CLIENT}::FileFilter.matches",
        params=[("self", FILTER), ("file_meta", META)],
        requires=matches_requires,
        returns=lambda c: VBool(matches_spec(c)),
        raises=[],
        note="matches <=> date bounds (inclusive-after, exclusive-before, on instants) and case-insensitive extension "
             "and some pattern fnmatches the full path",
    ))
    return out


# ================================================================== Part B ==
# ---- abstract library objects ------------------------------------------------
JsonS, BytesS, RespS, ReqS = ext_sort("Json"), ext_sort("Bytes"), ext_sort("Response"), ext_sort("Request")
J_ISDICT = z3.Function("json_is_object", JsonS, B)
J_HAS = z3.Function("json_has_key", JsonS, S, B)
J_GET = z3.Function("json_member", JsonS, S, JsonS)
J_ISSTR = z3.Function("json_is_string", JsonS, B)
J_STR = z3.Function("json_string", JsonS, S)
J_LEN = z3.Function("json_array_len", JsonS, I)
J_AT = z3.Function("json_array_item", JsonS, I, JsonS)
J_TRUTHY = z3.Function("json_truthy", JsonS, B)
JSON_OK = z3.Function("json_parses", S, B)
LOADS = z3.Function("json_loads", S, JsonS)
DUMPS = z3.Function("json_dumps", JsonS, S)
BLEN = z3.Function("bytes_len", BytesS, I)
DEC_OK = z3.Function("utf8_decodes", BytesS, B)
DEC = z3.Function("utf8_decode", BytesS, S)
DEC_REPL = z3.Function("utf8_decode_replace", BytesS, S)
ENC = z3.Function("utf8_encode", S, BytesS)
FULL_URL = z3.Function("request_full_url", ReqS, S)
R_HAS_STATUS = z3.Function("response_has_status_attr", RespS, B)
R_STATUS = z3.Function("response_status", RespS, I)
R_STATUS_NONE = z3.Function("response_status_is_none", RespS, B)
R_CODE = z3.Function("response_getcode", RespS, I)
R_CODE_NONE = z3.Function("response_getcode_is_none", RespS, B)
R_BODY = z3.Function("response_body", RespS, BytesS)
JSON_OF = z3.Function("server_json", S, JsonS)     # T-DET: what a healthy server answers to GET url (parsed)

# keys whose value, when present, is ASSUMED to be a string (GRAPH-SHAPE); "value" is ASSUMED to be an array
SHAPE_STR_KEYS = frozenset({"name", "id", "@odata.nextLink", "access_token"})
SHAPE_LIST_KEYS = frozenset({"value"})


def json_seq(arr):
    return VSeq(J_LEN(arr), lambda i: VExt("Json", J_AT(arr, i)), "Json")


def m_json_get(ex, st, obj, args, kwargs, node):
    """dict.get on a parsed JSON value: AttributeError unless it is an object; the default when the key is absent;
    the member otherwise (strings / arrays per GRAPH-SHAPE, else an opaque JSON value)."""
    key = args[0].const() if args and isinstance(args[0], VStr) else None
    if key is None:
        return ex.havoc_call(st, "Json.get", args, node)
    default = args[1] if len(args) > 1 else NONE
    j = obj.t
    st = ex.fork_raise(st, z3.Not(J_ISDICT(j)), "AttributeError")
    if st is None:
        return []
    has = J_HAS(j, sv(key))
    mem = J_GET(j, sv(key))
    out = []
    if ex.feasible(st.pc, z3.Not(has)):
        out.append((st.fork().assume(z3.Not(has)), default))
    if ex.feasible(st.pc, has):
        s1 = st.fork().assume(has)
        strict = key in getattr(ex, "unshaped_keys", ())
        if key in SHAPE_LIST_KEYS:
            s1.assume(J_LEN(mem) >= 0)
            out.append((s1, json_seq(mem)))
        elif key in SHAPE_STR_KEYS and not strict:
            out.append((s1, VStr(J_STR(mem))))
        elif key in SHAPE_STR_KEYS:
            s2 = s1.fork().assume(z3.Not(J_ISSTR(mem)))
            out.append((s1.assume(J_ISSTR(mem)), VStr(J_STR(mem))))
            out.append((s2, VExt("Json", mem)))
        else:
            out.append((s1, VExt("Json", mem)))
    return out


def m_json_loads(ex, st, args, kwargs, node):
    """json.loads(text): ASSUMED -- JSONDecodeError iff the text is not JSON, else the parsed value."""
    x = args[0]
    if not isinstance(x, VStr):
        return ex.havoc_call(st, "json.loads", args, node)
    st2 = ex.fork_raise(st, z3.Not(JSON_OK(x.t)), "JSONDecodeError")
    if st2 is None:
        return []
    st2.assume(J_ISDICT(LOADS(x.t)))      # GRAPH-SHAPE: a body that is JSON at all is a JSON object
    return [(st2, VExt("Json", LOADS(x.t)))]


def m_json_dumps(ex, st, args, kwargs, node):
    if args and isinstance(args[0], VExt) and args[0].sort == "Json":
        return [(st, VStr(DUMPS(args[0].t)))]
    return ex.havoc_call(st, "json.dumps", args, node)


def m_bytes_decode(ex, st, obj, args, kwargs, node):
    """bytes.decode('utf-8'[, errors='replace']): strict decoding raises UnicodeDecodeError on invalid UTF-8."""
    errs = kwargs.get("errors", args[1] if len(args) > 1 else None)
    if isinstance(errs, VStr) and errs.const() == "replace":
        return [(st, VStr(DEC_REPL(obj.t)))]
    st2 = ex.fork_raise(st, z3.Not(DEC_OK(obj.t)), "UnicodeDecodeError")
    if st2 is None:
        return []
    return [(st2, VStr(DEC(obj.t)))]


def m_new_request(ex, st, args, kwargs, node):
    """urllib.request.Request(url, ...): ASSUMED to succeed for the URLs built here; full_url is the URL given."""
    url = args[0] if args else kwargs.get("url")
    r = VExt("Request")
    if isinstance(url, VStr):
        st.assume(FULL_URL(r.t) == url.t)
    return [(st, r)]


NETLOC = z3.Function("url_netloc", S, S)
UPATH = z3.Function("url_path", S, S)


def m_urlparse(ex, st, args, kwargs, node):
    """urllib.parse.urlparse(s): ASSUMED total on strings (uninterpreted netloc / path)."""
    if not (args and isinstance(args[0], VStr)):
        return ex.havoc_call(st, "urlparse", args, node)
    r = VExt("ParseResult")
    st.ghost[("parsed", r.t.get_id())] = args[0].t
    return [(st, r)]


def m_urlencode(ex, st, args, kwargs, node):
    return [(st, VStr(z3.String(fresh_name("urlencoded"))))]


def _flag_misbehaviour(ex, st, site):
    """A path on which the transport / response object raises something the stated assumptions exclude."""
    bad = st.fork()
    bad.ghost["misbehaved"] = True
    ex.exc_any(bad, site)


def open_set(st):
    return st.ghost.get("open", frozenset())


def transport_call(ex, st, f, args, kwargs, node):
    """self._request(request, timeout=...): the transport.
    T-ONLY (assumed for the family claim): it raises only HTTPError / URLError or returns a response object.
    Every other exception is modelled too (ghost `misbehaved`) so that closing is proved for those paths as well."""
    out = []
    code = z3.Int(fresh_name("http_code"))
    e1 = st.fork()
    e1.ghost["transport"] = ("http", code)
    ex.raise_in(e1, VExc(z3.IntVal(ex.uni.index["HTTPError"]),
                         {"code": VInt(code), "reason": VStr(z3.String(fresh_name("reason"))),
                          "read": VFunc("ext", "C18.http_error_read")}))
    e2 = st.fork()
    e2.ghost["transport"] = ("url",)
    ex.raise_in(e2, VExc(z3.IntVal(ex.uni.index["URLError"]), {"reason": VStr(z3.String(fresh_name("reason")))}))
    _flag_misbehaviour(ex, st, f"{ex.loc(node)} transport raises something else")
    r = VExt("Response")
    st.ghost["transport"] = ("resp", r)
    st.ghost["open"] = open_set(st) | {r.t.get_id()}
    st.ghost["obtained"] = st.ghost.get("obtained", 0) + 1
    return [(st, r)]


def m_http_error_read(ex, st, args, kwargs, node):
    _flag_misbehaviour(ex, st, f"{ex.loc(node)} HTTPError.read raises")
    return [(st, VExt("Bytes"))]


def m_resp_getcode(ex, st, obj, args, kwargs, node):
    _flag_misbehaviour(ex, st, f"{ex.loc(node)} response.getcode raises")
    a = st.fork().assume(R_CODE_NONE(obj.t))
    return [(a, NONE), (st.assume(z3.Not(R_CODE_NONE(obj.t))), VInt(R_CODE(obj.t)))]


def m_resp_read(ex, st, obj, args, kwargs, node):
    _flag_misbehaviour(ex, st, f"{ex.loc(node)} response.read raises")
    return [(st, VExt("Bytes", R_BODY(obj.t)))]


def m_resp_close(ex, st, obj, args, kwargs, node):
    """close(): the response counts as closed once close() has been called; it may still raise."""
    st.ghost["open"] = open_set(st) - {obj.t.get_id()}
    ex.exc_any(st.fork(), f"{ex.loc(node)} response.close raises")
    return [(st, NONE)]


def install_transport_models(reg):
    reg.method_models[("Json", "get")] = m_json_get
    reg.ext_models["json.loads"] = m_json_loads
    reg.ext_models["json.dumps"] = m_json_dumps
    reg.method_models[("Bytes", "decode")] = m_bytes_decode
    reg.ext_models[("new", "urllib.request.Request")] = m_new_request
    reg.ext_models["urllib.parse.urlencode"] = m_urlencode
    reg.ext_models["urllib.parse.urlparse"] = m_urlparse
    reg.attr_models[("ParseResult", "netloc")] = lambda ex, st, o: VStr(NETLOC(st.ghost[("parsed", o.t.get_id())]))
    reg.attr_models[("ParseResult", "path")] = lambda ex, st, o: VStr(UPATH(st.ghost[("parsed", o.t.get_id())]))
    reg.ext_models["C18.http_error_read"] = m_http_error_read
    reg.method_models[("Response", "getcode")] = m_resp_getcode
    reg.method_models[("Response", "read")] = m_resp_read
    reg.method_models[("Response", "close")] = m_resp_close
    reg.attr_models[("Request", "full_url")] = lambda ex, st, o: VStr(FULL_URL(o.t))


CREDS = p_obj("EntraIDAppCredentials", {"tenant_id": p_str(), "client_id": p_str(), "client_secret": p_str(), "scope": p_str()})


def p_transport():
    return Maker(lambda ex, st, name: VExt("Transport"), desc="transport callable (request_func / urlopen)")


def p_client(token=None, site=None):
    return p_obj("SharePointRestClient", {
        "_site_url": p_str(), "_credentials": CREDS, "_request": p_transport(), "_timeout": p_unk(),
        "_access_token": token or p_opt(p_str()), "_site_id": site or p_opt(p_str())})


def p_req():
    return Maker(lambda ex, st, name: VExt("Request", z3.Const(name, ReqS)), desc="urllib Request")


def self_field(c, f, st=None):
    st = st or c.st
    o = st.obj(c.args["self"].ref)
    return o.data[f] if o.data is not None else VUnk("havocked")


def same_value(a, b):
    if a is b:
        return z3.BoolVal(True)
    try:
        return ops.eq_term(a, b)
    except ops.Unsupported:
        return z3.BoolVal(False)


def closed(c):
    return z3.BoolVal(not open_set(c.st))


def caches_unchanged(c):
    return z3.And(same_value(self_field(c, "_access_token"), self_field(c, "_access_token", c.entry)),
                  same_value(self_field(c, "_site_id"), self_field(c, "_site_id", c.entry)))


def at_call_site(c):
    """Contract clauses are evaluated both when the body is verified (c.exc / c.result set) and when a caller
    uses the contract (neither set): there they describe what the caller may assume."""
    return c.exc is None and c.result is None


def send_raise_when(c):
    """Statement: HTTP / network failures and non-2xx answers give the request error carrying status and URL."""
    if at_call_site(c):
        return z3.BoolVal(True)
    g = c.st.ghost
    kind = g.get("transport")
    if kind is None or g.get("misbehaved"):
        return z3.BoolVal(False)
    a = c.exc.attrs
    if "status_code" not in a or "url" not in a or not isinstance(a["url"], VStr):
        return z3.BoolVal(False)
    url_ok = a["url"].t == FULL_URL(c.args["request"].t)
    sc = a["status_code"]
    if kind[0] == "http":
        st_ok = same_value(sc, VInt(kind[1]))
    elif kind[0] == "url":
        st_ok = z3.BoolVal(isinstance(sc, VNoneT))
    else:
        none, eff = eff_status(kind[1].t)
        if isinstance(sc, VNoneT):
            st_ok = none
        elif isinstance(sc, VInt):
            st_ok = z3.And(z3.Not(none), ops.int_term(sc) == eff, z3.Or(eff < 200, eff >= 300))
        else:
            st_ok = z3.BoolVal(False)
    return z3.And(url_ok, st_ok, closed(c))


def eff_status(r):
    """The status a response object reports: its `status` attribute, else getcode() (urllib convention).
    -> (is None, value)"""
    has = z3.And(R_HAS_STATUS(r), z3.Not(R_STATUS_NONE(r)))
    return z3.And(z3.Not(has), R_CODE_NONE(r)), z3.If(has, R_STATUS(r), R_CODE(r))


def send_result(ex, st, ctx):
    s = z3.Int(fresh_name("status"))
    st.assume(z3.And(s >= 200, s < 300))
    return VTuple([VInt(s), VExt("Bytes")])


def token_frame(ex, st, amap):
    """Call-site frame of everything that may fetch a token: only `_access_token` may change."""
    ref = amap["self"].ref
    w = st.wobj(ref)
    w.data["_access_token"] = VUnk("token-maybe-fetched")


def token_after_success(ex, st, ctx):
    """After a successful authorised request the token is cached: the old one, or a fresh non-empty string."""
    ref = ctx.args["self"].ref
    old = ctx.entry.obj(ref).data["_access_token"]
    w = st.wobj(ref)
    if isinstance(old, VStr):
        w.data["_access_token"] = old
    else:
        t = z3.String(fresh_name("token"))
        st.assume(z3.Length(t) > 0)
        w.data["_access_token"] = VStr(t)
    return w.data["_access_token"]


def get_json_result(ex, st, ctx):
    token_after_success(ex, st, ctx)
    j = JSON_OF(ctx.args["url"].t)
    st.assume(J_ISDICT(j))        # GRAPH-SHAPE: a healthy answer is a JSON object
    return VExt("Json", j)


FAMILY = ("SharePointRequestError", "SharePointAuthError")


def part_b(reg):
    out = []

    def send_ensures_2xx(c):
        r = c.result
        if not (isinstance(r, VTuple) and len(r.items) == 2 and isinstance(r.items[0], VInt)):
            return z3.BoolVal(False)
        s = ops.int_term(r.items[0])
        ok = z3.And(s >= 200, s < 300)
        kind = c.st.ghost.get("transport")
        if kind is not None:     # verification of the body: it is the status reported by the response obtained
            if kind[0] != "resp":
                return z3.BoolVal(False)
            none, eff = eff_status(kind[1].t)
            ok = z3.And(ok, z3.Not(none), s == eff)
        return ok

    out.append(FnContract(
        target=f"{CLIENT}::SharePointRestClient._send",
        params=[("self", p_client()), ("request", p_req()), ("request_kind", p_str())],
        ensures=[("every-response-obtained-is-closed", closed), ("returns-only-2xx-with-the-response-status", send_ensures_2xx),
                 ("caches-untouched", caches_unchanged)],
        raises=[Raises("SharePointRequestError", when=lambda c: z3.And(send_raise_when(c), caches_unchanged(c)),
                       label="HTTPError/URLError/non-2xx -> request error with status and url, responses closed"),
                Raises("Exception", sub=True, when=lambda c: z3.And(z3.BoolVal(bool(c.st.ghost.get("misbehaved")) and not at_call_site(c)), closed(c)),
                       label="outside T-ONLY/R-OK: other transport / response exceptions escape unchanged, responses closed")],
        result_maker=send_result,
        note="transport wrapper: closes what it opened on every path; only the request error escapes under T-ONLY, R-OK",
    ))

    def family_raises(extra=None):
        def w(c):
            if at_call_site(c):
                # the caller keeps what it knew about the caches: a cached token stays; an absent one is absent or fresh
                ref = c.args["self"].ref
                old = c.entry.obj(ref).data["_access_token"]
                if isinstance(old, VStr) or extra is token_unchanged:
                    c.st.wobj(ref).data["_access_token"] = old
                return z3.BoolVal(True)
            cs = [closed(c), same_value(self_field(c, "_site_id"), self_field(c, "_site_id", c.entry))]
            if extra is not None:
                cs.append(extra(c))
            return z3.And(cs)
        return [Raises(k, when=w) for k in FAMILY]

    def token_unchanged(c):
        return same_value(self_field(c, "_access_token"), self_field(c, "_access_token", c.entry))

    def token_cached(c):
        t = self_field(c, "_access_token")
        if not isinstance(t, VStr) or not isinstance(c.result, VStr):
            return z3.BoolVal(False)
        return z3.And(t.t == c.result.t, z3.Length(t.t) > 0)

    out.append(FnContract(
        target=f"{CLIENT}::SharePointRestClient.fetch_access_token",
        params=[("self", p_client())],
        ensures=[("token-cached-is-the-non-empty-token-returned", token_cached), ("responses-closed", closed),
                 ("site-id-untouched", lambda c: same_value(self_field(c, "_site_id"), self_field(c, "_site_id", c.entry)))],
        raises=family_raises(token_unchanged),
        modifies=("self",), frame=token_frame,
        result_maker=lambda ex, st, ctx: _fresh_token(ex, st, ctx),
        note="token cached only after a successful, well-formed token response; any failure is of the client family",
    ))

    def json_token_rule(c):
        """_access_token afterwards: unchanged if there was one, else a freshly fetched non-empty token."""
        old, new = self_field(c, "_access_token", c.entry), self_field(c, "_access_token")
        if isinstance(old, VStr):
            return same_value(old, new)
        return z3.And(z3.BoolVal(isinstance(new, VStr)), z3.Length(new.t) > 0 if isinstance(new, VStr) else z3.BoolVal(False))

    def json_raise_token_rule(c):
        old, new = self_field(c, "_access_token", c.entry), self_field(c, "_access_token")
        if isinstance(old, VStr):
            return same_value(old, new)
        return z3.BoolVal(isinstance(new, (VStr, VNoneT)))

    out.append(FnContract(
        target=f"{CLIENT}::SharePointRestClient._get_json",
        params=[("self", p_client()), ("url", p_str())],
        ensures=[("responses-closed", closed), ("token-present-afterwards", json_token_rule),
                 ("site-id-untouched", lambda c: same_value(self_field(c, "_site_id"), self_field(c, "_site_id", c.entry))),
                 ("result-is-the-parsed-body", lambda c: z3.BoolVal(isinstance(c.result, VExt) and c.result.sort == "Json"))],
        raises=family_raises(json_raise_token_rule),
        modifies=("self",), frame=token_frame,
        result_maker=get_json_result,
        note="GET + JSON: malformed JSON -> request error; callers see the healthy server's answer JSON_OF(url) (T-DET)",
    ))

    def site_cached(c):
        sid = self_field(c, "_site_id")
        if not isinstance(sid, VStr) or not isinstance(c.result, VStr):
            return z3.BoolVal(False)
        old = self_field(c, "_site_id", c.entry)
        return z3.And(sid.t == c.result.t, same_value(old, sid) if isinstance(old, VStr) else z3.BoolVal(True))

    def site_frame(ex, st, amap):
        token_frame(ex, st, amap)

    def site_result(ex, st, ctx):
        token_after_success_if_needed(ex, st, ctx)
        ref = ctx.args["self"].ref
        old = ctx.entry.obj(ref).data["_site_id"]
        if isinstance(old, VStr):
            return old
        sid = VStr(z3.String(fresh_name("site_id")))
        st.wobj(ref).data["_site_id"] = sid
        return sid

    out.append(FnContract(
        target=f"{CLIENT}::SharePointRestClient.get_site_id",
        params=[("self", p_client())],
        ensures=[("site-id-cached-is-the-one-returned", site_cached), ("responses-closed", closed)],
        raises=family_raises(),
        modifies=("self",), frame=site_frame,
        result_maker=site_result,
        note="site id cached only after a successful response carrying a string id; cached value reused without a request",
    ))
    return out


def _fresh_token(ex, st, ctx):
    ref = ctx.args["self"].ref
    t = z3.String(fresh_name("token"))
    st.assume(z3.Length(t) > 0)
    st.wobj(ref).data["_access_token"] = VStr(t)
    return VStr(t)


def token_after_success_if_needed(ex, st, ctx):
    """get_site_id: with a cached site id no request is made and the token stays as it was."""
    ref = ctx.args["self"].ref
    e = ctx.entry.obj(ref).data
    if isinstance(e["_site_id"], VStr):
        st.wobj(ref).data["_access_token"] = e["_access_token"]
    else:
        token_after_success(ex, st, ctx)


def contracts(reg):
    install_string_models(reg)
    install_transport_models(reg)
    return part_a(reg) + part_b(reg)


TRUSTED = []
ASSUMED_MODELS = []
ASSUMPTIONS = []

EXECUTOR_KW = {f"{CLIENT}::_parse_iso_datetime": {"feas_timeout_ms": 300},
               f"{CLIENT}::SharePointRestClient.get_site_id": {"unshaped_keys": ("id",)}}
