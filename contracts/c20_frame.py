"""C20 frame policy: a call of a driver keeps NO working state that outlives the call.

"For every key and block" quantifies over calls, not over one call at a time: the block functions and drivers must be
re-entrant (the module expects several threads, see its round-key cache).  The sufficient condition checked here, on the
AST of the real module: in every function reachable from an entry point, every WRITE (subscript / slice / attribute store,
in-place operator, `del`, mutating method, `readinto`-style fill, call of a module function that writes its parameter,
rebinding of a `global` / `nonlocal` name) goes to an object ALLOCATED IN THIS CALL.  Roots that outlive a call: module-level
names, closure variables, parameters with a mutable default, attributes of function objects; a local is an alias of a root
when any binding of it may share structure with the root (flow-insensitive may-alias: names, elements, slices, views,
attribute reads, results of methods that hand out elements, results of module functions by summary).

Anything found is `unknown` (code shape: a write-only statistic would be harmless); the native replayer's `concurrent`
scope decides.  Keyed caches written by the round-key provider are governed by the cache-invariant obligations, not here.
"""
import ast

FRESH_CALLS = {"list", "bytes", "bytearray", "tuple", "dict", "set", "frozenset", "sorted", "int", "len", "range", "str", "bool",
               "min", "max", "sum", "abs", "divmod", "isinstance", "hex", "ord", "chr", "repr", "any", "all", "float", "type", "id", "hash"}
COPY_METHODS = {"copy", "hex", "tobytes", "tolist", "decode", "encode", "join", "format", "to_bytes", "from_bytes", "count", "index", "find",
                "startswith", "endswith", "keys", "bit_length", "__len__", "fromhex", "token_bytes", "urandom", "randbytes", "digest", "hexdigest"}
MUTATORS = {"append", "extend", "insert", "pop", "remove", "clear", "sort", "reverse", "update", "setdefault", "popitem", "move_to_end",
            "add", "discard", "__setitem__", "__delitem__", "__iadd__", "appendleft", "popleft", "extendleft", "rotate", "release",
            "write", "seek", "truncate", "fill", "difference_update", "intersection_update", "symmetric_difference_update"}
ARG_MUTATORS = {"readinto": (0,), "readinto1": (0,), "recv_into": (0,), "pack_into": (1,), "shuffle": (0,), "setattr": (0,), "delattr": (0,),
                "heappush": (0,), "heappop": (0,), "heapify": (0,), "insort": (0,), "copyto": (0,)}
DICT_CTORS = {"OrderedDict", "dict", "defaultdict", "WeakValueDictionary", "LRUCache"}


def _own_nodes(fn):
    """nodes of `fn` without the bodies of nested function / class definitions (comprehensions and lambdas belong to it)"""
    stack = list(ast.iter_child_nodes(fn))
    while stack:
        n = stack.pop()
        yield n
        if isinstance(n, (ast.FunctionDef, ast.AsyncFunctionDef, ast.ClassDef)):
            stack.extend(n.decorator_list)
            if not isinstance(n, ast.ClassDef):
                stack.extend(d for d in n.args.defaults + n.args.kw_defaults if d is not None)
            continue
        stack.extend(ast.iter_child_nodes(n))


def _params(fn):
    a = fn.args
    return [p.arg for p in a.posonlyargs + a.args] + ([a.vararg.arg] if a.vararg else []) + [p.arg for p in a.kwonlyargs] + ([a.kwarg.arg] if a.kwarg else [])


def _mutable_default_params(fn):
    a = fn.args
    pos = a.posonlyargs + a.args
    pairs = list(zip(pos[len(pos) - len(a.defaults):], a.defaults)) + [(p, d) for p, d in zip(a.kwonlyargs, a.kw_defaults) if d is not None]
    out = set()
    for p, d in pairs:
        if isinstance(d, (ast.List, ast.Dict, ast.Set, ast.ListComp, ast.DictComp, ast.SetComp)):
            out.add(p.arg)
        elif isinstance(d, ast.Call) and not (isinstance(d.func, ast.Name) and d.func.id in ("bytes", "int", "str", "tuple", "frozenset", "float", "bool")):
            out.add(p.arg)
        elif isinstance(d, ast.BinOp) and isinstance(d.left, (ast.List, ast.Call)):
            out.add(p.arg)
        elif isinstance(d, (ast.Name, ast.Attribute, ast.Subscript)):
            out.add(p.arg)          # some object that exists at definition time
    return out


class Fn:
    def __init__(self, mod, q, node, module_names):
        self.q, self.node = q, node
        self.params = _params(node)
        self.declared = set()
        for n in _own_nodes(node):
            if isinstance(n, (ast.Global, ast.Nonlocal)):
                self.declared |= set(n.names)
        stored = set()
        for n in _own_nodes(node):
            if isinstance(n, ast.Name) and isinstance(n.ctx, (ast.Store, ast.Del)):
                stored.add(n.id)
            elif isinstance(n, (ast.FunctionDef, ast.AsyncFunctionDef, ast.ClassDef)):
                stored.add(n.name)
            elif isinstance(n, (ast.Import, ast.ImportFrom)):
                stored |= {(a.asname or a.name).split(".")[0] for a in n.names}
            elif isinstance(n, ast.ExceptHandler) and n.name:
                stored.add(n.name)
        self.locals = (stored | set(self.params)) - self.declared
        self.persistent_params = _mutable_default_params(node)
        self.module_names = module_names
        self.enclosing = []          # Fn objects of the enclosing functions (innermost first)
        self.alias = {}              # local name -> set of roots
        self.writes = []             # (root, lineno, text)
        self.mod_params = set()
        self.ret_roots = set()
        self.refs = set()            # module functions referenced

    def root_of_name(self, name):
        """roots a bare name stands for, None when the name is nothing this analysis tracks"""
        if name in self.locals:
            r = set(self.alias.get(name, ()))
            if name in self.params:
                r.add("P:" + name)
                if name in self.persistent_params:
                    r.add("D:" + self.q + "." + name)
            return r
        for e in self.enclosing:
            if name in e.locals:
                return {"C:" + e.q + "." + name}
        if name in self.module_names:
            return {"G:" + name}
        return set()


class Analysis:
    def __init__(self, mod):
        self.mod = mod
        names = set()
        for n in mod.tree.body:
            for t in ast.walk(n) if not isinstance(n, (ast.FunctionDef, ast.AsyncFunctionDef, ast.ClassDef)) else ():
                if isinstance(t, ast.Name) and isinstance(t.ctx, ast.Store):
                    names.add(t.id)
        self.module_names = names
        self.fns = {q: Fn(mod, q, node, names) for q, node in mod.functions.items() if isinstance(node, (ast.FunctionDef, ast.AsyncFunctionDef))}
        for q, f in self.fns.items():
            parts = q.split(".<locals>.")
            for k in range(len(parts) - 1, 0, -1):
                outer = ".<locals>.".join(parts[:k])
                if outer in self.fns:
                    f.enclosing.append(self.fns[outer])
        self.unknown = []
        for _ in range(6):
            before = self._sig()
            for f in self.fns.values():
                self._scan(f)
            if self._sig() == before:
                break

    def _sig(self):
        return [(q, sorted((k, tuple(sorted(v))) for k, v in f.alias.items()), sorted(f.mod_params), sorted(f.ret_roots), len(f.writes)) for q, f in self.fns.items()]

    # ------------------------------------------------------------------ callee resolution
    def callee(self, f, func):
        """Fn of a call target spelled as a bare name of a module-level or enclosing-scope function"""
        if isinstance(func, ast.Name) and func.id not in f.locals:
            for e in [f] + f.enclosing:
                q = e.q + ".<locals>." + func.id
                if q in self.fns:
                    return self.fns[q]
            return self.fns.get(func.id)
        if isinstance(func, ast.Name):
            q = f.q + ".<locals>." + func.id
            return self.fns.get(q)
        return None

    # ------------------------------------------------------------------ may-alias of an expression
    def roots(self, f, e):
        if e is None:
            return set()
        if isinstance(e, ast.Name):
            return f.root_of_name(e.id)
        if isinstance(e, ast.Attribute):
            if isinstance(e.value, ast.Name) and e.value.id not in f.locals and (e.value.id in self.fns):
                return {"F:" + e.value.id + "." + e.attr}          # attribute of a function object
            return self.roots(f, e.value)
        if isinstance(e, ast.Subscript):
            return self.roots(f, e.value)
        if isinstance(e, ast.Starred):
            return self.roots(f, e.value)
        if isinstance(e, ast.NamedExpr):
            return self.roots(f, e.value)
        if isinstance(e, ast.IfExp):
            return self.roots(f, e.body) | self.roots(f, e.orelse)
        if isinstance(e, ast.BoolOp):
            return set().union(*[self.roots(f, v) for v in e.values])
        if isinstance(e, (ast.List, ast.Tuple, ast.Set)):
            return set().union(*[self.roots(f, v) for v in e.elts]) if e.elts else set()
        if isinstance(e, ast.Dict):
            return set().union(*[self.roots(f, v) for v in e.values if v is not None]) if e.values else set()
        if isinstance(e, (ast.Await, ast.YieldFrom)):
            return self.roots(f, e.value)
        if isinstance(e, ast.Call):
            g = self.callee(f, e.func)
            args = list(e.args) + [k.value for k in e.keywords]
            if g is not None:
                out = {r for r in g.ret_roots if r[0] in "GCDF"}
                for i, a in enumerate(e.args):
                    if i < len(g.params) and "P:" + g.params[i] in g.ret_roots:
                        out |= self.roots(f, a)
                for k in e.keywords:
                    if k.arg and "P:" + k.arg in g.ret_roots:
                        out |= self.roots(f, k.value)
                return out
            if isinstance(e.func, ast.Name) and e.func.id not in f.locals:
                if e.func.id in FRESH_CALLS:
                    return set()
                return set().union(*[self.roots(f, a) for a in args]) if args else set()      # memoryview, iter, zip, getattr, ...
            if isinstance(e.func, ast.Attribute):
                if e.func.attr in COPY_METHODS:
                    return set()
                r = self.roots(f, e.func.value)
                return r | (set().union(*[self.roots(f, a) for a in args]) if args else set())
            return set().union(*[self.roots(f, a) for a in args]) if args else set()
        return set()        # constants, arithmetic, comparisons, comprehensions, f-strings, lambdas: fresh values

    # ------------------------------------------------------------------ one pass over a function
    def _bind(self, f, target, roots):
        if isinstance(target, ast.Name):
            if target.id in f.locals:
                if roots - f.alias.get(target.id, set()):
                    f.alias.setdefault(target.id, set()).update(roots)
        elif isinstance(target, (ast.Tuple, ast.List)):
            for t in target.elts:
                self._bind(f, t, roots)
        elif isinstance(target, ast.Starred):
            self._bind(f, target.value, roots)

    def _write(self, f, roots, node, what):
        for r in sorted(roots):
            if r.startswith("P:"):
                f.mod_params.add(r[2:])
            item = (r, getattr(node, "lineno", 0), what)
            if item not in f.writes:
                f.writes.append(item)

    def _scan(self, f):
        for n in _own_nodes(f.node):
            if isinstance(n, ast.Name) and isinstance(n.ctx, ast.Load) and n.id not in f.locals:
                g = self.callee(f, n)
                if g is not None:
                    f.refs.add(g.q)
            if isinstance(n, ast.Assign):
                r = self.roots(f, n.value)
                for t in n.targets:
                    self._bind(f, t, r)
                    self._store_target(f, t, n)
            elif isinstance(n, ast.AnnAssign) and n.value is not None:
                self._bind(f, n.target, self.roots(f, n.value))
                self._store_target(f, n.target, n)
            elif isinstance(n, ast.AugAssign):
                if isinstance(n.target, ast.Name):
                    r = self.roots(f, n.target) if n.target.id in f.locals else set()
                    if n.target.id in f.declared:
                        r = {"G:" + n.target.id}
                    if n.target.id in f.params and not self._mutable_annotation(f, n.target.id):
                        r = r - {"P:" + n.target.id}        # `data += pad` on a bytes / int / str parameter rebinds the local
                    self._write(f, r, n, f"in-place `{ast.unparse(n)[:60]}`")
                else:
                    self._store_target(f, n.target, n)
            elif isinstance(n, ast.Delete):
                for t in n.targets:
                    self._store_target(f, t, n)
            elif isinstance(n, (ast.For, ast.AsyncFor)):
                self._bind(f, n.target, self.roots(f, n.iter))
            elif isinstance(n, ast.comprehension):
                self._bind(f, n.target, self.roots(f, n.iter))
            elif isinstance(n, (ast.With, ast.AsyncWith)):
                for it in n.items:
                    if it.optional_vars is not None:
                        self._bind(f, it.optional_vars, self.roots(f, it.context_expr))
            elif isinstance(n, ast.NamedExpr):
                self._bind(f, n.target, self.roots(f, n.value))
            elif isinstance(n, ast.Return) and n.value is not None:
                f.ret_roots |= self.roots(f, n.value)
            elif isinstance(n, (ast.Yield, ast.YieldFrom)) and n.value is not None:
                f.ret_roots |= self.roots(f, n.value)
            elif isinstance(n, ast.Call):
                self._call(f, n)

    @staticmethod
    def _mutable_annotation(f, pname):
        a = f.node.args
        for p in a.posonlyargs + a.args + a.kwonlyargs:
            if p.arg == pname:
                if p.annotation is None:
                    return False
                txt = ast.unparse(p.annotation)
                return any(w in txt for w in ("list", "List", "bytearray", "dict", "Dict", "set", "Set", "memoryview", "deque", "Mutable", "object", "Any"))
        return False

    def _store_target(self, f, t, stmt):
        if isinstance(t, (ast.Subscript, ast.Attribute)):
            self._write(f, self.roots(f, t.value), stmt, f"store `{ast.unparse(t)[:60]}`")
        elif isinstance(t, ast.Name) and t.id in f.declared:
            self._write(f, {"G:" + t.id}, stmt, f"rebinds `{t.id}`")
        elif isinstance(t, (ast.Tuple, ast.List)):
            for x in t.elts:
                self._store_target(f, x, stmt)
        elif isinstance(t, ast.Starred):
            self._store_target(f, t.value, stmt)

    def _call(self, f, n):
        g = self.callee(f, n.func)
        if g is not None:
            for i, a in enumerate(n.args):
                if isinstance(a, ast.Starred):
                    if g.mod_params:
                        self._write(f, self.roots(f, a.value), n, f"`{g.q}` writes its argument")
                elif i < len(g.params) and g.params[i] in g.mod_params:
                    self._write(f, self.roots(f, a), n, f"`{g.q}` writes its parameter {g.params[i]}")
            for k in n.keywords:
                if k.arg in g.mod_params or (k.arg is None and g.mod_params):
                    self._write(f, self.roots(f, k.value), n, f"`{g.q}` writes its parameter {k.arg}")
            return
        name = n.func.attr if isinstance(n.func, ast.Attribute) else n.func.id if isinstance(n.func, ast.Name) else ""
        if isinstance(n.func, ast.Attribute) and name in MUTATORS:
            self._write(f, self.roots(f, n.func.value), n, f"`.{name}()`")
        if name in ARG_MUTATORS:
            for i in ARG_MUTATORS[name]:
                if i < len(n.args):
                    self._write(f, self.roots(f, n.args[i]), n, f"`{name}()` fills its argument")
        if isinstance(n.func, ast.Name) and n.func.id in f.locals and n.func.id in f.params:
            # a function-valued parameter is called: it is one of the module functions the callers in this module hand in at
            # that position (their bodies are followed by `reachable` through the callers' references); a caller that hands in
            # anything else makes the callee unknown
            cands = self._handed_in(f, f.params.index(n.func.id), n.func.id)
            for a_i, a in enumerate(n.args):
                r = {x for x in self.roots(f, a) if not x.startswith("P:")} if cands is None else self.roots(f, a)
                if cands is None:
                    if r and (f.q, n.lineno, f"persistent object handed to function-valued parameter `{n.func.id}`") not in self.unknown:
                        self.unknown.append((f.q, n.lineno, f"persistent object handed to function-valued parameter `{n.func.id}`"))
                    continue
                for g2 in cands:
                    if a_i < len(g2.params) and g2.params[a_i] in g2.mod_params:
                        self._write(f, r, n, f"`{g2.q}` (as `{n.func.id}`) writes its parameter {g2.params[a_i]}")

    def _handed_in(self, f, idx, pname):
        """module functions handed to parameter `pname` of `f` by the calls of `f` in this module; None when some call hands in
        something else or nobody calls `f` by name"""
        out, seen_call = [], False
        for h in self.fns.values():
            for n in _own_nodes(h.node):
                if isinstance(n, ast.Call) and self.callee(h, n.func) is f:
                    seen_call = True
                    arg = n.args[idx] if idx < len(n.args) and not any(isinstance(a, ast.Starred) for a in n.args[:idx + 1]) else \
                        next((k.value for k in n.keywords if k.arg == pname), None)
                    g = self.callee(h, arg) if isinstance(arg, ast.Name) else None
                    if g is None:
                        return None
                    out.append(g)
        return out if seen_call else None

    # ------------------------------------------------------------------ queries
    def reachable(self, q):
        seen, todo = set(), [q]
        while todo:
            x = todo.pop()
            if x in seen or x not in self.fns:
                continue
            seen.add(x)
            todo.extend(self.fns[x].refs)
        return seen

    def is_keyed_cache(self, root):
        if not root.startswith("G:"):
            return False
        init = self.mod.assigns.get(root[2:])
        if isinstance(init, ast.Dict):
            return True
        return isinstance(init, ast.Call) and (init.func.attr if isinstance(init.func, ast.Attribute) else getattr(init.func, "id", "")) in DICT_CTORS

    def persistent_writes(self, entry, cache_owner=None, constructor=False):
        """write sites in the functions reachable from `entry` whose target may outlive the call"""
        owner_fns = self.reachable(cache_owner) if cache_owner else set()
        sites = []
        for q in sorted(self.reachable(entry)):
            f = self.fns[q]
            for (root, line, what) in f.writes:
                if root.startswith("P:"):
                    # a write through a parameter is the caller's write (accounted at its call site); at the entry point
                    # itself the parameter is the caller's object: state kept on it outlives the call
                    if q != entry or constructor:
                        continue
                if q in owner_fns and self.is_keyed_cache(root):
                    continue
                sites.append(f"{q}:{line} {what} -> {root}")
            sites += [f"{fq}:{line} {what}" for (fq, line, what) in self.unknown if fq == q]
        return sites
