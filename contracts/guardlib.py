"""Branch conditions read semantically (shared helper for must-fact / typestate obligations).

`implied(test, branch, module, fnode)` lists the atomic facts that hold when the condition `test` of the real code evaluates to
`branch`: negation, De Morgan (`not (a or b)`, the false branch of `a or b`, the true branch of `a and b`), comparison flipping
(`a < b` == `b > a`, `not a > b` == `b >= a`), single-assignment local aliases (`size = info.file_size`, `limit = _config.x`) and
*local predicate helpers*: a call `f(args)` of a module-level function whose body is a decision tree of `if` / `return`
(docstrings, logging and other expression statements in between) is replaced by the facts common to all its paths that can
return `branch`, with the parameters substituted by the argument expressions.

Atoms are canonical tuples of source text:  ("cmp", op, left, right) with op in > >= == != is isnot in notin,  ("truth", expr, bool).
Nothing here decides an obligation: a shape that is not understood yields fewer facts (the obligation then stays `unknown`)."""
import ast
import copy

_NEG = {ast.Gt: ast.LtE, ast.LtE: ast.Gt, ast.Lt: ast.GtE, ast.GtE: ast.Lt, ast.Eq: ast.NotEq, ast.NotEq: ast.Eq,
        ast.Is: ast.IsNot, ast.IsNot: ast.Is, ast.In: ast.NotIn, ast.NotIn: ast.In}
_NAME = {ast.Gt: ">", ast.GtE: ">=", ast.Eq: "==", ast.NotEq: "!=", ast.Is: "is", ast.IsNot: "isnot", ast.In: "in", ast.NotIn: "notin"}
MAX_DEPTH = 3


def _own(fnode):
    """Nodes of a function without those of nested functions / lambdas / classes."""
    stack = list(ast.iter_child_nodes(fnode))
    while stack:
        n = stack.pop()
        yield n
        if not isinstance(n, (ast.FunctionDef, ast.AsyncFunctionDef, ast.Lambda, ast.ClassDef)):
            stack.extend(ast.iter_child_nodes(n))


def _stores(fnode):
    """{name: [store nodes]} of a function (assignments, loop / with / except targets, walrus, imports are ignored)."""
    out = {}
    if fnode is None:
        return out
    for n in _own(fnode):
        if isinstance(n, ast.Name) and isinstance(n.ctx, (ast.Store, ast.Del)):
            out.setdefault(n.id, []).append(n)
    return out


def _pure_chain(e):
    """Name / attribute chain / constant, or `len()` of one: an expression that can be re-read without effect."""
    if isinstance(e, ast.Call) and isinstance(e.func, ast.Name) and e.func.id == "len" and len(e.args) == 1 and not e.keywords:
        e = e.args[0]
    while isinstance(e, ast.Attribute):
        e = e.value
    return isinstance(e, (ast.Name, ast.Constant))


def _base(e):
    if isinstance(e, ast.Call) and e.args:
        e = e.args[0]
    while isinstance(e, ast.Attribute):
        e = e.value
    return e.id if isinstance(e, ast.Name) else None


def resolve_alias(e, fnode, depth=0):
    """A local name with exactly one binding `name = <pure chain>` whose base is not re-bound between that binding and the use
    is read as the chain it aliases (`size = info.file_size`; `limit = _config.max_memory_size` hoisted out of the loop)."""
    if fnode is None or depth > 2 or not isinstance(e, ast.Name):
        return e
    stores = _stores(fnode)
    if len(stores.get(e.id, ())) != 1:
        return e
    for n in _own(fnode):
        if isinstance(n, ast.Assign) and len(n.targets) == 1 and n.targets[0] is stores[e.id][0] and _pure_chain(n.value):
            b = _base(n.value)
            if b is not None:
                lo, hi = n.lineno, getattr(e, "lineno", n.lineno)
                if any(lo < s.lineno <= hi for s in stores.get(b, ())):
                    return e
            return resolve_alias(n.value, fnode, depth + 1) if isinstance(n.value, ast.Name) else n.value
    return e


def _src(e, fnode):
    e2 = _Resolve(fnode).visit(copy.deepcopy(e)) if fnode is not None else e
    return ast.unparse(e2)


class _Resolve(ast.NodeTransformer):
    def __init__(self, fnode):
        self.fnode = fnode

    def visit_Name(self, n):
        if isinstance(n.ctx, ast.Load):
            r = resolve_alias(n, self.fnode)
            if r is not n:
                return copy.deepcopy(r)
        return n


class _Subst(ast.NodeTransformer):
    def __init__(self, env):
        self.env = env

    def visit_Name(self, n):
        if isinstance(n.ctx, ast.Load) and n.id in self.env:
            return copy.deepcopy(self.env[n.id])
        return n


def _cmp_atom(op, left, right, truth, fnode):
    if not truth:
        op = _NEG[op]
    if op is ast.Lt:
        op, left, right = ast.Gt, right, left
    elif op is ast.LtE:
        op, left, right = ast.GtE, right, left
    return ("cmp", _NAME[op], _src(left, fnode), _src(right, fnode))


def predicate_paths(fnode):
    """[(conds, ret)] for a helper whose body is a decision tree: conds = [(test, truth)], ret = returned expression (None for
    falling off the end); None when the body does anything else (assignment of a non-alias, loop, try, ...)."""
    params = {a.arg for a in fnode.args.posonlyargs + fnode.args.args + fnode.args.kwonlyargs}
    if fnode.args.vararg or fnode.args.kwarg:
        return None
    if any(isinstance(n, ast.Name) and isinstance(n.ctx, ast.Store) and n.id in params for n in _own(fnode)):
        return None
    out = []

    def walk(stmts, conds):
        """-> the condition lists under which control falls through the end of `stmts`; None = not a decision tree."""
        live = [conds]
        for s in stmts:
            if not live:
                break
            if isinstance(s, (ast.Expr, ast.Pass, ast.Import, ast.ImportFrom, ast.Global)):
                continue        # docstring, logging, other expression statements: no binding a condition could read
            if isinstance(s, ast.Return):
                out.extend((c, s.value) for c in live)
                live = []
            elif isinstance(s, ast.Raise):
                live = []
            elif isinstance(s, ast.Assign) and len(s.targets) == 1 and isinstance(s.targets[0], ast.Name) and _pure_chain(s.value):
                continue        # alias of a pure chain: read through resolve_alias
            elif isinstance(s, ast.If):
                nxt = []
                for c in live:
                    a_ = walk(s.body, c + [(s.test, True)])
                    b_ = walk(s.orelse, c + [(s.test, False)])
                    if a_ is None or b_ is None:
                        return None
                    nxt += a_ + b_
                live = nxt
                if len(live) + len(out) > 64:
                    return None
            else:
                return None
        return live

    rest = walk(fnode.body, [])
    if rest is None:
        return None
    out.extend((c, None) for c in rest)      # falling off the end returns None
    return out


def _truthiness(e):
    """True / False for an expression with constant truth value, else None."""
    if e is None:
        return False
    if isinstance(e, ast.Constant):
        return bool(e.value)
    return None


def implied(test, branch, module=None, fnode=None, depth=0):
    """-> set of atoms that hold when `test` (an expression of `fnode` in `module`) evaluates to a value of truthiness `branch`."""
    if isinstance(test, ast.UnaryOp) and isinstance(test.op, ast.Not):
        return implied(test.operand, not branch, module, fnode, depth)
    if isinstance(test, ast.BoolOp):
        conj = isinstance(test.op, ast.And)
        if conj == branch:       # `a and b` true / `a or b` false: every operand has that truth value
            out = set()
            for v in test.values:
                out |= implied(v, branch, module, fnode, depth)
            return out
        if len(test.values) == 1:
            return implied(test.values[0], branch, module, fnode, depth)
        common = None            # `a and b` false / `a or b` true: what every operand implies with that value
        for v in test.values:
            s = implied(v, branch, module, fnode, depth)
            common = s if common is None else (common & s)
        return common or set()
    if isinstance(test, ast.Compare) and len(test.ops) == 1 and type(test.ops[0]) in _NEG:
        return {_cmp_atom(type(test.ops[0]), test.left, test.comparators[0], branch, fnode)}
    if isinstance(test, ast.Compare) and len(test.ops) > 1 and branch:     # a < b <= c  true: every link holds
        out, left = set(), test.left
        for op, right in zip(test.ops, test.comparators):
            if type(op) in _NEG:
                out.add(_cmp_atom(type(op), left, right, True, fnode))
            left = right
        return out
    if isinstance(test, ast.NamedExpr):
        return implied(test.value, branch, module, fnode, depth)
    if isinstance(test, ast.Name) and fnode is not None:
        # a flag bound once from a condition: `too_big = info.file_size > limit` ... `if too_big:`
        stores = _stores(fnode).get(test.id, ())
        if len(stores) == 1:
            for n in _own(fnode):
                if isinstance(n, ast.Assign) and len(n.targets) == 1 and n.targets[0] is stores[0] \
                        and isinstance(n.value, (ast.Compare, ast.BoolOp, ast.UnaryOp, ast.Call)) and depth < MAX_DEPTH:
                    names = {x.id for x in ast.walk(n.value) if isinstance(x, ast.Name)}
                    st_all = _stores(fnode)
                    if not any(n.lineno < s.lineno <= getattr(test, "lineno", n.lineno) for nm in names for s in st_all.get(nm, ())):
                        return implied(n.value, branch, module, fnode, depth + 1) | {("truth", test.id, branch)}
    if isinstance(test, ast.Call) and module is not None and depth < MAX_DEPTH:
        f = None
        if isinstance(test.func, ast.Name):
            f = module.functions.get(test.func.id)
        elif isinstance(test.func, ast.Attribute) and isinstance(test.func.value, ast.Name) and test.func.value.id in ("self", "cls") and fnode is not None:
            for q, n in module.functions.items():          # method of the same class
                if n is fnode and "." in q:
                    f = module.functions.get(q.rsplit(".", 1)[0] + "." + test.func.attr)
        if f is not None and not any(isinstance(x, (ast.Yield, ast.YieldFrom, ast.Await)) for x in _own(f)):
            got = _through_helper(test, f, branch, module, fnode, depth)
            if got is not None:
                return got | {("truth", _src(test, fnode), branch)}
    return {("truth", _src(test, fnode), branch)}


def _through_helper(call, f, branch, module, fnode, depth):
    paths = predicate_paths(f)
    if paths is None:
        return None
    params = [a.arg for a in f.args.posonlyargs + f.args.args]
    if params and params[0] in ("self", "cls") and isinstance(call.func, ast.Attribute):
        params = params[1:]
    if any(isinstance(a, ast.Starred) for a in call.args) or any(k.arg is None for k in call.keywords) or len(call.args) > len(params):
        return None
    env = {}
    for p, a in zip(params, call.args):
        env[p] = a
    for k in call.keywords:
        env[k.arg] = k.value
    # arguments are re-read where the parameter is used: they must be effect-free expressions
    for p, a in list(env.items()):
        a2 = resolve_alias(a, fnode) if isinstance(a, ast.Name) else a
        if not (_pure_chain(a2) or (isinstance(a2, ast.Call) and isinstance(a2.func, ast.Name) and a2.func.id == "len"
                                    and len(a2.args) == 1 and _pure_chain(a2.args[0]))):
            env[p] = ast.Name(id=f"<arg {p} of {f.name}>", ctx=ast.Load())
        else:
            env[p] = a2
    sub = _Subst(env)
    common = None
    for conds, ret in paths:
        tv = _truthiness(ret)
        if tv is not None and tv != branch:
            continue
        facts = set()
        for (t, b) in conds:
            t2 = sub.visit(_Resolve(f).visit(copy.deepcopy(t)))
            facts |= implied(t2, b, module, None, depth + 1)
        if tv is None:
            r2 = sub.visit(_Resolve(f).visit(copy.deepcopy(ret)))
            facts |= implied(r2, branch, module, None, depth + 1)
        common = facts if common is None else (common & facts)
    return common if common is not None else set()


# ------------------------------------------------------------------ readers --
def upper_bounded(atoms, limits):
    """Source texts X with a fact `X <= L` or `X < L` for a limit expression L in `limits`."""
    return {a[3] for a in atoms if a[0] == "cmp" and a[1] in (">", ">=") and a[2] in limits}


def truths(atoms, value=True):
    return {a[1] for a in atoms if a[0] == "truth" and a[2] is value}


# ------------------------------------------------------- filtered local lists --
def _elt_names(t):
    """Element pattern of a loop target / appended value: [name or None per position] (a bare name is a 1-pattern)."""
    if isinstance(t, ast.Name):
        return [t.id]
    if isinstance(t, (ast.Tuple, ast.List)):
        return [e.id if isinstance(e, ast.Name) else None for e in t.elts]
    return None


def carried_facts(fnode, facts_of_cond, MustFactsCls):
    """Facts that reach a loop through a *filtered local list*: `L = []` ... `L.append((X, ..))` only at sites where a fact about X
    holds ... `for (V, ..) in L:` -- or `L = [(X, ..) for .. in .. if cond]` -- gives the same fact about V inside the loop.

    facts_of_cond(test, branch) -> [(fact_kind, name)]   (the caller's gen_cond).
    -> {id(for_node): frozenset((fact_kind, V))}.  L must be a local that is only assigned once, appended to, iterated, measured
    (`len`, truthiness) or passed on as a whole; anything else (extend, insert, item assignment, +=) gives nothing."""
    parent = {}
    for n in _own(fnode):
        for c in ast.iter_child_nodes(n):
            parent[id(c)] = n
    for c in ast.iter_child_nodes(fnode):
        parent[id(c)] = fnode
    stores = _stores(fnode)
    lists = {}       # L -> [(pattern, facts at the producing site)]
    for name, sts in stores.items():
        if len(sts) != 1:
            continue
        asg = parent.get(id(sts[0]))
        if not (isinstance(asg, (ast.Assign, ast.AnnAssign)) and getattr(asg, "value", None) is not None):
            continue
        v = asg.value
        producers, ok = [], True
        if isinstance(v, ast.ListComp):
            pat = _elt_names(v.elt)
            if pat is None:
                continue
            held = set()
            for g in v.generators:
                for cond in g.ifs:
                    held |= set(facts_of_cond(cond, True))
            producers.append((pat, held))
        elif not (isinstance(v, ast.List) and not v.elts or isinstance(v, ast.Call) and isinstance(v.func, ast.Name) and v.func.id == "list" and not v.args):
            continue
        appends = []
        for n in _own(fnode):
            if isinstance(n, ast.Name) and n.id == name and isinstance(n.ctx, ast.Load):
                p = parent.get(id(n))
                if isinstance(p, ast.Attribute) and p.value is n:
                    call = parent.get(id(p))
                    if p.attr == "append" and isinstance(call, ast.Call) and call.func is p and len(call.args) == 1:
                        appends.append(call)
                    elif p.attr in ("copy", "count", "index", "__len__"):
                        pass
                    else:
                        ok = False
                elif isinstance(p, ast.Subscript) and isinstance(p.ctx, (ast.Store, ast.Del)):
                    ok = False
                elif isinstance(p, ast.AugAssign):
                    ok = False
        if not ok:
            continue
        if appends:
            wanted = {}
            for call in appends:
                pat = _elt_names(call.args[0])
                if pat is None:
                    ok = False
                    break
                wanted[id(call)] = pat
            if not ok:
                continue
            # which facts hold at each append site (one must-fact run; a fact is recorded when it holds for a name of the pattern)
            found = {}

            class _Probe(MustFactsCls):
                def _expr(self, e, facts):
                    if e is not None:
                        for c in ast.walk(e):
                            if id(c) in wanted:
                                found[id(c)] = set(facts)
                    return super()._expr(e, facts)
            pr = _Probe(gen_cond=facts_of_cond, kill_names=lambda fact: [fact[1]])
            pr.run(fnode)
            for call in appends:
                if id(call) not in found:
                    ok = False
                    break
                producers.append((wanted[id(call)], found[id(call)]))
            if not ok:
                continue
        if producers:
            lists[name] = producers
    out = {}
    for n in _own(fnode):
        if isinstance(n, (ast.For, ast.AsyncFor)) and isinstance(n.iter, ast.Name) and n.iter.id in lists:
            tpat = _elt_names(n.target)
            if tpat is None:
                continue
            common = None
            for (pat, held) in lists[n.iter.id]:
                if len(pat) != len(tpat):
                    common = set()
                    break
                here = set()
                for (kind, nm) in held:
                    for k, x in enumerate(pat):
                        if x == nm and tpat[k] is not None:
                            here.add((kind, tpat[k]))
                common = here if common is None else (common & here)
            if common:
                out[id(n)] = frozenset(common)
    return out


def carrying(MustFactsCls, carried):
    """MustFacts subclass whose `for` rule adds the carried facts (see carried_facts) to the loop body's entry facts."""
    class _Carrying(MustFactsCls):
        def stmt(self, s, facts):
            extra = carried.get(id(s)) if isinstance(s, (ast.For, ast.AsyncFor)) else None
            if not extra:
                return super().stmt(s, facts)
            facts = self._expr(s.iter, facts)
            inner = self._kill(facts, [s.target]) | extra
            self.block(s.body, inner)
            out = self._kill_assigned(facts, s.body)
            out = self._kill(out, [s.target])
            if s.orelse:
                out = self.block(s.orelse, out)
            return out
    return _Carrying
