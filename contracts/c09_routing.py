"""C09 round 6 -- "nested archives never produce results" depends on two modules agreeing about what an archive name is.

`_should_skip_file` rejects a nested archive by a SUFFIX test on the lower-cased base name; which extractor a selected member goes to
is decided by the ROUTER (`get_extractor(basename)`: compound suffix, `os.path.splitext` extension + aliases, MIME fallback).  Two
obligations tie them together:

* `C09/router.py/conformance#names-are-routed-as-specified`: the four router functions meet the routing specification of pack C07
  (contracts of `contracts/C07.py`, executed here on the tree under check with C07's executor) -- a router that starts to normalise names
  differently (strip trailing dots / blanks, URL decoration, ...) no longer meets it; not proved = `unknown`, the native replayer decides
  (skip-rule corpus with decorated nested-archive names in every format).
* `C09/archive_extractor.py::_should_skip_file/lemma#names-routed-to-the-archive-reader-are-skipped`: over that specification and the
  verified specification of the skip rule, every base name that is selected is routed to an extractor other than the archive reader
  (solver; the MIME database is uninterpreted, `os.path.splitext` by its axioms).
"""
import z3

from pyvc import loader
from pyvc.flow import ground_obligation

ROUTER = "sharepoint2text/parsing/router.py"
ARCH = "sharepoint2text/parsing/extractors/archive_extractor.py"
CONFORM_OID = "C09/router.py/conformance#names-are-routed-as-specified"
LEMMA_OID = "C09/archive_extractor.py::_should_skip_file/lemma#names-routed-to-the-archive-reader-are-skipped"
ALIAS_FINDING = "C09-nested-archive-aliases-are-dispatched"
ROUTER_FNS = ("_file_type_from_extension", "_get_extractor", "is_supported_file", "get_extractor")


def _unknown(oid, why, loc, first=()):
    o = ground_obligation(oid, False, why[:500], loc, definite=False)
    o["replay_hint"] = {"first": list(first)}
    return o


def conformance(repo, tier):
    from pyvc import verify
    from pyvc.contracts import Registry
    from pyvc.exctypes import Universe
    from contracts import C07
    reg = Registry()
    cs = C07.contracts(reg)
    for c in cs:
        reg.add(c)
    by = {c.target: c for c in cs}
    notes, fns, n = [], [], 0
    for q in ROUTER_FNS:
        c = by.get(f"{ROUTER}::{q}")
        if c is None or c.assumed:
            notes.append(f"{q}: no routing contract")
            continue
        rep = verify.run_contract("C09", c, reg, Universe(repo or loader.REPO), repo=repo, timeout_ms=60000 if tier == "thorough" else None,
                                  executor_cls=C07.EXECUTOR, executor_kw=getattr(C07, "EXECUTOR_KW", {}).get(c.target))
        if rep.error or rep.out_of_subset:
            notes.append(f"{q}: {(rep.error or rep.out_of_subset)[:160]}")
            continue
        if rep.info:
            fns.append(dict(rep.info, obligations=len(rep.obligations)))
        for o in rep.obligations:
            n += 1
            if o["status"] != "proved":
                notes.append(f"{o['id'].split('::')[-1]}: {o['status']}")
    ok = not notes and n >= len(ROUTER_FNS)
    if ok:
        o = ground_obligation(CONFORM_OID, True, f"{n} obligations of {len(ROUTER_FNS)} router functions proved against the routing specification", ROUTER)
        o["backends"] = {"z3": n}
        o["vcs"] = n
        return {"obligations": [o], "functions": fns}
    return {"obligations": [_unknown(CONFORM_OID, "; ".join(notes) or "no obligation generated (vacuity)", ROUTER, first=("skip-rules",))], "functions": fns}


def archive_types(repo):
    """registry keys whose extractor lives in the archive extractor module (read off the registry, not a name list)"""
    from contracts import C07
    reg = C07.tables(repo)[0]
    mod = "sharepoint2text.parsing.extractors.archive_extractor"
    return sorted(k for k, v in reg.items() if isinstance(v, (tuple, list)) and len(v) == 2 and v[0] == mod)


def lemma(repo, tier):
    from pyvc import solve
    from contracts import C07
    arch = archive_types(repo)
    if not arch:
        return {"obligations": [_unknown(LEMMA_OID, "no registry entry points to the archive extractor (vacuity)", ARCH)]}
    f, b = z3.String("f!c09r"), z3.String("b!c09r")
    p = C07.LOWER(b)
    is_none, val = C07.ft_spec(p, repo)
    routed = z3.If(z3.Not(is_none), val, C07.mime_ft(p, repo))           # the registry key get_extractor(b) looks up (when b is supported)
    to_archive = z3.Or([routed == z3.StringVal(k) for k in arch])
    goal = z3.Implies(z3.Not(C07.skip_term(f, b, repo)), z3.Not(to_archive))
    r = solve.check_vc([C07.splitext_axioms(p)], goal, 60000 if tier == "thorough" else None, want_model=True)
    o = {"id": LEMMA_OID, "kind": "lemma", "status": r.status, "vcs": 1, "seconds": round(r.seconds, 4), "backends": {r.backend: 1},
         "witness": (str(r.model)[:400] if r.model is not None else None), "reason": r.reason or "", "loc": "spec", "function": f"{ARCH}::_should_skip_file"}
    if r.status != "proved":
        o["reason"] = (o["reason"] + f"; a selected base name may be routed to the archive reader (archive registry keys: {', '.join(arch)}; aliases and "
                       "MIME types that map to them are not nested-archive suffixes)").strip("; ")
    return {"obligations": [o]}


def guarded(fn, oid, loc):
    def run(repo, tier):
        try:
            return fn(repo, tier)
        except Exception as e:  # noqa  pack code on a changed tree: an unrecognised shape is `unknown`, never a crash
            return {"obligations": [_unknown(oid, f"routing analysis does not cover this shape ({type(e).__name__}: {e})", loc, first=("skip-rules",))]}
    run.__name__ = fn.__name__
    return run


routing_conformance = guarded(conformance, CONFORM_OID, ROUTER)
routing_lemma = guarded(lemma, LEMMA_OID, ARCH)
routing_conformance.__name__ = "routing_conformance"
routing_lemma.__name__ = "routing_lemma"
