"""C05 lemmas by manual induction schema over the value universe (one VC per constructor, induction
hypothesis on the components).  Every hypothesis that is not an induction hypothesis is an *instance of a
lemma proved in this same list* (or an assumed library axiom, listed)."""
import z3

from contracts.c05spec import *  # noqa

T, F = z3.BoolVal(True), z3.BoolVal(False)
PFX = "C05/serialization.py::spec/lemma#"

x, y = z3.Const("x!v", V), z3.Const("y!v", V)
xl = z3.Const("x!l", VL)
xk, jk = z3.Const("x!k", KV), z3.Const("j!k", KV)
st, k0, cn = z3.String("st!"), z3.String("k0!"), z3.String("cn!")
bn = z3.Const("bn!", Bin)
ii, rr, bb, b = z3.Int("ii!"), z3.Real("rr!"), z3.Bool("bb!"), z3.Bool("b!")
h, hx = z3.Const("h!", H), z3.Const("hx!", H)

_p = z3.Const("p", Bin)
_q = z3.Const("q", V)
AXIOMS = [z3.ForAll([_p], UNB64(B64(_p)) == _p, patterns=[B64(_p)]),                 # ASSUMED: base64 decode(encode(x)) == x
          z3.ForAll([_q], z3.Implies(V.is_Str(_q), STROF(_q) == V.s(_q)), patterns=[STROF(_q)])]

LEAVES = [("None", V.Non), ("Bool", V.Bool(bb)), ("Int", V.Int(ii)), ("Float", V.Float(rr)), ("Str", V.Str(st)),
          ("Bytes", V.Bytes(bn)), ("BytesIO", V.BytesIO(bn)), ("Other", V.Other(ii))]
SEQS = [("List", V.List(xl)), ("Tuple", V.Tuple(xl)), ("Set", V.Set(xl))]


def schema(name, P, PL, PK, extra=None, dc_extra=None, kcons_extra=None, hyps=()):
    """Structural induction: P on values, PL on lists, PK on mappings/field lists."""
    out = []
    base = list(hyps)
    for n, t in LEAVES:
        out.append((f"{PFX}{name}.{n}", base, P(t)))
    for n, t in SEQS:
        out.append((f"{PFX}{name}.{n}", base + [PL(xl)] + (extra(t) if extra else []), P(t)))
    out.append((f"{PFX}{name}.Dict", base + [PK(xk)] + (extra(V.Dict(xk)) if extra else []), P(V.Dict(xk))))
    out.append((f"{PFX}{name}.DC", base + [PK(xk)] + (dc_extra(V.DC(cn, xk)) if dc_extra else []), P(V.DC(cn, xk))))
    out.append((f"{PFX}{name}.nil", base, PL(VL.nil)))
    out.append((f"{PFX}{name}.cons", base + [P(x), PL(xl)], PL(VL.cons(x, xl))))
    out.append((f"{PFX}{name}.knil", base, PK(KV.knil)))
    out.append((f"{PFX}{name}.kcons", base + [P(x), PK(xk)] + (kcons_extra(KV.kcons(st, x, xk)) if kcons_extra else []), PK(KV.kcons(st, x, xk))))
    return out


# ---- L1: everything well-formed serialises to a JSON value (both binary modes)
def L_json():
    return schema("json-serialisable",
                  lambda t: z3.Implies(WF(t), JOK(SER(t, b))),
                  lambda t: z3.Implies(WFL(t), JOKL(SERL(t, b))),
                  lambda t: z3.Implies(WFKV(t), JOKKV(SERKV(t, b))))


# ---- L2: serialising twice changes nothing (a JSON value is its own encoding)
def ID(t): return SER(SER(t, b), b) == SER(t, b)
def IDL(t): return SERL(SERL(t, b), b) == SERL(t, b)
def IDK(t): return SERKV(SERKV(t, b), b) == SERKV(t, b)


def L_idem():
    return schema("encoding-idempotent", ID, IDL, IDK)


# ---- L3: keys survive serialisation
def HK(t, s): return HASKEY(SERKV(t, b), s) == HASKEY(t, s)


def L_keys():
    return [(f"{PFX}keys-preserved.knil", [], HK(KV.knil, k0)),
            (f"{PFX}keys-preserved.kcons", [HK(xk, k0)], HK(KV.kcons(st, x, xk), k0))]


# ---- L4: binary exclusion nulls exactly the binary leaves
def L_binary():
    return schema("binary-excluded-nulls-exactly-binary",
                  lambda t: z3.And(SER(t, F) == SER(BINFREE(t), T), SER(t, F) == SER(BINFREE(t), F)),
                  lambda t: z3.And(SERL(t, F) == SERL(BINFREEL(t), T), SERL(t, F) == SERL(BINFREEL(t), F)),
                  lambda t: z3.And(SERKV(t, F) == SERKV(BINFREEKV(t), T), SERKV(t, F) == SERKV(BINFREEKV(t), F)))


# ---- L5: a dict looked up under its own encoding
def B1(s, j, k, yv): return z3.Implies(z3.And(z3.Not(HASKEY(s, k)), AGREE(s, j)), AGREE(s, KV.kcons(k, yv, j)))
def B2(s): return z3.Implies(DISTINCT(s), AGREE(s, SERKV(s, T)))


def L_agree():
    return [(f"{PFX}lookup-skips-other-key.knil", [], B1(KV.knil, jk, k0, y)),
            (f"{PFX}lookup-skips-other-key.kcons", [B1(xk, jk, k0, y)], B1(KV.kcons(st, x, xk), jk, k0, y)),
            (f"{PFX}lookup-own-encoding.knil", [], B2(KV.knil)),
            (f"{PFX}lookup-own-encoding.kcons", [B2(xk), B1(xk, SERKV(xk, T), st, SER(x, T))], B2(KV.kcons(st, x, xk)))]


# ---- L6: round trip.  excl: None (unrestricted) or NOMARK (known finding F6 excluded)
def RTc(t, hh, prem):
    d = DESER(SER(t, T), hh)
    return z3.Implies(prem, z3.And(SER(d, T) == SER(t, T), typename(d) == typename(t)))


# EXCLUDE_MARKER_KEYS is set by the pack from known_findings.json (finding F6, exclusion `has_marker_key(v)`): only then
# does the round-trip theorem carry the premise NOMARK(v).  Without the recorded finding the theorem is attempted
# unrestricted (and its Dict case fails).
EXCLUDE_MARKER_KEYS = False


def _nm(t): return NOMARK(t) if EXCLUDE_MARKER_KEYS else T
def _nml(t): return NOMARKL(t) if EXCLUDE_MARKER_KEYS else T
def _nmk(t): return NOMARKKV(t) if EXCLUDE_MARKER_KEYS else T


def RT(t, hh): return RTc(t, hh, z3.And(WF(t), _nm(t), INH(t, hh), COV(hh)))
def RTL(t, hh): return z3.Implies(z3.And(WFL(t), _nml(t), INHL(t, hh), COV(hh)), SERL(DESERL(SERL(t, T), hh), T) == SERL(t, T))
def RTK(t, hh): return z3.Implies(z3.And(WFKV(t), _nmk(t), INHKV(t, hh), COV(hh)), SERKV(DESERKV(SERKV(t, T), hh), T) == SERKV(t, T))
def RTA(s, j, c): return z3.Implies(z3.And(AGREE(s, j), WFKV(s), _nmk(s), TYPED(s, c)), SERKV(BUILD(KEYS(s), j, c), T) == SERKV(s, T))


def registry_facts():
    """Ground facts about the reflective registry that the proof uses; each is an obligation of the registry
    section (re-derived from data_types.py on every run): the fields the ImageMetadata compatibility shim
    fills in from their old names are fields of ImageMetadata."""
    im = sv("ImageMetadata")
    return [MEMS(FIELDS(im), sv(n)) for n in SHIM_FIELDS]


SHIM_FIELDS = ("unit_number", "image_number")


def KM(t, s): return HASKEY(t, s) == MEMS(KEYS(t), s)


def L_keys_members():
    return [(f"{PFX}key-iff-in-keys.knil", [], KM(KV.knil, k0)),
            (f"{PFX}key-iff-in-keys.kcons", [KM(xk, k0)], KM(KV.kcons(st, x, xk), k0))]


def COVH(hh):
    e = UNW(hh)
    return z3.Implies(COV(hh), z3.And(z3.Implies(H.is_HList(e), COV(H.larg(e))), z3.Implies(H.is_HDict(e), COV(H.dval(e))), COV(H.HAny)))


def L_cov():
    """Coverage of a hint is inherited by its element / value hint (definitions unfolded at the hint and at
    the argument of an outer Optional / union)."""
    return [(f"{PFX}hint-coverage-inherited", [defn(COV(hx)), defn(COV(H.oarg(hx))), defn(COV(H.uarg(hx)))], COVH(hx))]


# ---- L4: binary exclusion nulls exactly the binary leaves
def L_binary():
    return schema("binary-excluded-nulls-exactly-binary",
                  lambda t: z3.And(SER(t, F) == SER(BINFREE(t), T), SER(t, F) == SER(BINFREE(t), F)),
                  lambda t: z3.And(SERL(t, F) == SERL(BINFREEL(t), T), SERL(t, F) == SERL(BINFREEL(t), F)),
                  lambda t: z3.And(SERKV(t, F) == SERKV(BINFREEKV(t), T), SERKV(t, F) == SERKV(BINFREEKV(t), F)))


# ---- L5: a dict looked up under its own encoding
def B1(s, j, k, yv): return z3.Implies(z3.And(z3.Not(HASKEY(s, k)), AGREE(s, j)), AGREE(s, KV.kcons(k, yv, j)))
def B2(s): return z3.Implies(DISTINCT(s), AGREE(s, SERKV(s, T)))


def L_agree():
    return [(f"{PFX}lookup-skips-other-key.knil", [], B1(KV.knil, jk, k0, y)),
            (f"{PFX}lookup-skips-other-key.kcons", [B1(xk, jk, k0, y)], B1(KV.kcons(st, x, xk), jk, k0, y)),
            (f"{PFX}lookup-own-encoding.knil", [], B2(KV.knil)),
            (f"{PFX}lookup-own-encoding.kcons", [B2(xk), B1(xk, SERKV(xk, T), st, SER(x, T))], B2(KV.kcons(st, x, xk)))]


# ---- L6: round trip.  excl: None (unrestricted) or NOMARK (known finding F6 excluded)
def RTc(t, hh, prem):
    d = DESER(SER(t, T), hh)
    return z3.Implies(prem, z3.And(SER(d, T) == SER(t, T), typename(d) == typename(t)))


# EXCLUDE_MARKER_KEYS is set by the pack from known_findings.json (finding F6, exclusion `has_marker_key(v)`): only then
# does the round-trip theorem carry the premise NOMARK(v).  Without the recorded finding the theorem is attempted
# unrestricted (and its Dict case fails).
EXCLUDE_MARKER_KEYS = False


def _nm(t): return NOMARK(t) if EXCLUDE_MARKER_KEYS else T
def _nml(t): return NOMARKL(t) if EXCLUDE_MARKER_KEYS else T
def _nmk(t): return NOMARKKV(t) if EXCLUDE_MARKER_KEYS else T


def RT(t, hh): return RTc(t, hh, z3.And(WF(t), _nm(t), INH(t, hh), COV(hh)))
def RTL(t, hh): return z3.Implies(z3.And(WFL(t), _nml(t), INHL(t, hh), COV(hh)), SERL(DESERL(SERL(t, T), hh), T) == SERL(t, T))
def RTK(t, hh): return z3.Implies(z3.And(WFKV(t), _nmk(t), INHKV(t, hh), COV(hh)), SERKV(DESERKV(SERKV(t, T), hh), T) == SERKV(t, T))
def RTA(s, j, c): return z3.Implies(z3.And(AGREE(s, j), WFKV(s), _nmk(s), TYPED(s, c)), SERKV(BUILD(KEYS(s), j, c), T) == SERKV(s, T))


def registry_facts():
    """Ground facts about the reflective registry that the proof uses; each is an obligation of the registry
    section (re-derived from data_types.py on every run): the fields the ImageMetadata compatibility shim
    fills in from their old names are fields of ImageMetadata."""
    im = sv("ImageMetadata")
    return [MEMS(FIELDS(im), sv(n)) for n in SHIM_FIELDS]


SHIM_FIELDS = ("unit_number", "image_number")


def KM(t, s): return HASKEY(t, s) == MEMS(KEYS(t), s)


def L_keys_members():
    return [(f"{PFX}key-iff-in-keys.knil", [], KM(KV.knil, k0)),
            (f"{PFX}key-iff-in-keys.kcons", [KM(xk, k0)], KM(KV.kcons(st, x, xk), k0))]


def COVH(hh):
    e = UNW(hh)
    return z3.Implies(COV(hh), z3.And(z3.Implies(H.is_HList(e), COV(H.larg(e))), z3.Implies(H.is_HDict(e), COV(H.dval(e))), COV(H.HAny)))


def L_cov():
    """Coverage of a hint is inherited by its element / value hint (definitions unfolded at the hint and at
    the argument of an outer Optional / union)."""
    return [(f"{PFX}hint-coverage-inherited", [defn(COV(hx)), defn(COV(H.oarg(hx))), defn(COV(H.uarg(hx)))], COVH(hx))]


def _matches(hh, shape):
    """hh has the outer constructor structure of `shape` (two levels)."""
    d = shape.decl()
    rec = getattr(H, "is_" + d.name())
    c = [rec(hh)]
    if d.name() in ("HOpt", "H604"):
        acc = H.oarg if d.name() == "HOpt" else H.uarg
        sub = shape.arg(0)
        if z3.is_app(sub) and sub.decl().kind() == z3.Z3_OP_DT_CONSTRUCTOR:
            c.append(getattr(H, "is_" + sub.decl().name())(acc(hh)))
    return z3.And(c)


def L_roundtrip():
    out = []
    ax = AXIOMS
    ax = AXIOMS + [COVH(h)]
    eh = z3.If(H.is_HList(UNW(h)), H.larg(UNW(h)), H.HAny)
    dh = z3.If(H.is_HDict(UNW(h)), H.dval(UNW(h)), H.HAny)
    name = "roundtrip"
    for n, t in LEAVES:
        out.append((f"{PFX}{name}.{n}", ax, RT(t, h)))
    bT = [(b == T)]
    for n, t in SEQS:
        out.append((f"{PFX}{name}.{n}", ax + bT + [RTL(xl, eh), IDL(xl)], RT(t, h)))
    out.append((f"{PFX}{name}.Dict", ax + bT + [RTK(xk, dh), IDK(xk)] + [z3.substitute(HK(xk, k0), (k0, sv(m))) for m in MARKERS], RT(V.Dict(xk), h)))
    ents = KV.kcons(sv("_type"), V.Str(cn), SERKV(xk, T))
    out.append((f"{PFX}{name}.DC", ax + bT + registry_facts() + [z3.substitute(HK(xk, k0), (k0, sv(m))) for m in MARKERS + SHIM_FIELDS] +
                [KM(xk, sv(m)) for m in SHIM_FIELDS] + [B2(xk), B1(xk, SERKV(xk, T), sv("_type"), V.Str(cn)), RTA(xk, ents, cn)], RT(V.DC(cn, xk), h)))
    out.append((f"{PFX}{name}.nil", ax, RTL(VL.nil, h)))
    out.append((f"{PFX}{name}.cons", ax + [RT(x, h), RTL(xl, h)], RTL(VL.cons(x, xl), h)))
    out.append((f"{PFX}{name}.knil", ax, RTK(KV.knil, h)))
    out.append((f"{PFX}{name}.kcons", ax + [RT(x, h), RTK(xk, h)], RTK(KV.kcons(st, x, xk), h)))
    # the constructor call rebuilds every declared field from the encoding (mutual with RT on the field values)
    out.append((f"{PFX}{name}.fields-nil", ax, RTA(KV.knil, jk, cn)))
    out.append((f"{PFX}{name}.fields-cons", ax + [RT(x, FH(cn, st)), RTA(xk, jk, cn)], RTA(KV.kcons(st, x, xk), jk, cn)))
    return out


def L_marker_collision():
    """The same round trip for a one-entry mapping of a scalar, WITHOUT excluding marker keys: fails (F6)."""
    t = V.Dict(one(st, x))
    prem = z3.And(scalar_ok(x), COV(h), INH(t, h))
    return [(f"{PFX}roundtrip-any-key.Dict", AXIOMS, RTc(t, h, prem))]


# ---- L7: list lemmas used by the loop over dataclass fields (insertion-ordered dict stores)
rk = z3.Const("r!k", KV)


def DS(e, k, xv): return z3.Implies(z3.Not(HASKEY(e, k)), DSET(e, k, xv) == APP(e, KV.kcons(k, xv, KV.knil)))
def MA(d, r): return SERKV(APP(d, r), b) == APP(SERKV(d, b), SERKV(r, b))
def HA(a, r, k): return HASKEY(APP(a, r), k) == z3.Or(HASKEY(a, k), HASKEY(r, k))
def DA(a, k, xv, r): return z3.Implies(DISTINCT(APP(a, KV.kcons(k, xv, r))), z3.Not(HASKEY(a, k)))
def SA(a, k, xv, r): return z3.Implies(SEROKKV(APP(a, KV.kcons(k, xv, r))), SEROK(xv))
def ME(l, e): return z3.Implies(z3.And(MEMV(l, e), SEROKL(l)), SEROK(e))
def MK(kv, k, e): return z3.Implies(z3.And(MEMKV(kv, k, e), SEROKKV(kv)), SEROK(e))


def L_lists():
    c = KV.kcons(st, x, xk)
    return [(f"{PFX}store-absent-key-appends.knil", [], DS(KV.knil, k0, y)),
            (f"{PFX}store-absent-key-appends.kcons", [DS(xk, k0, y)], DS(c, k0, y)),
            (f"{PFX}map-append.knil", [], MA(KV.knil, rk)),
            (f"{PFX}map-append.kcons", [MA(xk, rk)], MA(c, rk)),
            (f"{PFX}key-of-append.knil", [], HA(KV.knil, rk, k0)),
            (f"{PFX}key-of-append.kcons", [HA(xk, rk, k0)], HA(c, rk, k0)),
            (f"{PFX}distinct-append.knil", [], DA(KV.knil, k0, y, rk)),
            (f"{PFX}distinct-append.kcons", [DA(xk, k0, y, rk), HA(xk, KV.kcons(k0, y, rk), st)], DA(c, k0, y, rk)),
            (f"{PFX}encodable-append.knil", [], SA(KV.knil, k0, y, rk)),
            (f"{PFX}encodable-append.kcons", [SA(xk, k0, y, rk)], SA(c, k0, y, rk)),
            (f"{PFX}encodable-member.nil", [], ME(VL.nil, y)),
            (f"{PFX}encodable-member.cons", [ME(xl, y)], ME(VL.cons(x, xl), y)),
            (f"{PFX}encodable-entry.knil", [], MK(KV.knil, k0, y)),
            (f"{PFX}encodable-entry.kcons", [MK(xk, k0, y)], MK(c, k0, y))]


# ---- L8: the dataclass constructor applied to the keyword map built by the field loop == BUILD over the data
nl = z3.Const("n!l", SL)
hasA, valA, seenA = z3.Const("has!a", z3.ArraySort(S, B)), z3.Const("val!a", z3.ArraySort(S, V)), z3.Const("seen!a", z3.ArraySort(S, B))


def _kwinv(seen, has, val, j, c):
    q = z3.String("q!kw")
    return z3.ForAll([q], z3.And(z3.Select(has, q) == z3.And(z3.Select(seen, q), HASKEY(j, q)),
                                 z3.Implies(z3.Select(has, q), z3.Select(val, q) == DESER(GET(j, q), FH(c, q)))),
                     patterns=[z3.Select(has, q)])


def _allseen(seen, c):
    q = z3.String("q!seen")
    return z3.ForAll([q], z3.Select(seen, q) == MEMS(FIELDS(c), q), patterns=[z3.Select(seen, q)])


def _sub(n, c):
    q = z3.String("q!sub")
    return z3.ForAll([q], z3.Implies(norm(MEMS(n, q)), MEMS(FIELDS(c), q)))


def BM(n, seen, has, val, j, c):
    return z3.Implies(z3.And(_kwinv(seen, has, val, j, c), _allseen(seen, c), _sub(n, c)), BUILDM(n, has, val, c) == BUILD(n, j, c))


def BM_all(seen, has, val, j, c):
    return z3.Implies(z3.And(_kwinv(seen, has, val, j, c), _allseen(seen, c)), BUILDM(FIELDS(c), has, val, c) == BUILD(FIELDS(c), j, c))


def L_build():
    return [(f"{PFX}constructor-from-keywords.snil", [], BM(SL.snil, seenA, hasA, valA, jk, cn)),
            (f"{PFX}constructor-from-keywords.scons", [BM(nl, seenA, hasA, valA, jk, cn)], BM(SL.scons(st, nl), seenA, hasA, valA, jk, cn)),
            (f"{PFX}constructor-from-keywords.all-fields", [BM(FIELDS(cn), seenA, hasA, valA, jk, cn)], BM_all(seenA, hasA, valA, jk, cn))]


def L_wf_encodable():
    return schema("wellformed-is-encodable", lambda t: z3.Implies(WF(t), SEROK(t)), lambda t: z3.Implies(WFL(t), SEROKL(t)),
                  lambda t: z3.Implies(WFKV(t), SEROKKV(t)))


def L_toplevel():
    """The statement itself, for a registered dataclass instance x (an extraction result or a unit):
    to_json(x) is a JSON object; from_json(to_json(x)) has x's type and the same to_json; binary excluded = binary leaves nulled."""
    xv = V.DC(cn, xk)
    tj = SX(xv, T)
    back = DESERDC(V.ents(tj), NOCLS)                      # deserialize_extraction(json.loads(json.dumps(to_json)))
    prem = z3.And(WF(xv), _nm(xv), INH(xv, H.HAny))
    hk = [z3.substitute(HK(xk, k0), (k0, sv(m)), (b, T)) for m in MARKERS]
    hkb = [z3.substitute(HK(xk, k0), (k0, sv(m))) for m in MARKERS]
    return [(f"{PFX}statement.to_json-is-a-json-object", [z3.Implies(WF(xv), JOK(SER(xv, b)))], z3.Implies(WF(xv), z3.And(V.is_Dict(SX(xv, b)), JOK(SX(xv, b))))),
            (f"{PFX}statement.from_json-restores", AXIOMS + hk + [RT(xv, H.HAny)],
             z3.Implies(prem, z3.And(SX(back, T) == tj, typename(back) == cn, z3.Not(z3.Or([HASKEY(V.ents(tj), sv(m)) for m in ("_bytes", "_bytesio")]))))),
            (f"{PFX}statement.binary-excluded", [z3.And(SER(xv, F) == SER(BINFREE(xv), T), SER(xv, F) == SER(BINFREE(xv), F))],
             z3.And(SX(xv, F) == SX(BINFREE(xv), T), SX(xv, F) == SX(BINFREE(xv), F)))]


def all_lemmas():
    ls = L_json() + L_idem() + L_keys() + L_keys_members() + L_cov() + L_binary() + L_agree() + L_roundtrip() + L_lists() + L_build() + L_wf_encodable() + L_toplevel() + L_marker_collision()
    return [(i, [norm(x_) for x_ in hy], norm(g)) for (i, hy, g) in ls]
