"""C03 -- units mirror pages / slides / sheets / chapters / messages.

Functions under contract (real source, re-read on every run):
  data_types.py: every `iterate_units` of the page/slide/sheet/chapter types
  (Pdf, Ppt, Pptx, Xls, Xlsx, Odp, Ods, Rtf, Epub) and of the single-unit types
  (Email, Plain, Html, Odg, Odf); `get_full_text` of the eleven formats whose
  full text is documented as derived from the units; `_join_unit_text`;
  construction sites (ppt `_build_slides_from_text_blocks`, `_parse_ppt_document`,
  rtf `flush_page`) by symbolic execution, the remaining construction sites and the
  heading-section iterators (doc/docx/odt) by AST dataflow obligations (EXTRA).
  Round 7, verified on their real bodies (were opaque / assumed / without contract): `PptSlideContent.text_combined`,
  `OdpSlide.text_combined`, `PptxSlide.get_text` (the unit text of ppt / odp / pptx slides, composed of title / body / other texts,
  formulas, image captions), xlsx `_is_cell_non_empty` (the predicate of the row / column trimming contracts),
  pptx `_PptxContext._load_xml_files` and the property `_PptxContext.slide_order` (the slide order read_pptx walks is the computed one).

The yielded units are observed exactly as the property says:
`u.get_metadata().unit_number` and `u.get_text()` (the real accessor methods are
executed symbolically on every yielded unit).  The content object is an abstract
instance with a list field of SYMBOLIC length; the loop invariant speaks about the
yielded prefix (see contracts/c03_exec.py).
"""
import ast

import z3

from pyvc.contracts import FnContract, LoopSpec, Raises
from pyvc.values import NONE, VBool, VExt, VInt, VRef, VSeq, VStr, VUnk, ext_sort, fresh_name
from pyvc.verify import Maker, p_bool, p_ext, p_obj, p_str
from pyvc.state import HeapObj
from pyvc import ops

from contracts import c03_exec as X
from contracts.c03_exec import AUnit, Conj, DT, I, S, B, JOIN, STRIP, K, fld, fld_at, fld_len, fun

PPT = "sharepoint2text/parsing/extractors/ms_legacy/ppt_extractor.py"
RTF = "sharepoint2text/parsing/extractors/ms_legacy/rtf_extractor.py"
NL = z3.StringVal("\n")


# --------------------------------------------------------------------------------------
# Spec, written from the property statement: for every page-like type the units are
# (position k -> (number, text)) over the underlying list.  `text` is the element's text
# function; `num` is "pos" (1-based position) or ("stored", field, invariant).
# --------------------------------------------------------------------------------------
def opaque(cls, name, *extra):
    return fun(f"{cls}.{name}()", ext_sort(cls), *extra, S)


def _f(cls, f, sort=S):
    return fld(cls, f, sort)


class Paged:
    def __init__(self, cls, field, elem, num, text, what, kwargs=()):
        self.cls, self.field, self.elem, self.num, self.text, self.what, self.kwargs = cls, field, elem, num, text, what, kwargs

    def length(self, me):
        return fld_len(self.cls, self.field)(me)

    def at(self, me, k):
        return fld_at(self.cls, self.field, ext_sort(self.elem) if self.elem != "str" else S)(me, k)

    def stored(self, me, k):
        return _f(self.elem, self.num[1], I)(self.at(me, k))

    def number(self, me, k):
        return k + 1 if self.num == "pos" else self.stored(me, k)

    def invariant(self, me):
        """Class invariant on stored numbers (established at the construction sites, part d)."""
        if self.num == "pos":
            return z3.BoolVal(True)
        k = z3.Int("k!inv")
        n = self.length(me)
        if self.num[2] == "1..n":
            return z3.ForAll([k], z3.Implies(z3.And(k >= 0, k < n), self.stored(me, k) == k + 1), patterns=[self.at(me, k)])
        return z3.ForAll([k], z3.Implies(z3.And(k >= 0, k < n),
                                         z3.And(self.stored(me, k) >= 1,
                                                z3.Implies(k + 1 < n, self.stored(me, k) < self.stored(me, k + 1)))),
                         patterns=[self.at(me, k)])

    def utext(self, me, k, kw):
        return self.text(self.at(me, k), kw)


SPEC = {p.cls: p for p in [
    Paged("PdfContent", "pages", "PdfPage", "pos", lambda e, kw: _f("PdfPage", "text")(e), "page"),
    Paged("PptContent", "slides", "PptSlideContent", ("stored", "slide_number", "1..n"),
          lambda e, kw: opaque("PptSlideContent", "text_combined")(e), "slide"),
    Paged("PptxContent", "slides", "PptxSlide", ("stored", "slide_number", "1..n"),
          lambda e, kw: STRIP(opaque("PptxSlide", "get_text", B)(e, kw["include_image_captions"])), "slide",
          kwargs=("include_image_captions",)),
    Paged("XlsContent", "sheets", "XlsSheet", "pos", lambda e, kw: STRIP(_f("XlsSheet", "text")(e)), "sheet"),
    Paged("XlsxContent", "sheets", "XlsxSheet", "pos",
          lambda e, kw: z3.Concat(_f("XlsxSheet", "name")(e), NL, STRIP(_f("XlsxSheet", "text")(e))), "sheet"),
    Paged("OdpContent", "slides", "OdpSlide", ("stored", "slide_number", "1..n"),
          lambda e, kw: opaque("OdpSlide", "text_combined")(e), "slide"),
    Paged("OdsContent", "sheets", "OdsSheet", "pos",
          lambda e, kw: STRIP(z3.Concat(_f("OdsSheet", "name")(e), NL, STRIP(_f("OdsSheet", "text")(e)))), "sheet"),
    Paged("EpubContent", "chapters", "EpubChapter", ("stored", "chapter_number", "increasing"),
          lambda e, kw: _f("EpubChapter", "text")(e), "chapter"),
    Paged("RtfContent", "pages", "str", "pos", lambda e, kw: e, "page"),
]}

# single-unit (flowing text) formats: exactly one unit, number 1, text below
SINGLE = {
    "PlainTextContent": lambda me: STRIP(_f("PlainTextContent", "content")(me)),
    "HtmlContent": lambda me: STRIP(_f("HtmlContent", "content")(me)),
    "OdgContent": lambda me: STRIP(_f("OdgContent", "full_text")(me)),
    "OdfContent": lambda me: STRIP(_f("OdfContent", "full_text")(me)),
    # e-mail: the plain body if there is one, else the html body, else empty
    "EmailContent": lambda me: z3.If(z3.Length(_f("EmailContent", "body_plain")(me)) > 0, _f("EmailContent", "body_plain")(me),
                                     z3.If(z3.Length(_f("EmailContent", "body_html")(me)) > 0, _f("EmailContent", "body_html")(me),
                                           z3.StringVal(""))),
}

# formats whose documentation derives the full text from the units (property statement)
FULLTEXT_FROM_UNITS = ["PdfContent", "PptxContent", "OdpContent", "XlsxContent", "OdsContent", "EpubContent",
                       "HtmlContent", "PlainTextContent", "EmailContent", "OdgContent", "OdfContent"]


def kw_terms(c, p: Paged):
    return {k: c.args[k].t for k in p.kwargs}


# ------------------------------------------------------------- RTF special case --
def rtf_units(me):
    """(length, number(k), text(k)) of RtfContent units: one per explicit page (1-based position);
    without explicit pages the flowing text is one unit numbered 1 (or none when there is no text)."""
    p = SPEC["RtfContent"]
    return p.length(me)


# ----------------------------------------------------------------- unit views --
def view(c):
    """(len, num(k), text(k)) of the units under discussion: the ghost yielded sequence when the
    generator itself is verified, the functional result at call sites."""
    if isinstance(c.result, VSeq):
        sq = c.result
        return sq.length, (lambda k: sq.elem(k).num), (lambda k: sq.elem(k).text)
    n, nums, txts = c.ex.y_get(c.st)
    return n, (lambda k: z3.Select(nums, k)), (lambda k: z3.Select(txts, k))


def forall_units(n, body, name="k!u"):
    k = z3.Int(name)
    return z3.ForAll([k], z3.Implies(z3.And(k >= 0, k < n), body(k)))


def paged_contract(p: Paged):
    cls = p.cls

    def me_of(c):
        return c.args["self"].t

    def at_call_site(c):
        return isinstance(c.result, VSeq)

    def e_count(c):
        if at_call_site(c):
            return z3.BoolVal(True)
        n, _num, _txt = view(c)
        return n == p.length(me_of(c))

    def e_stored(c):
        if at_call_site(c):
            return z3.BoolVal(True)
        n, num, _txt = view(c)
        me = me_of(c)
        return forall_units(n, lambda k: num(k) == p.number(me, k))

    def e_position(c):
        if at_call_site(c):
            return z3.BoolVal(True)
        n, num, _txt = view(c)
        me = me_of(c)
        if p.num != "pos" and p.num[2] == "increasing":
            body = lambda k: z3.And(num(k) >= 1, z3.Implies(k + 1 < n, num(k) < num(k + 1)))
        else:
            body = lambda k: num(k) == k + 1
        return z3.Implies(z3.And(n == p.length(me), p.invariant(me)), forall_units(n, body))

    def e_text(c):
        if at_call_site(c):
            return z3.BoolVal(True)
        n, _num, txt = view(c)
        me = me_of(c)
        kw = kw_terms(c, p)
        return forall_units(n, lambda k: txt(k) == p.utext(me, k, kw))

    def inv(lc):
        me = lc.entry.lookup("self").t
        n, nums, txts = lc.ex.y_get(lc.st)
        kw = {k: lc.entry.lookup(k).t for k in p.kwargs}
        i = lc.i
        return Conj([
            ("count", n == i),
            ("number", forall_units(i, lambda k: z3.Select(nums, k) == p.number(me, k), "k!in")),
            ("text", forall_units(i, lambda k: z3.Select(txts, k) == p.utext(me, k, kw), "k!it")),
        ])

    def result_maker(ex, st, ctx):
        me = ctx.args["self"].t
        kw = {k: ctx.args[k].t for k in p.kwargs}
        st.assume(p.length(me) >= 0)
        return VSeq(p.length(me), lambda k: AUnit(p.number(me, k), p.utext(me, k, kw)), "unit", tag=("units", cls))

    ens = [(f"one-unit-per-{p.what}", e_count),
           ("unit-number-is-the-stored-number" if p.num != "pos" else "unit-number-is-1-based-position", e_stored),
           (f"unit-text-is-the-{p.what}-text-in-order", e_text)]
    if p.num != "pos":
        ens.append(("numbers-strictly-increasing-from-1-under-class-invariant" if p.num[2] == "increasing"
                    else "unit-number-is-1-based-position-under-class-invariant", e_position))
    spec_ = LoopSpec(inv=inv, label="units")
    c_ = FnContract(
        target=f"{DT}::{cls}.iterate_units",
        params=[("self", p_ext(cls))] + [(k, p_bool()) for k in p.kwargs],
        generator=True,
        ensures=ens,
        raises=[],
        loops={},
        result_maker=result_maker,
        note=f"one unit per {p.what} of self.{p.field} (symbolic length), in order, number/text as in SPEC",
    )
    # the loop under the invariant is found by what it iterates (self.<field>, possibly through enumerate / a local alias),
    # not by its position in the source
    c_.loop_finder = lambda ex, fnode, node: with_counters(spec_, node) if isinstance(node, ast.For) and iterates(fnode, node.iter, ("self", p.field)) else None
    c_.loop_obligations = [(k_, f"units.{cj}") for k_ in ("inv-init", "inv-preserve") for cj in ("count", "number", "text")]
    return c_


def _single_def(fnode, name):
    """value expression of the only assignment to local `name` in fnode (None if not single / not simple)"""
    defs = []
    for n in ast.walk(fnode):
        if isinstance(n, ast.Assign) and len(n.targets) == 1 and isinstance(n.targets[0], ast.Name) and n.targets[0].id == name:
            defs.append(n.value)
        elif isinstance(n, ast.AnnAssign) and isinstance(n.target, ast.Name) and n.target.id == name and n.value is not None:
            defs.append(n.value)
        elif isinstance(n, (ast.AugAssign,)) and isinstance(n.target, ast.Name) and n.target.id == name:
            return None
    return defs[0] if len(defs) == 1 else None


def counters_of(node):
    """{name: step}: locals that the loop body increments by a constant exactly once per iteration (an unconditional top-level
    `x += c` / `x = x + c`, no other store to x in the body, not the loop target)"""
    out = {}
    if not isinstance(node, (ast.For, ast.While)):
        return out
    stores = {}
    for b in node.body:
        for n in ast.walk(b):
            if isinstance(n, ast.Name) and isinstance(n.ctx, ast.Store):
                stores[n.id] = stores.get(n.id, 0) + 1
    targets = {n.id for n in ast.walk(node.target) if isinstance(n, ast.Name)} if isinstance(node, ast.For) else set()
    for b in node.body:
        name, step = None, None
        if isinstance(b, ast.AugAssign) and isinstance(b.target, ast.Name) and isinstance(b.op, (ast.Add, ast.Sub)) \
                and isinstance(b.value, ast.Constant) and isinstance(b.value.value, int) and not isinstance(b.value.value, bool):
            name, step = b.target.id, (b.value.value if isinstance(b.op, ast.Add) else -b.value.value)
        elif isinstance(b, ast.Assign) and len(b.targets) == 1 and isinstance(b.targets[0], ast.Name) and isinstance(b.value, ast.BinOp) \
                and isinstance(b.value.op, ast.Add):
            x = b.targets[0].id
            l, r = b.value.left, b.value.right
            for u, v in ((l, r), (r, l)):
                if isinstance(u, ast.Name) and u.id == x and isinstance(v, ast.Constant) and isinstance(v.value, int) and not isinstance(v.value, bool):
                    name, step = x, v.value
        if name is not None and stores.get(name) == 1 and name not in targets:
            out[name] = step
    return out


def while_as_for(node):
    """`while i < len(xs): <body with exactly one unconditional i += 1, no continue>`  ->  the equivalent
    `for k in range(len(xs)): i = k; <body>` (valid when i == 0 at loop entry, which the executor checks), else None."""
    import copy
    if not isinstance(node, ast.While) or node.orelse:
        return None
    t = node.test
    if not (isinstance(t, ast.Compare) and len(t.ops) == 1 and isinstance(t.ops[0], (ast.Lt, ast.NotEq)) and isinstance(t.left, ast.Name)
            and isinstance(t.comparators[0], ast.Call) and isinstance(t.comparators[0].func, ast.Name) and t.comparators[0].func.id == "len"
            and len(t.comparators[0].args) == 1):
        return None
    i = t.left.id
    if counters_of(node).get(i) != 1:
        return None
    if any(isinstance(n, ast.Continue) for b in node.body for n in ast.walk(b)):
        return None
    k = ast.Name(f"{i}__pos", ast.Store())
    loop = ast.For(k, ast.Call(ast.Name("range", ast.Load()), [copy.deepcopy(t.comparators[0])], []),
                   [ast.Assign([ast.Name(i, ast.Store())], ast.Name(f"{i}__pos", ast.Load()))] + list(node.body), [])
    ast.copy_location(loop, node)
    ast.fix_missing_locations(loop)
    loop._c03_index = i
    return loop


def with_counters(spec, node):
    """LoopSpec whose invariant also states the induction variables of `node` (cached per node)"""
    cs = counters_of(node)
    if not cs:
        return spec
    cache = spec.__dict__.setdefault("_by_node", {})
    if id(node) in cache:
        return cache[id(node)]
    base = spec.inv

    def inv(lc, base=base, cs=cs):
        r = base(lc)
        extra = []
        for name, step in cs.items():
            cur, ent = lc.st.lookup(name), lc.entry.lookup(name)
            if isinstance(cur, VInt) and isinstance(ent, VInt) and lc.i is not None:
                extra.append((f"counter.{name}", ops.int_term(cur) == ops.int_term(ent) + step * lc.i))
        if not extra:
            return r
        if isinstance(r, Conj):
            out = type(r)(list(r) + extra, defs=r.defs) if hasattr(r, "defs") else Conj(list(r) + extra)
            return out
        return Conj([("base", r)] + extra)
    sp = LoopSpec(inv=inv, label=spec.label)
    cache[id(node)] = sp
    return sp


def iterates(fnode, expr, what, depth=0):
    """Does the iterable expression draw its elements from `what`?  what = ("self", field) | ("name", param) |
    ("text", substring of the unparsed call).  Looks through enumerate / zip / list / iter / reversed-free wrappers and local
    aliases with a single definition."""
    if depth > 4:
        return False
    if what[0] == "self" and isinstance(expr, ast.Attribute) and isinstance(expr.value, ast.Name) and expr.value.id == "self" and expr.attr == what[1]:
        return True
    if what[0] == "name" and isinstance(expr, ast.Name) and expr.id == what[1]:
        return True
    if what[0] == "text" and isinstance(expr, ast.Call) and what[1] in ast.unparse(expr) and not any(
            isinstance(a, (ast.Call, ast.Name)) and iterates(fnode, a, what, depth + 1) for a in expr.args):
        return True
    if isinstance(expr, ast.Call) and isinstance(expr.func, ast.Name) and expr.func.id in ("enumerate", "zip", "list", "tuple", "iter") and expr.args:
        return iterates(fnode, expr.args[0], what, depth + 1)
    if isinstance(expr, ast.Call) and isinstance(expr.func, ast.Name) and expr.func.id == "range" and len(expr.args) == 1 \
            and isinstance(expr.args[0], ast.Call) and isinstance(expr.args[0].func, ast.Name) and expr.args[0].func.id == "len" and expr.args[0].args:
        return iterates(fnode, expr.args[0].args[0], what, depth + 1)      # for i in range(len(xs)): the i-th iteration handles xs[i]
    if isinstance(expr, (ast.ListComp, ast.GeneratorExp)) and len(expr.generators) == 1 and not expr.generators[0].ifs:
        return iterates(fnode, expr.generators[0].iter, what, depth + 1)      # one element per source element, in order
    if isinstance(expr, ast.Name):
        d = _single_def(fnode, expr.id)
        return d is not None and iterates(fnode, d, what, depth + 1)
    return False


def rtf_contract():
    """RtfContent: with explicit pages one unit per page; otherwise the flowing text is a single unit."""
    p = SPEC["RtfContent"]
    base = paged_contract(p)
    me_of = lambda c: c.args["self"].t

    def paged_only(fn):
        def g(c):
            if isinstance(c.result, VSeq):
                return z3.BoolVal(True)
            return z3.Implies(p.length(me_of(c)) > 0, fn(c))
        return g

    def e_flowing(c):
        if isinstance(c.result, VSeq):
            return z3.BoolVal(True)
        n, num, txt = view(c)
        me = me_of(c)
        ft = _f("RtfContent", "full_text")(me)
        return z3.Implies(p.length(me) == 0,
                          z3.And(n >= 0, n <= 1, z3.Implies(n == 1, num(0) == 1),
                                 z3.Implies(z3.Length(ft) > 0, z3.And(n == 1, txt(0) == ft))))

    base.ensures = [(l, paged_only(f)) for (l, f) in base.ensures] + [("without-pages-one-unit-numbered-1", e_flowing)]
    base.result_maker = None
    return base


def single_contract(cls):
    text = SINGLE[cls]

    def e_one(c):
        if isinstance(c.result, VSeq):
            return z3.BoolVal(True)
        n, num, txt = view(c)
        return z3.And(n == 1, num(0) == 1)

    def e_text(c):
        if isinstance(c.result, VSeq):
            return z3.BoolVal(True)
        n, num, txt = view(c)
        return txt(0) == text(c.args["self"].t)

    def result_maker(ex, st, ctx):
        me = ctx.args["self"].t
        return VSeq(z3.IntVal(1), lambda k: AUnit(z3.IntVal(1), text(me)), "unit", tag=("units", cls))

    return FnContract(
        target=f"{DT}::{cls}.iterate_units",
        params=[("self", p_ext(cls))],
        generator=True,
        ensures=[("exactly-one-unit-numbered-1", e_one), ("unit-text-is-the-body-text", e_text)],
        raises=[],
        result_maker=result_maker,
        note="flowing-text format: one unit",
    )


def units_spec_seq(cls, me, kw):
    """(length, Array k |-> unit text) of the units of `cls` per SPEC/SINGLE."""
    if cls in SINGLE:
        return z3.IntVal(1), z3.Lambda([K], SINGLE[cls](me))
    p = SPEC[cls]
    return p.length(me), z3.Lambda([K], p.utext(me, K, kw))


def fulltext_contract(cls):
    p = SPEC.get(cls)
    kws = p.kwargs if p else ()

    def returns(c):
        me = c.args["self"].t
        kw = {k: c.args[k].t for k in kws}
        n, lam = units_spec_seq(cls, me, kw)
        return VStr(STRIP(JOIN(NL, lam, n)))

    return FnContract(
        target=f"{DT}::{cls}.get_full_text",
        params=[("self", p_ext(cls))] + [(k, p_bool()) for k in kws],
        returns=returns,
        raises=[],
        note="get_full_text() == strip('\\n'.join(unit texts)) over the units of iterate_units()",
    )


def p_units():
    """Arbitrary finite sequence of observed units."""
    def mk(ex, st, name):
        n = z3.Int(f"{name}.len")
        nums = z3.Const(f"{name}.num", z3.ArraySort(I, I))
        txts = z3.Const(f"{name}.txt", z3.ArraySort(I, S))
        return [(n >= 0, VSeq(n, lambda k: AUnit(z3.Select(nums, k), z3.Select(txts, k)), "unit"))]
    return Maker(mk, desc="sequence of units (symbolic length)")


def join_contract():
    def returns(c):
        sq = c.args["units"]
        if isinstance(sq, VRef):
            sq = c.st.obj(sq.ref).data
        lam = z3.Lambda([K], sq.elem(K).text)
        return VStr(STRIP(JOIN(NL, lam, sq.length)))
    return FnContract(
        target=f"{DT}::_join_unit_text",
        params=[("units", p_units())],
        returns=returns,
        raises=[],
        note="trimmed newline-join of the unit texts, in order",
    )


# ------------------------------------------------- construction sites: legacy PPT --
CUM = z3.RecFunction("cum_len", z3.ArraySort(I, I), I, I)     # CUM(lens, i) = lens[0] + ... + lens[i-1]
_a, _i = z3.Const("a!cum", z3.ArraySort(I, I)), z3.Int("i!cum")
z3.RecAddDefinition(CUM, [_a, _i], z3.If(_i <= 0, 0, CUM(_a, _i - 1) + z3.Select(_a, _i - 1)))
SLIDE_NO = fld("PptSlideContent", "slide_number", I)


def seq_of_block_seqs(name):
    """Arbitrary list[list[PptTextBlock]]: outer length n >= 0, inner lengths lens[k] >= 0."""
    n = z3.Int(f"{name}.len")
    lens = z3.Const(f"{name}.lens", z3.ArraySort(I, I))
    blk = z3.Function(f"{name}.block", I, I, ext_sort("PptTextBlock"))

    def inner(k):
        return VSeq(z3.Select(lens, k), lambda j, k=k: VExt("PptTextBlock", blk(k, j)), ("obj", "PptTextBlock"))
    kk = z3.Int("k!lens")
    ok = z3.And(n >= 0, z3.ForAll([kk], z3.Select(lens, kk) >= 0))
    return VSeq(n, inner, "blocks", tag=("lens", lens)), ok


def lens_of(st, v):
    """(length, Array k |-> len(v[k])) of a sequence of sequences."""
    from pyvc.ops import Unsupported
    if isinstance(v, VRef):
        o = st.obj(v.ref)
        if o.kind == "list":
            # a list DISPLAY of block sequences passed by a caller: the contract is stated for a sequence of symbolic length; writing the
            # lengths out makes the refutation of the caller's clause a RecFunction + quantifier query in the sat direction (measured:
            # 120 s of timeouts), so this is OUT-OF-SUBSET and the native replayer decides
            raise Unsupported("the list of block sequences is a list display here: outside the form the contract is stated for")
        v = o.data
    if not isinstance(v, VSeq):
        raise Unsupported("the list of block sequences is not a sequence the executor follows in this state")
    if isinstance(v.tag, tuple) and v.tag and v.tag[0] == "lens":
        return v.length, v.tag[1]
    return v.length, z3.Lambda([K], v.elem(K).length)


def p_block_seqs():
    def mk(ex, st, name):
        sq, ok = seq_of_block_seqs(name)
        return [(ok, sq)]
    return Maker(mk, desc="list[list[PptTextBlock]] (symbolic lengths)")


def p_alist(ekind):
    def mk(ex, st, name):
        n = z3.Int(f"{name}.len")
        es = X._sort_of_kind(ekind)
        arr = z3.Const(f"{name}.at", z3.ArraySort(I, es))
        sq = VSeq(n, lambda k: X._val(ekind, z3.Select(arr, k)), ekind)
        ref = st.alloc(HeapObj("alist", sq, None, fresh=False), ex.refs)
        return [(n >= 0, VRef(ref))]
    return Maker(mk, desc=f"list of {ekind} (symbolic length)")


def p_ppt_content():
    from pyvc.verify import p_unk
    return p_obj("PptContent", {"metadata": p_unk(), "slides": p_alist(("obj", "PptSlideContent")),
                                "master_text": p_alist("str"), "all_text": p_alist("str"), "streams": p_unk()})


def _alist_of(st, content, f):
    return st.obj(st.obj(content.ref).data[f].ref).data


def slides_numbered(sq: VSeq, lo=0):
    """slide numbers of sq[lo:] are 1..: sq[lo+k].slide_number == k+1."""
    k = z3.Int("k!sn")
    return z3.ForAll([k], z3.Implies(z3.And(k >= 0, k < sq.length - lo), SLIDE_NO(sq.elem(lo + k).t) == k + 1))


def build_slides_contract():
    def s_views(c_or_lc, st):
        content = c_or_lc.entry.lookup("content") if hasattr(c_or_lc, "i") else c_or_lc.args["content"]
        return content

    def outer_inv(lc):
        content = lc.entry.lookup("content")
        S, S0 = _alist_of(lc.st, content, "slides"), _alist_of(lc.entry, content, "slides")
        A, A0 = _alist_of(lc.st, content, "all_text"), _alist_of(lc.entry, content, "all_text")
        _n, lens = lens_of(lc.entry, lc.entry.lookup("slides_texts"))
        i = lc.i
        k = z3.Int("k!bo")
        return Conj([
            ("one-slide-per-entry", S.length == S0.length + i),
            ("earlier-slides-kept", z3.ForAll([k], z3.Implies(z3.And(k >= 0, k < S0.length), S.elem(k).t == S0.elem(k).t))),
            ("numbers", z3.ForAll([k], z3.Implies(z3.And(k >= 0, k < i), SLIDE_NO(S.elem(S0.length + k).t) == k + 1))),
            ("all_text-count", A.length == A0.length + CUM(lens, i)),
        ])

    def inner_inv(lc):
        # lc.entry: state at the entry of the inner loop (same iteration of the outer loop)
        content = lc.entry.frames[0].env["content"]
        A, A1 = _alist_of(lc.st, content, "all_text"), _alist_of(lc.entry, content, "all_text")
        return Conj([("all_text-count", A.length == A1.length + lc.i)])

    def ens(which):
        def f(c):
            if c.ex.contract is None or not c.ex.contract.target.endswith("::_build_slides_from_text_blocks"):
                return z3.BoolVal(True)       # call site: the functional post-state (post_state) carries these facts
            content = c.args["content"]
            S, S0 = _alist_of(c.st, content, "slides"), _alist_of(c.entry, content, "slides")
            A, A0 = _alist_of(c.st, content, "all_text"), _alist_of(c.entry, content, "all_text")
            n, lens = lens_of(c.entry, c.args["slides_texts"])
            k = z3.Int("k!be")
            if which == "count":
                return S.length == S0.length + n
            if which == "kept":
                return z3.ForAll([k], z3.Implies(z3.And(k >= 0, k < S0.length), S.elem(k).t == S0.elem(k).t))
            if which == "numbers":
                return z3.ForAll([k], z3.Implies(z3.And(k >= 0, k < n), SLIDE_NO(S.elem(S0.length + k).t) == k + 1))
            if which == "all_text":
                return A.length == A0.length + CUM(lens, n)
            if which == "frame":
                d, d0 = c.st.obj(content.ref).data, c.entry.obj(content.ref).data
                same = all(d[f] is d0[f] or (isinstance(d[f], VRef) and isinstance(d0[f], VRef) and d[f].ref == d0[f].ref)
                           for f in d0) and d.keys() == d0.keys()
                mt = c.st.obj(d["master_text"].ref).data is c.entry.obj(d0["master_text"].ref).data
                return z3.BoolVal(bool(same and mt))
        return f

    def post_state(ex, st, ctx):
        """Call-site effect on `content` (the verified ensures, as a functional post-state)."""
        content = ctx.args["content"]
        old = ctx.entry.obj(content.ref)
        S0 = ctx.entry.obj(old.data["slides"].ref).data
        A0 = ctx.entry.obj(old.data["all_text"].ref).data
        n, lens = lens_of(ctx.entry, ctx.args["slides_texts"])
        news = z3.Function(fresh_name("new_slide"), I, ext_sort("PptSlideContent"))
        j = z3.Int("j!new")
        st.assume(z3.ForAll([j], SLIDE_NO(news(j)) == j + 1, patterns=[news(j)]))
        L0, e0 = S0.length, S0.elem
        S = VSeq(L0 + n, lambda k: VExt("PptSlideContent", z3.If(k < L0, e0(k).t, news(k - L0))), ("obj", "PptSlideContent"))
        A = X.fresh_seq_like("str", "all_text")
        st.assume(A.length == A0.length + CUM(lens, n))
        st.assume(CUM(lens, n) >= 0)
        d = dict(old.data)
        d["slides"] = ex.new_alist(st, S)
        d["all_text"] = ex.new_alist(st, A)
        st.heap[content.ref] = HeapObj("obj", d, old.cls, old.fresh)
        return NONE

    outer_spec, inner_spec = LoopSpec(inv=outer_inv, label="slides"), LoopSpec(inv=inner_inv, label="blocks")

    def finder(ex, fnode, node):
        if not isinstance(node, ast.For):
            return None
        if iterates(fnode, node.iter, ("name", "slides_texts")):
            return with_counters(outer_spec, node)
        outer = [n for n in ast.walk(fnode) if isinstance(n, ast.For) and iterates(fnode, n.iter, ("name", "slides_texts"))]
        if len(outer) == 1 and any(x is node for x in ast.walk(outer[0])) and node is not outer[0]:
            # the inner loop walks the blocks of the current entry: the outer loop's element variable, or a local bound to
            # slides_texts[<index>] in the outer body
            cands = set()
            if isinstance(outer[0].target, ast.Tuple) and isinstance(outer[0].target.elts[-1], ast.Name):
                cands.add(outer[0].target.elts[-1].id)
            elif isinstance(outer[0].target, ast.Name) and not (isinstance(outer[0].iter, ast.Call) and ast.unparse(outer[0].iter.func) == "range"):
                cands.add(outer[0].target.id)
            for b in outer[0].body:
                if isinstance(b, ast.Assign) and len(b.targets) == 1 and isinstance(b.targets[0], ast.Name) and isinstance(b.value, ast.Subscript) \
                        and isinstance(b.value.value, ast.Name) and b.value.value.id == "slides_texts":
                    cands.add(b.targets[0].id)
            if any(iterates(fnode, node.iter, ("name", c_)) for c_ in cands):
                return with_counters(inner_spec, node)
        return None

    c_ = FnContract(
        target=f"{PPT}::_build_slides_from_text_blocks",
        params=[("content", p_ppt_content()), ("slides_texts", p_block_seqs())],
        ensures=[("appends-one-slide-per-entry", ens("count")), ("earlier-slides-kept", ens("kept")),
                 ("new-slides-numbered-1..n-in-order", ens("numbers")), ("all_text-grows-by-the-number-of-blocks", ens("all_text")),
                 ("other-fields-untouched", ens("frame"))],
        raises=[],
        loops={},
        modifies=("content",),
        result_maker=post_state,
        note="slide k of slides_texts becomes a PptSlideContent numbered k (1-based), appended in order",
    )
    c_.loop_finder = finder
    return c_


def cum_nonneg_hyp(c):
    """CUM(lens, i) >= 0 for non-negative lens: lemma (induction schema in lemmas())."""
    _n, lens = lens_of(c.entry, c.args["slides_texts"])
    i = z3.Int("i!cn")
    return z3.ForAll([i], CUM(lens, i) >= 0, patterns=[CUM(lens, i)])


def parse_ppt_contract():
    def requires(c):
        content = c.args["content"]
        return z3.And(_alist_of(c.entry, content, "slides").length == 0, _alist_of(c.entry, content, "all_text").length == 0)

    def numbered(c):
        S = _alist_of(c.st, c.args["content"], "slides")
        return slides_numbered(S)

    return FnContract(
        target=f"{PPT}::_parse_ppt_document",
        params=[("data", Maker(lambda ex, st, name: VUnk(name), desc="bytes (opaque)")), ("content", p_ppt_content())],
        requires=requires,
        ensures=[("slide-numbers-are-1..len-without-repetition", numbered)],
        raises=[Raises("Exception", sub=True, label="parser failures (failure surface is C01's)")],
        modifies=("content",),
        note="on a fresh PptContent the slides end up numbered 1..len(slides), whichever text source is used",
    )


def distribute_images_contract():
    from pyvc.verify import p_unk

    def requires(c):
        S = _alist_of(c.entry, c.args["content"], "slides")
        return slides_numbered(S)

    def numbered(c):
        o = c.st.obj(c.args["content"].ref)
        if o.kind != "obj" or not isinstance(o.data.get("slides"), VRef) or c.st.obj(o.data["slides"].ref).kind != "alist":
            raise X.Unsupported("content.slides is no longer an abstract list of slides: the clause cannot be stated over this state")
        return slides_numbered(c.st.obj(o.data["slides"].ref).data)

    def p_images():
        def mk(ex, st, name):
            n = z3.Int(f"{name}.len")
            return [(n >= 0, VSeq(n, lambda k: VUnk("image"), "unk"))]
        return Maker(mk, desc="list of images (symbolic length)")

    return FnContract(
        target=f"{PPT}::_distribute_images_to_slides",
        params=[("content", p_ppt_content()), ("images", p_images())],
        requires=requires,
        ensures=[("slide-numbers-stay-1..len", numbered)],
        raises=[Raises("Exception", sub=True, label="image objects are opaque here")],
        modifies=("content",),
    )


def assumed_ppt_parsers():
    """Record parsers of the PowerPoint stream: ASSUMED to return arbitrary well-typed results or raise."""
    def r_slide_list(ex, st, ctx):
        sq, ok = seq_of_block_seqs(fresh_name("slide_list_texts"))
        st.assume(ok)
        return sq

    def r_containers(ex, st, ctx):
        slides, ok1 = seq_of_block_seqs(fresh_name("container.slides"))
        notes, ok2 = seq_of_block_seqs(fresh_name("container.notes"))
        st.assume(z3.And(ok1, ok2))
        master = X.fresh_seq_like(("obj", "PptTextBlock"), "container.master")
        st.assume(master.length >= 0)
        ref = st.alloc(HeapObj("dict", {"slides": slides, "notes": notes, "master": master}), ex.refs)
        return VRef(ref)

    def r_raw(ex, st, ctx):
        sq = X.fresh_seq_like("str", "raw_texts")
        st.assume(sq.length >= 0)
        return sq

    unk = Maker(lambda ex, st, name: VUnk(name), desc="bytes")
    return [FnContract(target=f"{PPT}::{n}", params=[("data", unk)], result_maker=r, assumed=True, may_raise_any=True)
            for n, r in (("_extract_slide_list_texts", r_slide_list), ("_parse_containers", r_containers),
                         ("_extract_all_text_raw", r_raw))]


# ---------------------------------------------------- construction site: RTF pages --
def flush_page_contract():
    """The closure `flush_page` of _RtfParser._strip_rtf_full_with_pages (free variables `self`,
    `current_page` bound like parameters).  From the statement: every explicit page is one unit carrying
    its 1-based source position, so every page break must open exactly one entry of `self.pages`,
    empty or not; otherwise the pages behind an empty page are renumbered."""
    def pages(st, c):
        return st.obj(st.obj(c.args["self"].ref).data["pages"].ref).data

    def one_entry(c):
        return pages(c.st, c).length == pages(c.entry, c).length + 1

    def kept(c):
        P, P0 = pages(c.st, c), pages(c.entry, c)
        k = z3.Int("k!fp")
        return z3.ForAll([k], z3.Implies(z3.And(k >= 0, k < P0.length), P.elem(k).t == P0.elem(k).t))

    def buffer_reset(c):
        o = c.st.obj(c.args["current_page"].ref)
        return o.data.length == 0 if o.kind == "alist" else z3.BoolVal(o.kind == "list" and not o.data)

    # the closure is found by its role (the nested function of the page splitter that appends to self.pages); its free list
    # variable is the one it joins / clears
    from pyvc import loader as _loader
    name, buf = "flush_page", "current_page"
    try:
        outer = _loader.module(RTF).functions.get("_RtfParser._strip_rtf_full_with_pages")
        cl = [n for n in (outer.body if outer is not None else []) if isinstance(n, ast.FunctionDef) and any(
            isinstance(x, ast.Call) and isinstance(x.func, ast.Attribute) and x.func.attr == "append" and ast.unparse(x.func.value) == "self.pages"
            for x in ast.walk(n))]
        if len(cl) == 1:
            name = cl[0].name
            local = {t.id for x in ast.walk(cl[0]) if isinstance(x, (ast.Assign, ast.AnnAssign)) for t in (x.targets if isinstance(x, ast.Assign) else [x.target])
                     if isinstance(t, ast.Name)}
            free = [x.func.value.id for x in ast.walk(cl[0]) if isinstance(x, ast.Call) and isinstance(x.func, ast.Attribute) and x.func.attr == "clear"
                    and isinstance(x.func.value, ast.Name) and x.func.value.id not in local]
            if len(set(free)) == 1:
                buf = free[0]
    except (OSError, SyntaxError):
        pass

    def buffer_reset(c):     # noqa: F811  (bound to the discovered buffer name)
        o = c.st.obj(c.args[buf].ref)
        return o.data.length == 0 if o.kind == "alist" else z3.BoolVal(o.kind == "list" and not o.data)

    c_ = FnContract(
        target=f"{RTF}::_RtfParser._strip_rtf_full_with_pages.<locals>.{name}",
        params=[("self", p_obj("_RtfParser", {"pages": p_alist("str")})), (buf, p_alist("str"))],
        ensures=[("every-page-break-opens-exactly-one-page-entry", one_entry), ("earlier-pages-kept-in-place", kept),
                 ("page-buffer-reset", buffer_reset)],
        raises=[],
        modifies=("self", buf),
        note="closure verified with its free variables as parameters",
    )
    c_.oid_name = "_RtfParser._strip_rtf_full_with_pages.<locals>.flush_page"     # ids do not depend on the closure's current name
    return c_


RESUB = z3.Function("re_sub", S, S, S, S)     # pattern.sub(repl, s): PY-RE total, uninterpreted


def install_re(reg):
    from pyvc import loader as _l
    for name in ("_RE_MULTI_SPACE", "_RE_MULTI_NEWLINE"):
        reg.module_consts[(RTF, name)] = VExt("RePattern", z3.Const(f"re:{name}", ext_sort("RePattern")))
    pat = fun("re_pattern_text", ext_sort("RePattern"), S)
    prev = reg.method_models.get(("RePattern", "sub"))
    mine = {f"re:{name}" for name in ("_RE_MULTI_SPACE", "_RE_MULTI_NEWLINE")}

    def m_sub(ex, st, o, a, k, n):
        # the RTF page patterns are opaque here (PY-RE: total, uninterpreted); every other compiled pattern keeps the model
        # another pack registered for it
        if prev is not None and str(o.t) not in mine:
            return prev(ex, st, o, a, k, n)
        return [(st, VStr(RESUB(pat(o.t), a[0].t, a[1].t)))]
    reg.method_models[("RePattern", "sub")] = m_sub


# --------------------------------------------------- construction site: EPUB spine --
EPUB = "sharepoint2text/parsing/extractors/epub_extractor.py"
OPF_NS = "http://www.idpf.org/2007/opf"
from contracts import etree_model as ET  # noqa: E402

_IDREF = z3.StringVal("idref")


def idref_of(e):
    """itemref.get("idref", "")"""
    return z3.If(ET.HAS_ATTR(e, _IDREF), ET.ATTR(e, _IDREF), z3.StringVal(""))


def keep_idref(e, tag):
    """keep predicate of the spine filter as a lambda array: the k-th `tag` child of e carries a non-empty idref"""
    return z3.Lambda([K], z3.Length(idref_of(ET.FA_AT(e, tag, K))) > 0)


def CNT_IDREF(e, tag, i):
    """number of the first i `tag` children of e that carry a non-empty idref (generic counting function of c03_exec over the
    keep predicate; its definition by primitive recursion is supplied as ground instances where an invariant is assumed)"""
    return X.COUNT_TRUE(keep_idref(e, tag), i)


def cnt_idref_def(e, tag, j):
    return X.count_true_def(keep_idref(e, tag), j)


def spine_is_filtered(S_: VSeq, e, tag, upto, prefix=""):
    """S_ == [idref(x) for x in findall(e, tag)[:upto] if idref(x)]  (order preserving, complete), as
    count + position-of-every-kept-item + positions increasing."""
    k = z3.Int("k!sp")
    kept = z3.Length(idref_of(ET.FA_AT(e, tag, k))) > 0
    rng = z3.And(k >= 0, k < upto)
    from contracts.c16_exec import ConjA
    if not isinstance(S_.elem(k), VStr):       # the list no longer holds strings only (e.g. rebuilt from an unknown source)
        raise X.Unsupported("the spine list no longer holds strings only: the clause cannot be stated over this state")
    return ConjA([
        (prefix + "count", z3.And(S_.length == CNT_IDREF(e, tag, upto), S_.length >= 0)),
        (prefix + "order", z3.ForAll([k], z3.Implies(z3.And(rng, kept), z3.And(CNT_IDREF(e, tag, k) >= 0, CNT_IDREF(e, tag, k) < CNT_IDREF(e, tag, upto))),
                                     patterns=[CNT_IDREF(e, tag, k)])),
        (prefix + "items", z3.ForAll([k], z3.Implies(z3.And(rng, kept), S_.elem(CNT_IDREF(e, tag, k)).t == idref_of(ET.FA_AT(e, tag, k))),
                                     patterns=[CNT_IDREF(e, tag, k)])),
    ], defs=[cnt_idref_def(e, tag, z3.IntVal(0)), cnt_idref_def(e, tag, upto), cnt_idref_def(e, tag, upto + 1)])


def parse_spine_contract():
    """_EpubContext._parse_spine: the reading order (`_spine`) is the list of the idrefs of the spine's itemref
    children in DOCUMENT order (itemrefs without idref skipped); chapter numbers are positions in this list."""
    T_SPINE, T_SPINE_ANY = z3.StringVal("{%s}spine" % OPF_NS), z3.StringVal("{*}spine")
    T_REF, T_REF_ANY = z3.StringVal("{%s}itemref" % OPF_NS), z3.StringVal("{*}itemref")

    def spine_of(st, c):
        return st.obj(st.obj(c.args["self"].ref).data["_spine"].ref).data

    def root_of(c):
        return c.entry.obj(c.args["self"].ref).data["_opf_root"]

    def requires(c):
        return spine_of(c.entry, c).length == 0

    def ens(which):
        def f(c):
            S_ = spine_of(c.st, c)
            root = root_of(c)
            if root is NONE:
                return S_.length == 0
            r = root.t
            cases = [(ET.FA_N(r, T_SPINE) > 0, ET.FA_AT(r, T_SPINE, 0)),
                     (z3.And(ET.FA_N(r, T_SPINE) <= 0, ET.FA_N(r, T_SPINE_ANY) > 0), ET.FA_AT(r, T_SPINE_ANY, 0))]
            out = [z3.Implies(z3.And(ET.FA_N(r, T_SPINE) <= 0, ET.FA_N(r, T_SPINE_ANY) <= 0), S_.length == 0)]
            for cond, e in cases:
                n1, n2 = ET.FA_N(e, T_REF), ET.FA_N(e, T_REF_ANY)
                primary = CNT_IDREF(e, T_REF, n1) > 0
                conj1 = dict(spine_is_filtered(S_, e, T_REF, n1))
                conj2 = dict(spine_is_filtered(S_, e, T_REF_ANY, n2))
                out.append(z3.Implies(z3.And(cond, primary), conj1[which]))
                out.append(z3.Implies(z3.And(cond, z3.Not(primary)), conj2[which]))
            return z3.And(out)
        return f

    def inv_for(tag, recv="spine_elem"):
        def inv(lc):
            me = lc.entry.frames[0].env["self"]
            S_ = lc.st.obj(lc.st.obj(me.ref).data["_spine"].ref).data
            e = lc.st.lookup(recv)
            if not isinstance(e, VExt):
                raise X.Unsupported("the spine element is not an abstract element here: the invariant cannot be stated over this state")
            return spine_is_filtered(S_, e.t, tag, lc.i)
        return inv

    def hyps(c):
        root = root_of(c)
        if root is NONE:
            return z3.BoolVal(True)
        out = []
        for e in (ET.FA_AT(root.t, T_SPINE, 0), ET.FA_AT(root.t, T_SPINE_ANY, 0)):
            for t in (T_REF, T_REF_ANY):
                out.append(cnt_idref_def(e, t, z3.IntVal(0)))
        return z3.And(out)


    by_node = {}

    def finder(ex, fnode, node):
        if not isinstance(node, ast.For):
            return None
        for text, tag, label in (("opf:itemref", T_REF, "itemrefs"), ("{*}itemref", T_REF_ANY, "itemrefs-any-namespace")):
            if iterates(fnode, node.iter, ("text", text)):
                if id(node) not in by_node:
                    # the element whose children are walked: the receiver of the findall call (whatever the local is called)
                    call = node.iter
                    while isinstance(call, ast.Call) and not (isinstance(call.func, ast.Attribute) and call.func.attr in ("findall", "iter", "iterfind")):
                        call = call.args[0] if call.args else None
                    if isinstance(call, ast.Name):
                        call = _single_def(fnode, call.id)
                    recv = call.func.value.id if isinstance(call, ast.Call) and isinstance(call.func, ast.Attribute) and isinstance(call.func.value, ast.Name) else "spine_elem"
                    by_node[id(node)] = with_counters(LoopSpec(inv=inv_for(tag, recv), label=label), node)
                return by_node[id(node)]
        return None

    from pyvc.verify import p_opt
    c_ = FnContract(
        target=f"{EPUB}::_EpubContext._parse_spine",
        hyps=hyps,
        params=[("self", p_obj("_EpubContext", {"_opf_root": p_opt(p_ext("Elem")), "_spine": p_alist("str")}))],
        requires=requires,
        ensures=[("one-entry-per-itemref-with-idref", ens("count")), ("entries-in-document-order", ens("order")),
                 ("entry-k-is-the-idref-of-the-k-th-kept-itemref", ens("items"))],
        raises=[],
        loops={},
        modifies=("self",),
        note="reading order == idrefs of <spine>/<itemref> in document order; assumed: xml.etree findall returns direct children in document order",
    )
    c_.loop_finder = finder
    c_.loop_optional = True      # without the loops (filter written as a comprehension / in a helper) the ensures follow from PY-COMP facts
    c_.loop_obligations = [(k_, f"{lab}.{cj}") for lab in ("itemrefs", "itemrefs-any-namespace") for k_ in ("inv-init", "inv-preserve")
                           for cj in ("count", "order", "items")]
    return c_


# ----------------------------------------------- construction site: xlsx row trimming --
XLSX = "sharepoint2text/parsing/extractors/ms_modern/xlsx_extractor.py"
CELL_NE = fun("xlsx_cell_non_empty", ext_sort("XCell"), B)      # _is_cell_non_empty(cell) for a cell of unknown dynamic type (round 7: the function is verified per dynamic type, see cell_non_empty_contract)


def any_true(seq: VSeq):
    """any(seq) for a sequence of booleans: some element is true (one shape for the code's `any(...)` and for the spec)"""
    j = z3.Int("j!any")
    return z3.Exists([j], z3.And(j >= 0, j < seq.length, seq.elem(j).t))


def p_rows():
    def mk(ex, st, name):
        n = z3.Int(f"{name}.len")
        rl = z3.Function(f"{name}.rowlen", I, I)
        cell = z3.Function(f"{name}.cell", I, I, ext_sort("XCell"))

        def row(k):
            return VSeq(z3.If(rl(k) < 0, 0, rl(k)), lambda j, k=k: VExt("XCell", cell(k, j)), ("obj", "XCell"))
        return [(n >= 0, VSeq(n, row, "row"))]
    return Maker(mk, desc="list of rows of cell values (symbolic sizes)")


def row_non_empty(row: VSeq):
    return any_true(VSeq(row.length, lambda j: VBool(CELL_NE(row.elem(j).t)), "bool"))


def last_data_row_contract():
    """_find_last_data_row: the 1-based number of the LAST row holding a non-empty cell, 0 when there is none -- every row that
    carries data survives the trimming (a trimmed data row is cell text in no unit)."""
    def rows_of(c):
        return c.args["rows"]

    def ens(c):
        rows = rows_of(c)
        n = rows.length
        r = ops.int_term(c.result)
        k = z3.Int("k!ldr")
        later_empty = z3.ForAll([k], z3.Implies(z3.And(k >= r, k < n), z3.Not(row_non_empty(rows.elem(k)))))
        return z3.And(r >= 0, r <= n, later_empty, z3.Implies(r > 0, row_non_empty(rows.elem(r - 1))))

    def inv(lc):
        rows = lc.entry.lookup("rows")
        n = rows.length
        k = z3.Int("k!ldi")
        return Conj([("rows-behind-are-empty", z3.ForAll([k], z3.Implies(z3.And(k > n - 1 - lc.i, k < n), z3.Not(row_non_empty(rows.elem(k))))))])

    def inv_forward(names):
        # the same traversal written front to back: the candidate kept in a local that is returned afterwards is the last row
        # with data among the rows visited so far (stated for every returned integer local; a local for which it does not
        # hold makes the proof fail behind the cut = `unknown`, never a violation)
        def f(lc):
            rows = lc.entry.lookup("rows")
            k = z3.Int("k!ldf")
            parts = []
            for v in names:
                cur = lc.st.lookup(v)
                if isinstance(cur, VInt) and not isinstance(cur, VBool):
                    t = ops.int_term(cur)
                    parts.append(z3.And(t >= 0, t <= lc.i, z3.Implies(t > 0, row_non_empty(rows.elem(t - 1))),
                                        z3.ForAll([k], z3.Implies(z3.And(k >= t, k < lc.i), z3.Not(row_non_empty(rows.elem(k)))))))
            return Conj([("rows-behind-are-empty", z3.And(*parts) if parts else z3.BoolVal(True))])
        return f

    spec = LoopSpec(inv=inv, label="rows")
    fwd = {}
    c_ = FnContract(
        target=f"{XLSX}::_find_last_data_row",
        params=[("rows", p_rows())],
        ensures=[("result-is-the-last-row-with-data-or-0", ens)],
        raises=[],
        loops={},
        note="trailing empty rows only are trimmed",
    )

    def finder(ex, fnode, node):
        if not isinstance(node, ast.For):
            return None
        if iterates(fnode, node.iter, ("name", "rows")):
            if id(fnode) not in fwd:
                fwd[id(fnode)] = LoopSpec(inv=inv_forward(returned_names(fnode)), label="rows")
            return with_counters(fwd[id(fnode)], node)
        if isinstance(node.iter, ast.Call) and ast.unparse(node.iter.func) in ("range", "reversed"):
            return with_counters(spec, node)
        return None
    c_.loop_finder = finder
    c_.loop_obligations = [("inv-init", "rows.rows-behind-are-empty"), ("inv-preserve", "rows.rows-behind-are-empty")]
    return c_


def returned_names(fnode):
    """locals whose value is returned by `return <name>`"""
    return sorted({n.value.id for n in ast.walk(fnode) if isinstance(n, ast.Return) and isinstance(n.value, ast.Name)})


def last_data_column_contract():
    """_find_last_data_column: no cell right of the returned (1-based) column carries data, in any row -- the column trimming
    removes empty cells only.  Outer loop (rows, front to back): the candidate kept in the returned local covers the rows
    visited; inner loop (cells of one row, back to front, left by `break` at the first cell with data): the cells behind the
    cursor are empty and the candidate is untouched."""
    def cells_right_empty(rows, upto, col):
        k, j = z3.Int("k!ldc"), z3.Int("j!ldc")
        return z3.ForAll([k, j], z3.Implies(z3.And(k >= 0, k < upto, j >= col, j >= 0, j < rows.elem(k).length),
                                            z3.Not(CELL_NE(rows.elem(k).elem(j).t))))

    def ens(c):
        rows = c.args["rows"]
        r = ops.int_term(c.result)
        return z3.And(r >= 0, cells_right_empty(rows, rows.length, r))

    def ints(lc, names):
        out = []
        for v in names:
            cur, ent = lc.st.lookup(v), lc.entry.lookup(v)
            if isinstance(cur, VInt) and not isinstance(cur, VBool):
                out.append((v, ops.int_term(cur), ops.int_term(ent) if isinstance(ent, VInt) else None))
        return out

    def inv_rows(names):
        def f(lc):
            rows = lc.entry.lookup("rows")
            parts = [z3.And(t >= 0, cells_right_empty(rows, lc.i, t)) for _v, t, _e in ints(lc, names)]
            return Conj([("cells-right-of-the-candidate-are-empty", z3.And(*parts) if parts else z3.BoolVal(True))])
        return f

    def inv_cells(names, row_name):
        def f(lc):
            row = lc.entry.lookup(row_name)
            if not isinstance(row, VSeq):
                return Conj([("cells-behind-are-empty", z3.BoolVal(False))])
            j = z3.Int("j!ldk")
            n = row.length
            behind = z3.ForAll([j], z3.Implies(z3.And(j > n - 1 - lc.i, j >= 0, j < n), z3.Not(CELL_NE(row.elem(j).t))))
            frame = [t == e for _v, t, e in ints(lc, names) if e is not None]
            return Conj([("cells-behind-are-empty", z3.And(behind, *frame))])
        return f

    def inv_cells_forward(names, row_name):
        # the cells of one row walked front to back: the candidate only grows, and no visited cell at or right of it has data
        def f(lc):
            row = lc.entry.lookup(row_name)
            if not isinstance(row, VSeq):
                return Conj([("cells-behind-are-empty", z3.BoolVal(False))])
            j = z3.Int("j!ldw")
            parts = [z3.And(t >= e, z3.ForAll([j], z3.Implies(z3.And(j >= t, j >= 0, j < lc.i, j < row.length), z3.Not(CELL_NE(row.elem(j).t)))))
                     for _v, t, e in ints(lc, names) if e is not None]
            return Conj([("cells-behind-are-empty", z3.And(*parts) if parts else z3.BoolVal(True))])
        return f

    c_ = FnContract(
        target=f"{XLSX}::_find_last_data_column",
        params=[("rows", p_rows())],
        ensures=[("no-data-right-of-the-returned-column", ens)],
        raises=[],
        loops={},
        note="empty trailing columns only are trimmed",
    )
    cache = {}

    def finder(ex, fnode, node):
        if not isinstance(node, ast.For):
            return None
        if id(node) in cache:
            return cache[id(node)]
        names = returned_names(fnode)
        sp = None
        if iterates(fnode, node.iter, ("name", "rows")):
            sp = with_counters(LoopSpec(inv=inv_rows(names), label="rows"), node)
        elif [n for n in ast.walk(node.iter) if isinstance(n, ast.Name) and n.id != "rows" and iterates(fnode, node.iter, ("name", n.id))]:
            row_name = [n.id for n in ast.walk(node.iter) if isinstance(n, ast.Name) and n.id != "rows" and iterates(fnode, node.iter, ("name", n.id))][0]
            sp = with_counters(LoopSpec(inv=inv_cells_forward(names, row_name), label="cells"), node)
        elif isinstance(node.iter, ast.Call) and ast.unparse(node.iter.func) == "range":
            # the cells of ONE row, walked by index from the back: the row is the sequence whose len() bounds the range
            lens = [a.args[0].id for a in ast.walk(node.iter) if isinstance(a, ast.Call) and isinstance(a.func, ast.Name) and a.func.id == "len"
                    and len(a.args) == 1 and isinstance(a.args[0], ast.Name)]
            if len(lens) == 1:
                sp = with_counters(LoopSpec(inv=inv_cells(names, lens[0]), label="cells"), node)
        cache[id(node)] = sp
        return sp
    c_.loop_finder = finder
    c_.loop_obligations = [(k_, lab) for k_ in ("inv-init", "inv-preserve")
                           for lab in ("rows.cells-right-of-the-candidate-are-empty", "cells.cells-behind-are-empty")]
    return c_


def p_cell_value():
    """A spreadsheet cell value by dynamic type: None, a string, or a value that is neither (int / bool stand for every other type:
    the body may only ask `is None` / `isinstance(.., str)` of such a value, anything else is outside the executor's subset)."""
    def mk(ex, st, name):
        return [(None, NONE), (None, VStr(z3.String(name))), (None, VInt(z3.Int(name + "!int"))), (None, VBool(z3.Bool(name + "!bool")))]
    return Maker(mk, desc="cell value: None | str | other (int, bool)")


def cell_non_empty_spec(v):
    """"The cell carries data": it is not None and, when it is a string, it is not blank.  For an abstract cell (dynamic type not known,
    the rows of the trimming functions) this is the uninterpreted predicate CELL_NE of the cell: the call-site view, implied by the
    verified cases because they give the result as a function of the value alone."""
    if isinstance(v, VExt):
        return CELL_NE(v.t)
    if v is NONE or type(v).__name__ == "VNoneT":
        return z3.BoolVal(False)
    if isinstance(v, VStr):
        return STRIP(v.t) != z3.StringVal("")
    if isinstance(v, (VInt, VBool)):
        return z3.BoolVal(True)
    from pyvc.ops import Unsupported
    raise Unsupported(f"cell value of a kind the contract does not describe: {v!r}")


def cell_non_empty_contract():
    """round 7: `_is_cell_non_empty` is VERIFIED on its real body (was an assumed contract); the row / column trimming functions call it
    through this same contract."""
    return FnContract(target=f"{XLSX}::_is_cell_non_empty", params=[("val", p_cell_value())],
                      returns=lambda c: VBool(cell_non_empty_spec(c.args["val"])), raises=[],
                      note="non-empty == not None and (not a string or strip() != '')")


# ------------------------------------------- slide text accessors (round 7: verified) --
def slide_parts(cls, e, opt_title):
    """(length, Array k |-> part k) of the parts `text_combined` joins, written from the class documentation ("all text from this
    slide combined"): the title when there is a non-empty one, then every body text, then every other text, in stored order."""
    title = _f(cls, "title")(e)
    has = z3.Length(title) > 0
    if opt_title:
        has = z3.And(z3.Not(fld(cls, "title.is_none", B)(e)), has)
    nb, no = fld_len(cls, "body_text")(e), fld_len(cls, "other_text")(e)
    body, other = fld_at(cls, "body_text", S), fld_at(cls, "other_text", S)
    off = z3.If(has, 1, 0)
    j = K - off
    rest = z3.If(j < nb, body(e, j), other(e, j - nb))
    return off + nb + no, z3.Lambda([K], z3.If(z3.And(has, K == 0), title, rest)), has


def text_combined_contract(cls, opt_title):
    """`<slide>.text_combined` (property): VERIFIED on the real body.  The unit text of a ppt / odp slide is this value (SPEC above keeps
    the abstract name `<cls>.text_combined()(instance)` at call sites: the verified clause gives it as a function of the instance's
    fields only, which is what the call-site view says)."""
    def parts_of(c):
        return slide_parts(cls, c.args["self"].t, opt_title)

    def returns(c):
        n, lam, _ = parts_of(c)
        return VStr(JOIN(NL, lam, n))

    def e_each(c):
        # element-wise reading of the same claim, independent of how z3 compares the two lambdas: the joined sequence has the
        # length of the spec and the same element at every position
        n, lam, _ = parts_of(c)
        r = c.result.t if isinstance(c.result, VStr) else None
        if r is None or not (z3.is_app(r) and r.decl().name() == "str_join" and r.num_args() == 3):
            from pyvc.ops import Unsupported
            raise Unsupported("text_combined does not return a join over a sequence the executor follows")
        k = z3.Int("k!tc")
        return z3.And(r.arg(0) == NL, r.arg(2) == n,
                      z3.ForAll([k], z3.Implies(z3.And(k >= 0, k < n), z3.Select(r.arg(1), k) == z3.Select(lam, k))))

    return FnContract(
        target=f"{DT}::{cls}.text_combined",
        params=[("self", p_ext(cls))],
        ensures=[("parts-are-title-then-body-texts-then-other-texts-joined-by-newline", e_each)],
        raises=[],
        note="text_combined == '\\n'.join([title if non-empty] + body_text + other_text) over lists of symbolic length",
    )



# ----------------------------------------------- PptxSlide.get_text (round 7: verified) --
def pptx_text_spec(me):
    """Pieces of the documented slide text ("slide text with formulas included and optional image captions"): the base text when
    it is non-empty, one piece per formula in stored order ($$..$$ for display formulas, $..$ inline), and -- only when captions are
    asked for -- one piece `[Image: <description>]` per image WITH a description, in stored order."""
    base = _f("PptxSlide", "base_text")(me)
    off = z3.If(z3.Length(base) > 0, 1, 0)
    nf, ni = fld_len("PptxSlide", "formulas")(me), fld_len("PptxSlide", "images")(me)
    f_at = lambda k: fld_at("PptxSlide", "formulas", ext_sort("PptxFormula"))(me, k)
    i_at = lambda k: fld_at("PptxSlide", "images", ext_sort("PptxImage"))(me, k)
    latex, disp = _f("PptxFormula", "latex"), fld("PptxFormula", "is_display", B)
    desc = _f("PptxImage", "description")
    d1, d2 = z3.StringVal("$"), z3.StringVal("$$")
    fm = lambda k: z3.If(disp(f_at(k)), z3.Concat(d2, latex(f_at(k)), d2), z3.Concat(d1, latex(f_at(k)), d1))
    cap = lambda j: z3.Concat(z3.StringVal("[Image: "), desc(i_at(j)), z3.StringVal("]"))
    keep = z3.Lambda([K], z3.Length(desc(i_at(K))) > 0)
    cnt = lambda j: X.COUNT_TRUE(keep, j)
    cdef = lambda j: X.count_true_def(keep, j)
    return dict(base=base, off=off, nf=nf, ni=ni, fm=fm, cap=cap, kept=lambda j: z3.Length(desc(i_at(j))) > 0, cnt=cnt, cdef=cdef)


def _str_typed(e, fnode, depth=0):
    """SYNTACTIC: does this expression evaluate to a `str` whenever it evaluates at all?  f-strings, string constants, `"..".format(..)`,
    `"..".join(..)`, `".." % x`, `str(..)`, `a + b` with one operand of that kind (the other is then a str or the `+` raises), a conditional
    expression of two such, and a local name every binding of which (in the whole function) is a plain assignment of such an expression."""
    if depth > 4:
        return False
    if isinstance(e, ast.JoinedStr) or (isinstance(e, ast.Constant) and isinstance(e.value, str)):
        return True
    if isinstance(e, ast.Call) and isinstance(e.func, ast.Attribute) and e.func.attr in ("format", "join", "format_map") \
            and isinstance(e.func.value, ast.Constant) and isinstance(e.func.value.value, str):
        return True
    if isinstance(e, ast.Call) and isinstance(e.func, ast.Name) and e.func.id == "str" and fnode is not None \
            and not any(isinstance(x, ast.Name) and x.id == "str" and isinstance(x.ctx, ast.Store) for x in ast.walk(fnode)):
        return True
    if isinstance(e, ast.BinOp) and isinstance(e.op, ast.Mod):
        return isinstance(e.left, ast.JoinedStr) or (isinstance(e.left, ast.Constant) and isinstance(e.left.value, str))
    if isinstance(e, ast.BinOp) and isinstance(e.op, ast.Add):
        return _str_typed(e.left, fnode, depth + 1) or _str_typed(e.right, fnode, depth + 1)
    if isinstance(e, ast.IfExp):
        return _str_typed(e.body, fnode, depth + 1) and _str_typed(e.orelse, fnode, depth + 1)
    if isinstance(e, ast.Name) and fnode is not None:
        a = fnode.args
        if e.id in {x.arg for x in a.posonlyargs + a.args + a.kwonlyargs + [y for y in (a.vararg, a.kwarg) if y is not None]}:
            return False
        if any(isinstance(x, (ast.Global, ast.Nonlocal)) and e.id in x.names for x in ast.walk(fnode)):
            return False
        stores = [x for x in ast.walk(fnode) if isinstance(x, ast.Name) and x.id == e.id and isinstance(x.ctx, (ast.Store, ast.Del))]
        binds = [x for x in ast.walk(fnode)
                 if (isinstance(x, ast.Assign) and len(x.targets) == 1 and isinstance(x.targets[0], ast.Name) and x.targets[0].id == e.id)
                 or (isinstance(x, ast.AnnAssign) and x.value is not None and isinstance(x.target, ast.Name) and x.target.id == e.id)]
        return bool(binds) and len(binds) == len(stores) and all(_str_typed(x.value, fnode, depth + 1) for x in binds)
    return False


def _joined_local(fnode):
    """name of the local list whose join is returned (`return sep.join(<name>)`), however it is called"""
    for n in ast.walk(fnode):
        if isinstance(n, ast.Return) and isinstance(n.value, ast.Call) and isinstance(n.value.func, ast.Attribute) and n.value.func.attr == "join" \
                and len(n.value.args) == 1 and isinstance(n.value.args[0], ast.Name):
            return n.value.args[0].id
    return None


def pptx_get_text_contract():
    from contracts.c16_exec import ConjA
    from pyvc.ops import Unsupported

    def clauses(sp, P_len, P_at, upto_f, upto_i, captions):
        """the part list read as (length, element function), formulas handled so far, images handled so far (None: image pieces are
        not part of the list)"""
        k, j = z3.Int("k!gt"), z3.Int("j!gt")
        n_img = sp["cnt"](upto_i) if upto_i is not None else z3.IntVal(0)
        out = [("count", z3.And(P_len == sp["off"] + upto_f + z3.If(captions, n_img, 0), z3.Implies(captions, n_img >= 0))),
               ("base-text-first", z3.Implies(sp["off"] == 1, P_at(z3.IntVal(0)) == sp["base"])),
               ("formula-k-at-its-position", z3.ForAll([k], z3.Implies(z3.And(k >= 0, k < upto_f), P_at(sp["off"] + k) == sp["fm"](k))))]
        if upto_i is not None:
            out.append(("caption-of-every-described-image-in-order",
                        z3.Implies(captions, z3.ForAll([j], z3.Implies(z3.And(j >= 0, j < upto_i, sp["kept"](j)),
                                                                         z3.And(sp["cnt"](j) >= 0, sp["cnt"](j) < n_img,
                                                                                P_at(sp["off"] + sp["nf"] + sp["cnt"](j)) == sp["cap"](j))),
                                                        patterns=[sp["cnt"](j)]))))
        return out

    def parts_view(lc_or_c, st, fnode):
        name = _joined_local(fnode)
        v = st.lookup(name) if name else None
        if not isinstance(v, VRef) or st.obj(v.ref).kind not in ("alist", "list"):
            raise Unsupported("the list of text pieces that is joined was not found in this state")
        sq = lc_or_c.ex._as_seq(st, v)
        if sq is not None and z3.is_int_value(z3.simplify(sq.length)) and z3.simplify(sq.length).as_long() == 0:
            return z3.IntVal(0), (lambda k: z3.StringVal(""))          # the empty list: no element is ever read
        if sq is None or not isinstance(sq.elem(K), VStr):
            raise Unsupported("the list of text pieces does not hold strings only here")
        return sq.length, (lambda k: sq.elem(k).t)

    def inv_formulas(lc):
        me = lc.entry.frames[0].env["self"].t
        sp = pptx_text_spec(me)
        n, at = parts_view(lc, lc.st, lc.ex.cur_fn_stack[-1])
        return Conj(clauses(sp, n, at, lc.i, None, z3.BoolVal(False)))

    def inv_images(lc):
        me = lc.entry.frames[0].env["self"].t
        sp = pptx_text_spec(me)
        n, at = parts_view(lc, lc.st, lc.ex.cur_fn_stack[-1])
        return ConjA(clauses(sp, n, at, sp["nf"], lc.i, z3.BoolVal(True)), defs=[sp["cdef"](z3.IntVal(0)), sp["cdef"](lc.i), sp["cdef"](lc.i + 1)])

    def hyps(c):
        sp = pptx_text_spec(c.args["self"].t)
        return z3.And(sp["cdef"](z3.IntVal(0)), sp["nf"] >= 0, sp["ni"] >= 0)

    def ens(which):
        def f(c):
            if c.ex.contract is not c_:
                # call sites (PptxContent.iterate_units): the result is the abstract name `PptxSlide.get_text()(slide, flag)` of SPEC --
                # the call-site view "a function of the slide and the flag alone", which the verified clauses imply
                return z3.BoolVal(True)
            sp = pptx_text_spec(c.args["self"].t)
            r = c.result.t if isinstance(c.result, VStr) else None
            if r is None or not (z3.is_app(r) and r.decl().name() == "str_join" and r.num_args() == 3):
                raise Unsupported("get_text does not return a join over a sequence the executor follows")
            captions = c.ex.truth(c.st, c.args["include_image_captions"]).t
            cl = dict(clauses(sp, r.arg(2), lambda k: z3.Select(r.arg(1), k), sp["nf"], sp["ni"], captions))
            if which == "separator":
                return r.arg(0) == NL
            return cl[which]
        return f

    sp_f, sp_i = LoopSpec(inv=inv_formulas, label="formulas"), LoopSpec(inv=inv_images, label="images")

    def finder(ex, fnode, node):
        if not isinstance(node, ast.For):
            return None
        if iterates(fnode, node.iter, ("self", "formulas")):
            return sp_f
        if iterates(fnode, node.iter, ("self", "images")):
            return sp_i
        return None

    def result_maker(ex, st, ctx):
        return VStr(opaque("PptxSlide", "get_text", B)(ctx.args["self"].t, ex.truth(st, ctx.args["include_image_captions"]).t))

    p_flag = p_bool()
    p_flag.default = lambda ex, st: VBool(z3.BoolVal(False))
    c_ = FnContract(
        target=f"{DT}::PptxSlide.get_text",
        params=[("self", p_ext("PptxSlide")), ("include_image_captions", p_flag)],
        hyps=hyps,
        result_maker=result_maker,
        ensures=[("pieces-joined-by-newline", ens("separator")), ("one-piece-per-formula-and-per-described-image", ens("count")),
                 ("base-text-first", ens("base-text-first")), ("formula-k-at-its-position", ens("formula-k-at-its-position")),
                 ("caption-of-every-described-image-in-order", ens("caption-of-every-described-image-in-order"))],
        raises=[],
        loops={},
        note="get_text == '\\n'.join([base_text if non-empty] + [$latex$ | $$latex$$ per formula] + ([Image: d] per image with a description, "
             "if asked for)); lists of symbolic length, filter counted by COUNT_TRUE",
    )
    c_.loop_finder = finder
    return c_


# ------------------------------------ pptx: the slide order the reader walks (round 7) --
PPTX = "sharepoint2text/parsing/extractors/ms_modern/pptx_extractor.py"
_ORDER_KEY = "c03.slide-order-computed"


def pptx_order_views():
    """Call-site views used while `_load_xml_files` / `slide_order` are verified: `_compute_slide_order()` returns SOME finite list of
    strings (its return annotation; that its content is the sldIdLst document order is the construction obligation of c03_flow) and every
    list it returned in this execution is remembered (ghost); `read_xml_root` (zipfile + XML parser behind ZipContext) returns some
    element or raises.  Nothing else is assumed about either."""
    from pyvc.verify import p_unk

    def r_order(ex, st, ctx):
        sq = X.fresh_seq_like("str", "slide_order")
        st.assume(sq.length >= 0)
        st.ghost[_ORDER_KEY] = tuple(st.ghost.get(_ORDER_KEY, ())) + (sq,)
        return ex.new_alist(st, sq)

    def r_root(ex, st, ctx):
        return VExt("Elem", z3.Const(fresh_name("xml_root"), ext_sort("Elem")))

    return [FnContract(target=f"{PPTX}::_PptxContext._compute_slide_order", params=[("self", p_unk())], result_maker=r_order, assumed=True,
                       note="call-site view: returns a finite list of str (annotation)"),
            FnContract(target=f"{PPTX}::_PptxContext.read_xml_root", params=[("self", p_unk()), ("path", p_unk())], result_maker=r_root,
                       assumed=True, may_raise_any=True, note="ZipContext.read_xml_root: zipfile + XML parser (third party)")]


def _same_seq(a: VSeq, b: VSeq, name="k!so"):
    k = z3.Int(name)
    ea, eb = a.elem(k), b.elem(k)
    if not isinstance(ea, VStr) or not isinstance(eb, VStr):
        from pyvc.ops import Unsupported
        raise Unsupported("the slide order is not a list of strings in this state")
    return z3.And(a.length == b.length, z3.ForAll([k], z3.Implies(z3.And(k >= 0, k < a.length), ea.t == eb.t)))


def _order_field(ex, st, me):
    from pyvc.ops import Unsupported
    v = st.obj(me.ref).data.get("_slide_order") if st.obj(me.ref).kind == "obj" else None
    if v is None:
        raise Unsupported("the context object / its _slide_order field is not tracked in this state")
    if v is NONE:
        return None
    sq = ex._as_seq(st, v)
    if sq is None:
        raise Unsupported(f"_slide_order holds {v!r}: not a list the executor follows")
    return sq


def p_pptx_context(order):
    from pyvc.verify import p_const, p_opt
    def empty_dict():
        return Maker(lambda ex, st, name: VRef(st.alloc(HeapObj("dict", {}, None, False), ex.refs)), desc="{}")
    none = Maker(lambda ex, st, name: NONE, desc="None")
    return p_obj("_PptxContext", {"_namelist": p_alist("str"), "_core_root": none, "_presentation_root": none, "_presentation_rels_root": none,
                                  "_slide_roots": empty_dict(), "_slide_rels_roots": empty_dict(), "_comment_roots": empty_dict(),
                                  "_slide_order": order, "_slide_relationships": empty_dict()})


def load_xml_files_contract():
    """_PptxContext._load_xml_files (runs once, from __init__): afterwards the cached slide order IS the list `_compute_slide_order()`
    returned -- same length, same entries, same order; nothing is taken out of it or added to it on the way (a slide left out here is a
    slide without a unit and shifts every later slide number)."""
    from pyvc.ops import Unsupported

    def ens(c):
        got = c.st.ghost.get(_ORDER_KEY, ())
        if len(got) != 1:
            raise Unsupported(f"_compute_slide_order() is called {len(got)} times on this path: the clause is stated for one call")
        cur = _order_field(c.ex, c.st, c.args["self"])
        if cur is None:
            return z3.BoolVal(False)
        return _same_seq(cur, got[0])

    none = Maker(lambda ex, st, name: NONE, desc="None")
    return FnContract(
        target=f"{PPTX}::_PptxContext._load_xml_files",
        params=[("self", p_pptx_context(none))],
        ensures=[("cached-slide-order-is-the-computed-order-unchanged", ens)],
        raises=[Raises("Exception", sub=True, label="archive / XML failures (failure surface is C01's)")],
        modifies=("self",),
        note="self._slide_order == the list returned by self._compute_slide_order(), entry by entry",
    )


def slide_order_property_contract():
    """_PptxContext.slide_order (property read by read_pptx): the cached order when there is one, else the freshly computed one."""
    from pyvc.ops import Unsupported
    from pyvc.verify import p_opt

    def ens(c):
        got = c.st.ghost.get(_ORDER_KEY, ())
        r = c.ex._as_seq(c.st, c.result) if not isinstance(c.result, VUnk) else None
        if r is None:
            raise Unsupported(f"slide_order returns {c.result!r}: not a list the executor follows")
        old = _order_field(c.ex, c.entry, c.args["self"])
        if old is not None:
            return z3.And(z3.BoolVal(len(got) == 0), _same_seq(r, old))
        if len(got) != 1:
            raise Unsupported(f"_compute_slide_order() is called {len(got)} times on this path: the clause is stated for one call")
        return _same_seq(r, got[0])

    return FnContract(
        target=f"{PPTX}::_PptxContext.slide_order",
        params=[("self", p_pptx_context(p_opt(p_alist("str"))))],
        ensures=[("the-cached-order-else-the-computed-order-unchanged", ens)],
        raises=[],
        modifies=("self",),
        note="slide_order == self._slide_order if cached else self._compute_slide_order()",
    )


# ------------------------------------------------------------ opaque members --
def install_opaque():
    OP = X.UnitsExecutor.OPAQUE
    OP[("PptSlideContent", "text_combined")] = lambda ex, st, o, a, env: VStr(opaque("PptSlideContent", "text_combined")(o.t))
    OP[("OdpSlide", "text_combined")] = lambda ex, st, o, a, env: VStr(opaque("OdpSlide", "text_combined")(o.t))
    OP[("PptxSlide", "get_text")] = lambda ex, st, o, a, env: VStr(opaque("PptxSlide", "get_text", B)(o.t, ex.truth(st, env["include_image_captions"]).t))

    def xls_table(ex, st, o, a, env):
        n = fun("XlsSheet.get_table().len", ext_sort("XlsSheet"), I)(o.t)
        st.assume(n >= 0)
        rl = fun("XlsSheet.get_table().rowlen", ext_sort("XlsSheet"), I, I)
        cell = fun("XlsSheet.get_table().cell", ext_sort("XlsSheet"), I, I, ext_sort("Cell"))
        isnone = fun("Cell.is_none", ext_sort("Cell"), B)

        def row(r):
            return VSeq(z3.If(rl(o.t, r) < 0, 0, rl(o.t, r)), lambda k: VExt("Cell", cell(o.t, r, k)), ("obj", "Cell"))
        return VSeq(n, row, "row")
    OP[("XlsSheet", "get_table")] = xls_table


OVER = z3.Bool("pyvc!overapprox")     # same marker as contracts/c04_exec.py: assumed on every over-approximated path


def _untrusted(pc, goal):
    return any(z3.eq(x, OVER) for x in pc)


class C03Executor(ET.ETreeMixin, X.UnitsExecutor):
    """+ loops under an invariant are found by what they iterate (contract attribute `loop_finder`);
    + paths that went through an over-approximation (EXC-ANY call, loop cut without invariant) carry the marker OVER: a
      solver model on such a path is not a counter-example (the VC becomes `unknown`, the native replayer decides)."""

    # round 7: list concatenation / `+=` / insert(0, x) where one side has symbolic length (other ways of writing the part lists of
    # the slide text accessors)
    def _as_seq(self, st, v):
        if isinstance(v, VSeq):
            return v
        if isinstance(v, VRef):
            o = st.obj(v.ref)
            if o.kind == "alist":
                return o.data
            if o.kind == "list":
                items = list(o.data)
                kinds = {repr(X.ekind_of_value(x)) for x in items}
                ek = X.ekind_of_value(items[0]) if len(kinds) == 1 else "unk"
                return VSeq(z3.IntVal(len(items)), lambda k, items=items: X._sel(items, k), ek)
        return None

    def havoc_loop_state(self, st, body, spec, extra_names=()):
        # round 7: an EMPTY concrete list to which the loop body only appends string-typed expressions (f-strings, string constants)
        # is havocked to a sequence of strings, not to a sequence of unknowns (the element kind of `[]` is not known otherwise)
        by_ref = {}
        for b in body:
            for sub in ast.walk(b):
                if isinstance(sub, ast.Call) and isinstance(sub.func, ast.Attribute) and sub.func.attr in X.MUTATORS:
                    r = self._resolve(st, sub.func.value)
                    if isinstance(r, VRef):
                        ok = sub.func.attr == "append" and len(sub.args) == 1 and _str_typed(sub.args[0], self.cur_fn_stack[-1] if self.cur_fn_stack else None)
                        by_ref.setdefault(r.ref, []).append(ok)
        for ref, oks in by_ref.items():
            o = st.heap.get(ref)
            if o is not None and o.kind == "list" and o.data == [] and all(oks):
                st.heap[ref] = HeapObj("alist", VSeq(z3.IntVal(0), lambda k: VStr(z3.StringVal("")), "str"), None, o.fresh)
        return super().havoc_loop_state(st, body, spec, extra_names)

    def store_index(self, st, base, idx, v, node):
        # round 7: a store under a SYMBOLIC string key (caches keyed by part name): the mapping is forgotten (an object of unknown
        # content from here on), nothing else changes -- an over-approximation of the store
        if isinstance(base, VRef) and isinstance(idx, VStr) and idx.const() is None and st.obj(base.ref).kind in ("dict", "amap", "unk"):
            o = st.obj(base.ref)
            self.note_store(st, base.ref, node)
            st.heap[base.ref] = HeapObj("unk", None, o.cls, o.fresh)
            return [st]
        return super().store_index(st, base, idx, v, node)

    def amap_method(self, st, obj, name, args, kwargs, node):
        if name == "get" and args and isinstance(args[0], VStr):
            return [(st, VUnk("map.get"))]          # lookup under a string key in a mapping whose content is not tracked: any value
        return super().amap_method(st, obj, name, args, kwargs, node)

    def havoc_like(self, st, v, name):
        # round 7 (soundness): a name / attribute that held a LIST and is assigned in a cut loop may be bound to a different list
        # afterwards (`self.order = []` in the body); the generic havoc kept the old reference, i.e. the old content.  It now gets a
        # fresh list of the same element kind (lists that are only mutated in place are havocked separately, as before).
        if isinstance(v, VRef):
            o = st.heap.get(v.ref)
            if o is not None and o.kind in ("list", "alist") and o.data is not None:
                if o.kind == "alist":
                    ek = o.data.ekind
                else:
                    kinds = {repr(X.ekind_of_value(x)) for x in o.data}
                    ek = X.ekind_of_value(o.data[0]) if len(kinds) == 1 else "unk"
                sq = X.fresh_seq_like(ek, f"rebound.{name}")
                st.assume(sq.length >= 0)
                return self.new_alist(st, sq)
        return super().havoc_like(st, v, name)

    def b_collection(self, st, name, args, node):
        if name == "list" and len(args) == 1 and isinstance(args[0], VSeq) and args[0].ekind != "unk":
            return [(st, self.new_alist(st, args[0]))]          # list(<symbolic sequence>): a fresh mutable copy (may be appended to / inserted into)
        return super().b_collection(st, name, args, node)

    def binop(self, st, op, a, b, node, inplace=False):
        if op == "Add" and not isinstance(a, VUnk) and not isinstance(b, VUnk):
            sa, sb = self._as_seq(st, a), self._as_seq(st, b)
            symbolic = any(isinstance(x, VSeq) or (isinstance(x, VRef) and st.obj(x.ref).kind == "alist") for x in (a, b))
            if sa is not None and sb is not None and symbolic:
                if inplace and isinstance(a, VRef):
                    o = st.obj(a.ref)
                    for (s2, _v) in (self.alist_method if o.kind == "alist" else self.list_method)(st, a, "extend", [b], {}, node):
                        return [(s2, None)]
                r = self.new_alist(st, sa)
                out = self.alist_method(st, r, "extend", [b if not isinstance(b, VRef) or st.obj(b.ref).kind != "list" else sb], {}, node)
                return [(s2, r) for (s2, _v) in out]
        return super().binop(st, op, a, b, node, inplace)

    def alist_method(self, st, obj, name, args, kwargs, node):
        if name == "insert" and len(args) == 2 and isinstance(args[0], VInt) and args[0].const() == 0:
            o = st.obj(obj.ref)
            sq = o.data
            v = self.freeze(st, args[1])
            n0, old = sq.length, sq.elem
            if sq.ekind != "unk" and X.ekind_of_value(v) == sq.ekind:
                new = VSeq(z3.simplify(n0 + 1), lambda k, old=old, v=v: X._ite_val(k == 0, v, old(k - 1)), sq.ekind)
            else:
                new = VSeq(z3.simplify(n0 + 1), lambda k: VUnk("elem"), "unk")
            self.note_store(st, obj.ref, node)
            st.heap[obj.ref] = HeapObj("alist", new, None, o.fresh)
            return [(st, NONE)]
        return super().alist_method(st, obj, name, args, kwargs, node)

    def loop_spec(self, node):
        c = self.contract
        lf = getattr(c, "loop_finder", None) if c is not None else None
        if lf is not None and self.inline_depth == 0:
            fnode = self.cur_fn_stack[-1] if self.cur_fn_stack else None
            sp = lf(self, fnode, node) if fnode is not None else None
            if sp is not None:
                self._lf_hits = getattr(self, "_lf_hits", 0) + 1
            return sp
        return super().loop_spec(node)

    def exc_any(self, st, site, also=()):
        st.assume(OVER)
        return super().exc_any(st, site, also)

    def havoc_call(self, st, what, args, node):
        r = super().havoc_call(st, what, args, node)
        st.assume(OVER)
        return r

    filter_facts = True      # filtered comprehensions over symbolic sequences carry their order-preserving characterisation

    def symbolic_for(self, s, st, it):
        # a loop cut (with or without an invariant) replaces the loop-carried state by an arbitrary one: a VC refuted behind it shows
        # that the INVARIANT is not inductive / too weak for this code, not that the code is wrong -> candidate only (`unknown`),
        # the native replayer decides
        st.assume(OVER)
        self.tag_havoc(st, "state after a loop cut", s)
        return super().symbolic_for(s, st, it)


    def comp_value(self, st, v, node):
        # a unit object built by a comprehension is kept as its observation (real accessors executed), like a yielded unit
        if isinstance(v, VRef) and st.obj(v.ref).kind == "obj" and st.obj(v.ref).cls:
            mod = self.class_module(st.obj(v.ref).cls)
            cls = st.obj(v.ref).cls
            if mod is not None and self.find_method(mod, cls, "get_metadata") is not None and self.find_method(mod, cls, "get_text") is not None:
                pr = self.project_unit(st, v, node)
                if len(pr) == 1 and pr[0][0] is st:
                    return AUnit(pr[0][1], pr[0][2])
        return v

    def b_range(self, st, args, kwargs, node):
        # range(a, b, -1) with symbolic bounds: a, a-1, ..., b+1
        if len(args) == 3 and isinstance(args[2], VInt) and args[2].const() == -1 and (args[0].const() is None or args[1].const() is None):
            a, b = ops.int_term(args[0]), ops.int_term(args[1])
            return [(st, VSeq(z3.If(a - b > 0, a - b, 0), lambda k, a=a: VInt(a - k), "int"))]
        return super().b_range(st, args, kwargs, node)

    def b_any(self, st, args, kwargs, node):
        v = args[0]
        if isinstance(v, VRef) and st.obj(v.ref).kind == "alist":
            v = st.obj(v.ref).data
        if isinstance(v, VSeq) and isinstance(v.elem(K), VBool):
            return [(st, VBool(any_true(v)))]
        return super().b_any(st, args, kwargs, node)

    def b_map(self, st, args, kwargs, node):
        """map(f, xs) over a symbolic sequence == (f(x) for x in xs) when f is pure and single-valued there"""
        if len(args) == 2 and self.concrete_items(st, args[1]) is None and self.seq_view(st, args[1]) is not None:
            f = args[0]
            length, elem = self.seq_view(st, args[1])
            snap = st.fork()

            def at(k):
                s = snap.fork()
                self.sinks.append([])
                try:
                    r = self.call(s, f, [elem(k)], {}, node)
                finally:
                    sink = self.sinks.pop()
                if sink or len(r) != 1 or len(r[0][0].pc) != len(snap.pc):
                    raise X.Unsupported(f"{self.loc(node)} map() with a function that may raise / fork on the elements")
                v = r[0][1]
                return v if not isinstance(v, VRef) else self.comp_value(r[0][0], v, node)
            sample = at(K)
            if isinstance(sample, VRef):
                raise X.Unsupported(f"{self.loc(node)} map() producing heap objects")
            return [(st, VSeq(length, at, X.ekind_of_value(sample)))]
        return self.havoc_call(st, "map", args, node)

    def s_While(self, s, st):
        cache = self.__dict__.setdefault("_while_for", {})
        loop = cache.get(id(s)) or while_as_for(s)
        if loop is not None:
            v = st.lookup(loop._c03_index)
            if isinstance(v, VInt) and v.const() == 0:
                cache[id(s)] = loop          # one synthetic node per while statement (loop specs are cached per node)
                return self.s_For(loop, st)
        spec = self.loop_spec(s)
        if spec is None or (spec.inv is None and spec.unroll is None):
            st.assume(OVER)
        return super().s_While(s, st)

    def s_For(self, s, st):
        d = self._as_comprehension(s, st)
        if d is not None:
            return self.exec_stmt(d, st)
        return super().s_For(s, st)

    def _as_comprehension(self, s, st):
        """`for x in xs: [t = e;]* [if c:] L.append(E)` over a symbolic sequence and without an invariant of its own is executed
        as `L.extend([E for x in xs if c])` (locals t substituted): exact, and the comprehension model applies (PY-COMP)."""
        import copy
        if s.orelse or self.loop_spec(s) is not None or self._has_yield(s.body):
            return None
        body = list(s.body)
        temps = {}
        while body and isinstance(body[0], ast.Assign) and len(body[0].targets) == 1 and isinstance(body[0].targets[0], ast.Name) and len(body) > 1:
            temps[body[0].targets[0].id] = body[0].value
            body.pop(0)
        guards = []
        while len(body) > 1 and isinstance(body[0], ast.If) and not body[0].orelse and len(body[0].body) == 1 and isinstance(body[0].body[0], ast.Continue):
            t = body[0].test            # `if skip: continue` in front of the append == the append under `if not skip`
            guards.append(t.operand if isinstance(t, ast.UnaryOp) and isinstance(t.op, ast.Not) else ast.UnaryOp(ast.Not(), t))
            body.pop(0)
        if len(body) != 1:
            return None
        last, cond = body[0], None
        if isinstance(last, ast.If) and not last.orelse and len(last.body) == 1:
            cond, last = last.test, last.body[0]
        if not (isinstance(last, ast.Expr) and isinstance(last.value, ast.Call) and isinstance(last.value.func, ast.Attribute)
                and last.value.func.attr == "append" and len(last.value.args) == 1 and not last.value.keywords):
            return None
        L = last.value.func.value
        if not isinstance(L, (ast.Name, ast.Attribute)):
            return None
        tnames = {n.id for n in ast.walk(s.target) if isinstance(n, ast.Name)}
        used = {n.id for n in ast.walk(L) if isinstance(n, ast.Name)}
        if used & (tnames | set(temps)):
            return None
        if guards:
            cond = ast.BoolOp(ast.And(), guards + ([cond] if cond is not None else [])) if len(guards) + (cond is not None) > 1 else guards[0]
        for e in list(temps.values()) + [last.value.args[0]] + ([cond] if cond is not None else []):
            if any(isinstance(n, (ast.Yield, ast.YieldFrom, ast.NamedExpr, ast.Await, ast.Lambda)) for n in ast.walk(e)):
                return None
        probe = ast.ListComp(ast.Name("_", ast.Load()), [ast.comprehension(s.target, s.iter, [], 0)])
        ast.copy_location(probe, s)
        ast.fix_missing_locations(probe)
        if self._probe_iter(probe, st) is None:
            return None

        class Sub(ast.NodeTransformer):
            def visit_Name(self, node):
                if isinstance(node.ctx, ast.Load) and node.id in temps:
                    return self.visit(copy.deepcopy(temps[node.id]))
                return node
        E = Sub().visit(copy.deepcopy(last.value.args[0]))
        ifs = [Sub().visit(copy.deepcopy(cond))] if cond is not None else []
        comp = ast.ListComp(E, [ast.comprehension(copy.deepcopy(s.target), copy.deepcopy(s.iter), ifs, 0)])
        call = ast.Expr(ast.Call(ast.Attribute(copy.deepcopy(L), "extend", ast.Load()), [comp], []))
        ast.copy_location(call, s)
        ast.fix_missing_locations(call)
        return call

    def e_YieldFrom(self, n, st):
        v = n.value
        if not isinstance(v, (ast.GeneratorExp, ast.ListComp)):
            # round 8: `yield from xs` over a symbolic sequence whose elements are not units already == `for x in xs: yield x`
            # (plain iterables: nothing is sent into / thrown at the delegate here); the loop is then found by what it iterates
            probe = ast.GeneratorExp(ast.Name("_c03_y", ast.Load()), [ast.comprehension(ast.Name("_c03_y", ast.Store()), v, [], 0)])
            ast.copy_location(probe, n)
            ast.fix_missing_locations(probe)
            view = self._probe_iter(probe, st)
            if view is not None and not isinstance(view[1](K), AUnit):
                v = probe
        if isinstance(v, (ast.GeneratorExp, ast.ListComp)) and len(v.generators) == 1 and self._probe_iter(v, st) is not None:
            g = v.generators[0]
            body = ast.Expr(ast.Yield(v.elt))
            for cond in reversed(g.ifs):
                body = ast.If(cond, [body], [])
            loop = ast.For(g.target, g.iter, [body], [])
            ast.copy_location(loop, n)
            ast.fix_missing_locations(loop)
            outs = self.s_For(loop, st)
            res = []
            for o in outs:
                if o.kind == "fall":
                    res.append((o.st, NONE))
                elif o.kind == "raise":
                    self.raise_in(o.st, o.val)
                else:
                    raise X.Unsupported(f"{self.loc(n)} {o.kind} out of a comprehension")
            return res
        return super().e_YieldFrom(n, st)

    def compare(self, st, op, a, b, node):
        # `cell is None` on an abstract cell value
        if op in ("Is", "IsNot") and isinstance(a, VExt) and a.sort == "Cell" and b is NONE:
            t = fun("Cell.is_none", ext_sort("Cell"), B)(a.t)
            return [(st, VBool(t if op == "Is" else z3.Not(t)))]
        return super().compare(st, op, a, b, node)


MBOX = "sharepoint2text/parsing/extractors/mail/mbox_email_extractor.py"
EML_MOD = "sharepoint2text/parsing/extractors/mail/eml_email_extractor.py"


def EXECUTOR(module, reg, uni, **kw):
    """Executor per module under verification: the mailbox splitter is verified with C16's executor (bytes of symbolic
    length, re.finditer model) under C16's contract, which C03 shares (message boundaries are part of both properties)."""
    if module.rel in (MBOX, EML_MOD):
        return _mail_executor()(module, reg, uni, **kw)
    return C03Executor(module, reg, uni, **kw)


_MAIL_EXEC = []


def _has_ite(t):
    seen, stack = set(), [t]
    while stack:
        x = stack.pop()
        if x.get_id() in seen:
            continue
        seen.add(x.get_id())
        if z3.is_app(x):
            if x.decl().kind() == z3.Z3_OP_ITE:
                return True
            stack.extend(x.children())
    return False


def _mail_executor():
    if not _MAIL_EXEC:
        from contracts import c16_exec
        from pyvc.values import VBytes, VTuple, VInt
        from pyvc.state import Frame
        from pyvc.ops import Unsupported
        fld_, I_ = fld, I

        class C03MailExecutor(c16_exec.MailExecutor):
            """bytes literals given to startswith/endswith on a (latin-1 modelled) byte string"""

            def str_method(self, st, s, name, args, kwargs, node):
                if name in ("startswith", "endswith") and args:
                    def conv(a):
                        if isinstance(a, VBytes):
                            return VStr(c16_exec.bytes_term(a))
                        if isinstance(a, VTuple):
                            return VTuple([conv(x) for x in a.items])
                        return a
                    args = [conv(args[0])] + list(args[1:])
                return super().str_method(st, s, name, args, kwargs, node)

            def _sym_comp(self, n, st, elt_nodes):
                view = self._probe_iter(n, st)
                if view is None:
                    return None
                g = n.generators[0]
                (st, _it) = self.ev(g.iter, st)[0]
                length, elem = view
                snap = st.fork()

                def at(k):
                    """-> (keep Bool term, element value, [assumption terms of that evaluation])  at index term k."""
                    s = snap.fork()
                    npc = len(s.pc)
                    s.frames.append(Frame({}, len(s.frames) - 1, s.frame.fnode))
                    self.sinks.append([])
                    try:
                        cur = self.assign(g.target, elem(k), s)
                        if len(cur) != 1:
                            raise Unsupported(f"{self.loc(n)} forking comprehension target")
                        s1 = cur[0]
                        keep = []
                        for cond in g.ifs:
                            r = self.ev(cond, s1)
                            if len(r) != 1:
                                raise Unsupported(f"{self.loc(n)} forking comprehension condition")
                            s1, cv = r[0]
                            keep.append(self.truth(s1, cv).t)
                        if len(elt_nodes) != 1:
                            raise Unsupported(f"{self.loc(n)} multi-valued comprehension")
                        r = self.ev(elt_nodes[0], s1)
                        if len(r) != 1:
                            raise Unsupported(f"{self.loc(n)} forking comprehension element")
                        s1, v = r[0]
                    finally:
                        sink = self.sinks.pop()
                    if sink:
                        raise Unsupported(f"{self.loc(n)} comprehension element may raise")
                    return z3.And(keep + [z3.BoolVal(True)]), v, s1, list(s1.pc[npc:])

                J = z3.Int(fresh_name("j!comp"))
                keepJ, vJ, sJ, extraJ = at(J)
                # extraJ: assumptions made by library models while the element was evaluated (instances of assumed contracts such as
                # the ordering facts of re.finditer matches).  Forks and possible exceptions were excluded above, so these are facts about
                # the element at index J, not branch conditions; they are kept as a quantified fact triggered by the element term.
                if extraJ and hasattr(vJ, "t") and z3.is_app(vJ.t) and vJ.t.num_args() > 0:
                    body_ = z3.Implies(z3.And(J >= 0, J < length), z3.And(extraJ))
                    if _has_ite(vJ.t):
                        st.assume(z3.ForAll([J], body_))
                    else:
                        st.assume(z3.ForAll([J], body_, patterns=[vJ.t]))
                # element as a function of the index
                if isinstance(vJ, VRef):
                    o = sJ.obj(vJ.ref)
                    sch = self.schema(o.cls) if o.kind == "obj" and o.cls else None
                    if sch is None:
                        raise Unsupported(f"{self.loc(n)} comprehension element is a heap object without schema")
                    ef = z3.Function(fresh_name(f"comp_{o.cls}"), I, ext_sort(o.cls))
                    facts = []
                    for f, kind in sch.items():
                        cur = o.data.get(f)
                        if kind in ("str", "int", "bool") and isinstance(cur, (VStr, VInt, VBool)):
                            facts.append(ops.eq_term(X._val(kind, fld(o.cls, f, X._sort_of_kind(kind))(ef(J))), cur))
                    if facts:
                        st.assume(z3.ForAll([J], z3.And(facts), patterns=[ef(J)]))
                    ekind = ("obj", o.cls)
                    cls = o.cls

                    def el(k, ef=ef, cls=cls):
                        return VExt(cls, ef(k))
                elif isinstance(vJ, (VStr, VInt, VBool, VExt)):
                    ekind = X.ekind_of_value(vJ)

                    def el(k):
                        return at(k)[1]
                else:
                    raise Unsupported(f"{self.loc(n)} comprehension element {vJ!r}")
                if not g.ifs:
                    return st, VSeq(length, el, ekind, tag=("map", length, el))
                # filtered: an order-preserving sub-sequence, described by (source length, keep, element)
                ln = z3.Int(fresh_name("filter.len"))
                st.assume(z3.And(ln >= 0, ln <= length))
                es = X._sort_of_kind(ekind)
                arr = z3.Const(fresh_name("filter.at"), z3.ArraySort(I, es))
                keep_fn = lambda k: at(k)[0]
                return st, VSeq(ln, lambda k: X._val(ekind, z3.Select(arr, k)), ekind, tag=("filtermap", length, keep_fn, el))

        _MAIL_EXEC.append(C03MailExecutor)
    return _MAIL_EXEC[0]


def contracts(reg):
    from contracts import c16_exec
    c16_exec.install(reg)          # finditer / Match model for the mailbox splitter (calls X.install as well)
    X.install(reg)
    install_opaque()

    def join_or_unknown(ex, st, args, kwargs, node):
        # round 7: a join over a value the executor does not follow (a slice of an unmodelled rsplit) is an unknown string
        # (EXC-ANY call: tagged path), not the end of the function's verification
        if len(args) > 1 and isinstance(args[1], VUnk):
            return ex.havoc_call(st, "str.join", [], node)
        return X.m_join(ex, st, args, kwargs, node)
    out = []
    for cls, p in SPEC.items():
        out.append(rtf_contract() if cls == "RtfContent" else paged_contract(p))
    for cls in SINGLE:
        out.append(single_contract(cls))
    for cls in FULLTEXT_FROM_UNITS:
        out.append(fulltext_contract(cls))
    out.append(join_contract())
    out.append(build_slides_contract())
    out.append(parse_ppt_contract())
    out.append(distribute_images_contract())
    out.extend(assumed_ppt_parsers())
    out.append(flush_page_contract())
    ET.install(reg)
    out.append(parse_spine_contract())
    out.append(last_data_row_contract())
    out.append(last_data_column_contract())
    out.append(cell_non_empty_contract())
    out.append(text_combined_contract("PptSlideContent", True))
    out.append(text_combined_contract("OdpSlide", False))
    out.append(pptx_get_text_contract())
    out.append(load_xml_files_contract())
    out.append(slide_order_property_contract())
    out.extend(pptx_order_views())
    # e-mail glue shared with C16 (message boundaries and the body text that becomes the unit are part of both properties): the
    # mailbox splitter and the .eml body assembly are verified here under C16's contracts (with C16's
    # executor, see EXECUTOR); C16's remaining contracts are only registered, so that calls inside these functions use them
    from contracts import C16
    shared = ("::_split_mbox_messages", "::_read_eml_format", "::read_mbox_format_mail")      # (get_body_content's first-part rule is C16's claim, not C03's: see the
    #                                                                 recorded finding C03-mbox-later-inline-parts-dropped)
    for c16c in C16.contracts(reg):
        if c16c.target.endswith(shared):
            if c16c.target.endswith("::_read_eml_format"):
                # C03 needs the clauses about the body text that becomes the unit; headers / addresses / attachments stay C16's
                import dataclasses
                c16c = dataclasses.replace(c16c, ensures=[(l, f) for (l, f) in c16c.ensures if l.startswith("body_")], loops={})     # (attachment loop: cut without invariant)
            out.append(c16c)
        elif reg.get(c16c.target) is None:
            reg.add(c16c)
    install_re(reg)
    reg.ext_models["str.join"] = join_or_unknown       # (last: the shared installers above register the plain model again)
    from pyvc import solve as _solve
    if _untrusted not in _solve.SAT_UNTRUSTED:
        _solve.SAT_UNTRUSTED.append(_untrusted)
    for c in out:
        _make_safe(c)
    return out


def _safe(fn):
    """A clause that cannot read the state it is given (a list the code now builds differently, a local that no longer exists)
    is not a verdict about the code: OUT-OF-SUBSET (-> native replay decides), never an engine error."""
    if fn is None or getattr(fn, "_c03_safe", False):
        return fn

    def g(*a, **k):
        try:
            return fn(*a, **k)
        except (AttributeError, KeyError, TypeError, IndexError, z3.Z3Exception) as e:
            from pyvc.ops import Unsupported
            raise Unsupported(f"contract clause cannot interpret the state reached by the code: {type(e).__name__}: {e}")
    g._c03_safe = True
    return g


def _has_contract_loop(ex, c, fnode):
    for n in ast.walk(fnode):
        if isinstance(n, (ast.For, ast.While)) and c.loop_finder(ex, fnode, n) is not None:
            return True
        if isinstance(n, ast.While):
            w = while_as_for(n)
            if w is not None and c.loop_finder(ex, fnode, w) is not None:
                return True
        if isinstance(n, ast.YieldFrom):
            loop = ast.For(ast.Name("_", ast.Store()), n.value, [ast.Pass()], [])
            if c.loop_finder(ex, fnode, loop) is not None:
                return True
    return False


def _make_safe(c):
    if c.assumed:
        return
    c.requires, c.hyps = _safe(c.requires), _safe(c.hyps)
    c.ensures = [(l, _safe(f)) for (l, f) in c.ensures]
    if getattr(c, "loop_finder", None) is not None:
        h0 = c.hyps

        def hyps(cx, h0=h0, c=c):
            # the invariant is stated for the loop that walks the source list; code that no longer has such a loop (moved into a
            # helper, became a while loop, ...) is outside what this contract can follow: the FUNCTION is OUT-OF-SUBSET and the
            # native replayer decides
            fnode = cx.ex.module.functions.get(c.target.split("::")[1]) if cx.ex.contract is c else None
            if fnode is not None and not _has_contract_loop(cx.ex, c, fnode) and not getattr(c, "loop_optional", False):
                from pyvc.ops import Unsupported
                raise Unsupported("the loop over the source sequence, for which the invariant is stated, was not found in this function")
            return h0(cx) if h0 is not None else z3.BoolVal(True)
        hyps._c03_safe = True
        c.hyps = hyps
    if getattr(c, "loop_obligations", None) and c.ensures:
        l0, f0 = c.ensures[0]

        def first(cx, f0=f0, c=c):
            # The invariant obligations are proof steps of the loop form.  A version of the function that reaches the same
            # ensures without such a loop (comprehension, `yield from <sequence>`, helper) does not generate them; their ids are
            # kept (trivially true, marked) so that the obligation set does not depend on how the traversal is written.  The
            # claims themselves (ensures) are discharged as always.
            if cx.ex.contract is c:
                for kind_, lab_ in c.loop_obligations:
                    if f"{cx.ex.oid_prefix}/{kind_}#{lab_}" not in cx.ex.obls:
                        cx.ex.add_vc(kind_, lab_, [], z3.BoolVal(True), note="not applicable: no invariant-cut loop on this path (ensures proved without it)")
            return f0(cx)
        first._c03_safe = True
        c.ensures[0] = (l0, first)
    for spec in list(c.loops.values()):
        spec.inv = _safe(spec.inv)
    lf = getattr(c, "loop_finder", None)
    if lf is not None:
        def lf2(ex, fnode, node, lf=lf):
            sp = lf(ex, fnode, node)
            if sp is not None:
                sp.inv = _safe(sp.inv)
            return sp
        c.loop_finder = lf2


from contracts import c03_flow  # noqa: E402

from contracts import c03_sections  # noqa: E402
from contracts import c03_docx  # noqa: E402

EXTRA = [c03_flow.construction_sites, c03_flow.independence_sites, c03_flow.slide_text_navigation, c03_flow.heading_iterators, c03_docx.obligations, c03_sections.odt_step, c03_sections.native_sections,
         c03_sections.native_documents, c03_sections.slide_text_fragments]
known_findings = c03_sections.known_findings
REPLAY_UNKNOWN = True    # an obligation the solver leaves unknown is searched natively (replay/C03.py) before it is reported undecided


TRUSTED = ["observation of a unit = (get_metadata().unit_number, get_text()) computed by the real accessor methods",
           "record parsers of the PowerPoint stream (_extract_slide_list_texts, _parse_containers, _extract_all_text_raw) return "
           "arbitrary well-typed lists or raise (assumed contracts; their content is C02's)",
           "construction-site and heading-iterator obligations with back end `dataflow` are decided by per-iteration event counting "
           "on the AST (contracts/c03_flow.py); an unrecognised shape is UNDECIDED"]
ASSUMED_MODELS = ["xml.etree Element.find/findall/get (contracts/etree_model.py: direct children with a tag, in document order)",
                  "re finditer / Match.start / Match.end (contracts/c16_exec.py: ordered, non-overlapping, non-empty matches inside the data)",
                  "str.strip (uninterpreted)", "str.join over a symbolic-length sequence (uninterpreted function of separator, element function, length)",
                  "XlsSheet.get_table: pure function of the instance (purity obligation only; feeds the unit's tables, not its text or number)",
                  "call-site names `PptSlideContent.text_combined()(slide)`, `OdpSlide.text_combined()(slide)`, `PptxSlide.get_text()(slide, flag)` in the "
                  "iterate_units specs: functions of the instance (and flag) alone -- no longer an assumption about the code: implied by the "
                  "VERIFIED contracts of these three functions (round 7), which give the value as a join over the instance's fields",
                  "zipfile / XML parser behind ZipContext.read_xml_root (returns some element or raises), used by _PptxContext._load_xml_files",
                  "call-site view of _PptxContext._compute_slide_order inside _load_xml_files / slide_order: returns a finite list of str (its "
                  "annotation); that its content is the sldIdLst document order is the dataflow construction obligation, not assumed here"]
NOT_CLAIMED = ["coverage of the body by the heading-section units: discharged only as the one-paragraph step contract of OdtContent.iterate_units "
               "(contracts/c03_sections.py::odt_step); for doc / docx (and the end-to-end effect for odt) there is only the BOUNDED native "
               "section scope, and docx documents with body text before the first heading or with a heading without text are recorded "
               "findings (C03-docx-body-before-first-heading, C03-docx-heading-without-text) excluded from that scope; that a docx section is dropped only "
               "under a deeper heading is a z3 contract (contracts/c03_docx.py), for odt the heading of a body-less section is lost (recorded finding "
               "C03-odt-heading-of-empty-section-lost, the heading-path clause is switched off for those headings only)",
               "get_full_text of ppt/xls/rtf/doc/docx/odt (the statement lists eleven formats; these six are documented otherwise)",
               "that the text of element k is complete is discharged only for odp / pptx slide text (fragment contracts shared with C02) and the "
               ".eml body (contract shared with C16); for the other formats it is covered by the BOUNDED generated-document scope only "
               "(C02 owns the unbounded claim).  Recorded finding: mbox keeps only the first inline text part (C03-mbox-later-inline-parts-dropped)"]
ASSUMPTIONS = ["DT-TYPED: fields of the content dataclasses hold values of their declared types (lists are finite)",
               "class invariant used for the position clause of stored-number types (ppt/pptx/odp: slide_number == position; epub: "
               "chapter numbers strictly increasing from >= 1) is established at the construction sites (part d) and assumed for "
               "hand-built or deserialised content objects",
               "str() of a spreadsheet cell value is total",
               "PY-RE: compiled-pattern .sub is total and uninterpreted",
               "PY-GEN: generator = procedure appending to the ghost sequence of unit observations",
               "PY-STR", "PY-EXC / EXC-ANY"]
BOUNDED = ["C03/replay::generated-documents[documents:<format>]/bounded#units-mirror-the-generated-document.BOUNDED (pdf, pptx, odp, epub, rtf, xlsx, "
           "ods, eml, mbox, ppt, txt, html): small generated documents read with the real extractor -- unit per element at its source "
           "position, every generated text token exactly once and in the unit of its element, full text == joined unit texts; the bounds are "
           "listed per obligation in the evidence (never counted as discharged)",
           "C03/replay::heading-sections[DocContent|DocxContent|OdtContent]/bounded#body-text-in-the-unit-of-its-section.BOUNDED: every document of "
           "<= 5 paragraphs over {h1, h2 (fixed, hence repeated, texts), heading without text, body paragraph with distinct / repeated text, "
           "empty paragraph}, docx / odt also over {h1, h2, h3 with texts of their own, body paragraph} with the heading-path clause, built natively and "
           "compared with the section spec of replay/C03.py (never counted as discharged)"]
