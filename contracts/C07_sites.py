"""C07 -- callers of the archive member contracts (dataflow on the real AST, one obligation per archive format).

Claim per member loop: the pair (member name, base name) that `_should_skip_file` tests is the pair the member is dispatched
under (`_process_archive_entry(name, _, _, base)`), the base name is `os.path.basename(name)`, and a dispatch (or the append
to the work list the dispatch loop iterates) is dominated by a False outcome of the skip rule for exactly that pair.

Nothing here depends on the *names* of locals or on the textual form of a guard: expressions are compared after copy
propagation (a local bound exactly once, by a top-level statement of the member loop, is replaced by its initialiser --
tuple assignments element-wise), guards are recognised up to negation (`not`, `is False`, `== False`, `if/else` swapped), and
work-list tuples are matched by position.  Whatever is not recognised is reported `unknown` (definite=False): the native
archive replay decides; nothing is ever reported proved on a shape this analysis does not understand."""
import ast

from pyvc import loader
from pyvc.flow import MustFacts, dotted, ground_obligation

ARCH = "sharepoint2text/parsing/extractors/archive_extractor.py"
EXTRACTORS = ("_extract_from_zip_optimized", "_extract_from_tar_optimized", "_extract_from_7z_optimized")
SKIP, DISPATCH = "_should_skip_file", "_process_archive_entry"


class Unrecognised(Exception):
    pass


def _stores(scope, name):
    return [n for n in ast.walk(scope) if isinstance(n, ast.Name) and n.id == name and isinstance(n.ctx, (ast.Store, ast.Del))]


class Scope:
    """copy propagation inside one loop: `defs[name] = (index of the top-level statement, initialiser)` for every local that
    is stored exactly once in the loop, by a plain (possibly tuple) assignment that is a top-level statement of the loop body"""

    def __init__(self, loop, canon):
        self.loop, self.canon = loop, canon
        self.defs = {}
        self.index = {}
        for i, s in enumerate(loop.body):
            for n in ast.walk(s):
                self.index[id(n)] = i
            if isinstance(s, ast.Assign) and len(s.targets) == 1:
                t, v = s.targets[0], s.value
                pairs = []
                if isinstance(t, ast.Name):
                    pairs = [(t, v)]
                elif isinstance(t, ast.Tuple) and isinstance(v, ast.Tuple) and len(t.elts) == len(v.elts) and all(isinstance(x, ast.Name) for x in t.elts):
                    # a, b = x, y  (no swap: no target may occur on the right)
                    tn = {x.id for x in t.elts}
                    if not any(isinstance(y, ast.Name) and y.id in tn for e in v.elts for y in ast.walk(e)):
                        pairs = list(zip(t.elts, v.elts))
                for (tt, vv) in pairs:
                    if len(_stores(loop, tt.id)) == 1:
                        self.defs[tt.id] = (i, vv)
            elif isinstance(s, ast.AnnAssign) and isinstance(s.target, ast.Name) and s.value is not None and len(_stores(loop, s.target.id)) == 1:
                self.defs[s.target.id] = (i, s.value)

    def resolve(self, e, at, depth=0):
        """canonical text of expression `e` used in top-level statement number `at` of the loop"""
        if depth > 8:
            raise Unrecognised("copy propagation too deep")
        if isinstance(e, ast.Name):
            d = self.defs.get(e.id)
            if d is not None and d[0] < at:
                return self.resolve(d[1], d[0], depth + 1)
            if d is None and _stores(self.loop, e.id) and not self._is_loop_target(e.id):
                raise Unrecognised(f"`{e.id}` is bound more than once / conditionally in the member loop")
            if d is not None:
                raise Unrecognised(f"`{e.id}` is used before its binding")
            return e.id
        if isinstance(e, ast.Attribute):
            return f"{self.resolve(e.value, at, depth + 1)}.{e.attr}"
        if isinstance(e, ast.Call) and not e.keywords and not any(isinstance(a, ast.Starred) for a in e.args):
            c = self.canon(e)
            if c:
                return f"{c}({', '.join(self.resolve(a, at, depth + 1) for a in e.args)})"
        if isinstance(e, ast.Constant):
            return repr(e.value)
        raise Unrecognised(f"expression `{ast.unparse(e)}` not understood")

    def _is_loop_target(self, name):
        return any(isinstance(n, ast.Name) and n.id == name for n in ast.walk(self.loop.target)) and len(_stores(self.loop, name)) == 1

    def at(self, node):
        return self.index.get(id(node))


def _polarity(test, call):
    """+1 if `test` is true exactly when `call` (the skip-rule call node) is true, -1 if exactly when it is false, else 0"""
    if test is call:
        return 1
    if isinstance(test, ast.UnaryOp) and isinstance(test.op, ast.Not):
        return -_polarity(test.operand, call)
    if isinstance(test, ast.Compare) and len(test.ops) == 1 and isinstance(test.comparators[0], ast.Constant) \
            and isinstance(test.comparators[0].value, bool) and isinstance(test.ops[0], (ast.Is, ast.Eq, ast.IsNot, ast.NotEq)):
        p = _polarity(test.left, call)
        same = test.comparators[0].value is True
        if isinstance(test.ops[0], (ast.IsNot, ast.NotEq)):
            same = not same
        return p if same else -p
    if isinstance(test, ast.Call) and dotted(test.func) == "bool" and len(test.args) == 1 and not test.keywords:
        return _polarity(test.args[0], call)
    return 0


def member_sites(repo, fns):
    arch = loader.module(ARCH, repo)

    def canon(call):
        d = dotted(call.func)
        if not d:
            return ""
        head, _, rest = d.partition(".")
        origin = arch.imports.get(head)
        return (origin + ("." + rest if rest else "")) if origin else d

    out = []
    for q in EXTRACTORS:
        oid = f"C07/archive_extractor.py::{q}/call-site#skip-rule-and-dispatch-see-the-same-member-name"
        f = arch.functions.get(q)
        if f is None:
            out.append(ground_obligation(oid, False, "function missing (renamed / merged?)", ARCH, definite=False))
            continue
        try:
            why, n_disp = _one(arch, f, canon, fns)
        except Unrecognised as e:
            why, n_disp = [str(e)], 0
        except (AttributeError, IndexError, KeyError, TypeError, ValueError) as e:      # shape mismatch inside this analysis
            why, n_disp = [f"shape not recognised ({type(e).__name__}: {e})"], 0
        out.append(ground_obligation(oid, not why, "; ".join(why)[:400] or f"{n_disp} dispatch site(s)", ARCH, definite=False))
        fns.append(dict(arch.fn_info(q), obligations=1))
    return out


def _one(arch, f, canon, fns):
    why = []
    skips = [n for n in ast.walk(f) if isinstance(n, ast.Call) and dotted(n.func) == SKIP]
    if len(skips) != 1 or len(skips[0].args) != 2 or skips[0].keywords:
        raise Unrecognised(f"{len(skips)} skip-rule calls in the function (expected one, two positional arguments)")
    skip = skips[0]
    loops = [l for l in ast.walk(f) if isinstance(l, ast.For) and any(x is skip for x in ast.walk(l))]
    if not loops:
        raise Unrecognised("skip rule not inside a member loop")
    loop = loops[-1]                         # innermost enclosing loop = the member loop
    sc = Scope(loop, canon)
    at = sc.at(skip)
    A, B = sc.resolve(skip.args[0], at), sc.resolve(skip.args[1], at)
    if B != f"os.path.basename({A})":
        why.append(f"skip rule tests base name `{B}`, which is not os.path.basename of the tested member name `{A}`")
    in_loop = {id(x) for x in ast.walk(loop)}
    mentioned = {n.id for a in skip.args for n in ast.walk(a) if isinstance(n, ast.Name)}

    def gen_cond(test, branch):
        p = _polarity(test, skip)
        if (p == -1 and branch is True) or (p == 1 and branch is False):
            return ["selected"]
        return []

    worklists = {}

    def site_pair(call):
        """resolved (name, base) of a dispatch inside the member loop, or None"""
        if len(call.args) != 4 or call.keywords:
            return None
        k = sc.at(call)
        return sc.resolve(call.args[0], k), sc.resolve(call.args[3], k)

    def via_helper(call):
        """in-loop call of a same-module helper that dispatches its own parameters: `g(.., name, .., base, ..)` with
        `_process_archive_entry(p, _, _, q)` inside g for unmodified parameters p, q -> the argument expressions bound to
        (p, q) for every dispatch inside g; None if g is not such a helper"""
        g = arch.functions.get(dotted(call.func))
        if g is None or dotted(call.func) in (SKIP, DISPATCH):
            return None
        inner = [n for n in ast.walk(g) if isinstance(n, ast.Call) and dotted(n.func) == DISPATCH]
        if not inner:
            return None
        params = [a.arg for a in g.args.posonlyargs + g.args.args]
        if g.args.vararg or g.args.kwarg or any(isinstance(a, ast.Starred) for a in call.args) or any(k.arg is None for k in call.keywords):
            raise Unrecognised(f"line {call.lineno}: helper {g.name} called with star arguments")
        bound = dict(zip(params, call.args))
        bound.update({k.arg: k.value for k in call.keywords})
        pairs = []
        for c2 in inner:
            if len(c2.args) != 4 or c2.keywords or not all(isinstance(c2.args[i], ast.Name) for i in (0, 3)):
                raise Unrecognised(f"line {c2.lineno}: dispatch inside helper {g.name} does not pass plain parameters")
            p_, q_ = c2.args[0].id, c2.args[3].id
            if p_ not in bound or q_ not in bound or _stores(g, p_) or _stores(g, q_):
                return None       # not parameters handed through unchanged (e.g. a work-list consumer: handled elsewhere)
            pairs.append((bound[p_], bound[q_]))
        return pairs

    def need(n):
        if not isinstance(n, ast.Call) or id(n) not in in_loop:
            return []
        d = dotted(n.func)
        if d in arch.functions and d not in (SKIP, DISPATCH):
            try:
                if via_helper(n):
                    return [("selected", f"line {n.lineno}: member dispatch through {d}")]
            except Unrecognised:
                return [("selected", f"line {n.lineno}: member dispatch through {d}")]
        if d == DISPATCH:
            return [("selected", f"line {n.lineno}: member dispatch")]
        if d.endswith(".append") and len(n.args) == 1 and isinstance(n.args[0], ast.Tuple):
            try:
                els = [sc.resolve(x, sc.at(n)) for x in n.args[0].elts]
            except Unrecognised:
                return []
            if A in els:
                worklists.setdefault(d[:-7], []).append((n, els))
                return [("selected", f"line {n.lineno}: append to work list {d[:-7]}")]
        return []

    res = MustFacts(gen_cond=gen_cond, need=need, kill_names=lambda fact: sorted(mentioned)).run(f)
    why += [r.desc + " is not dominated by a False outcome of the skip rule" for r in res if not r.ok]
    n_disp = 0
    for call in [n for n in ast.walk(f) if isinstance(n, ast.Call) and dotted(n.func) == DISPATCH]:
        n_disp += 1
        if id(call) in in_loop:
            pair = site_pair(call)
            if pair is None:
                why.append(f"line {call.lineno}: dispatch arguments not four positionals")
            elif pair != (A, B):
                why.append(f"line {call.lineno}: dispatched as ({pair[0]}, {pair[1]}), skip rule tested ({A}, {B})")
        else:
            _consumer(f, call, worklists, A, B, why)
    # 7z: the work list is handed to a helper that dispatches per entry; any format: the dispatch sits in a per-member helper
    for call in [n for n in ast.walk(f) if isinstance(n, ast.Call) and dotted(n.func) in arch.functions and dotted(n.func) not in (SKIP, DISPATCH)]:
        g = arch.functions[dotted(call.func)]
        inner = [n for n in ast.walk(g) if isinstance(n, ast.Call) and dotted(n.func) == DISPATCH]
        if not inner:
            continue
        if id(call) in in_loop:
            pairs = via_helper(call)
            if pairs:
                k = sc.at(call)
                for (x_, y_) in pairs:
                    n_disp += 1
                    got = (sc.resolve(x_, k), sc.resolve(y_, k))
                    if got != (A, B):
                        why.append(f"line {call.lineno}: {g.name} dispatches ({got[0]}, {got[1]}), skip rule tested ({A}, {B})")
                fns.append(dict(arch.fn_info(dotted(call.func)), obligations=1))
                continue
        params = [a.arg for a in g.args.args]
        passed = {}
        for i, a in enumerate(call.args):
            if isinstance(a, ast.Name) and a.id in worklists and i < len(params):
                passed[params[i]] = worklists[a.id]
        for kw in call.keywords:
            if isinstance(kw.value, ast.Name) and kw.value.id in worklists and kw.arg in params:
                passed[kw.arg] = worklists[kw.value.id]
        if not passed:
            why.append(f"line {call.lineno}: {dotted(call.func)} dispatches members but does not receive the selection work list")
            continue
        for c2 in inner:
            n_disp += 1
            _consumer(g, c2, passed, A, B, why)
        fns.append(dict(arch.fn_info(dotted(call.func)), obligations=1))
    if n_disp == 0:
        why.append("no member dispatch found")
    for wl in worklists:
        if len(_stores(f, wl)) != 1:
            why.append(f"work list {wl} is bound {len(_stores(f, wl))} times")
    return why, n_disp


def _consumer(f, call, worklists, A, B, why):
    """`call` = _process_archive_entry(X, _, _, Y) inside `for (..) in <work list>`: X and Y are the loop's own tuple fields, at
    the positions where every append stored the tested (name, base name) pair."""
    if len(call.args) != 4 or call.keywords or not isinstance(call.args[0], ast.Name) or not isinstance(call.args[3], ast.Name):
        why.append(f"line {call.lineno}: dispatch arguments are not plain work-list fields")
        return
    x, y = call.args[0].id, call.args[3].id
    loops = [l for l in ast.walk(f) if isinstance(l, ast.For) and any(n is call for n in ast.walk(l))
             and isinstance(l.iter, ast.Name) and l.iter.id in worklists and isinstance(l.target, ast.Tuple)]
    if not loops:
        why.append(f"line {call.lineno}: dispatch outside a loop over the selection work list")
        return
    l = loops[-1]
    tn = [t.id if isinstance(t, ast.Name) else None for t in l.target.elts]
    if x not in tn or y not in tn or len(_stores(l, x)) != 1 or len(_stores(l, y)) != 1:
        why.append(f"line {call.lineno}: dispatch arguments are not the loop's own (unmodified) tuple fields")
        return
    ix, iy = tn.index(x), tn.index(y)
    for (app, els) in worklists[l.iter.id]:
        if len(els) != len(tn) or els[ix] != A or els[iy] != B:
            why.append(f"line {call.lineno}: work-list positions ({ix},{iy}) hold ({els[ix] if ix < len(els) else '?'}, "
                       f"{els[iy] if iy < len(els) else '?'}), skip rule tested ({A}, {B})")
