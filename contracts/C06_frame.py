"""C06 frame analysis (round 3): may-alias by *sharing depth*, interprocedural through same-package helpers.

Every expression gets a depth d = number of dereferences (attribute, index, iteration element) that separate it from memory
the caller can see:  0 = the shared object itself (self, self.images, an element of self.images, ...);  1 = a fresh container /
copy whose parts are shared (list(self.images), self.images[:], replace(image, ...), [u for u in self.units]);  2 = a fresh
object holding such containers; INF = unrelated.  deref(d) = max(d-1, 0); shallow copy = max(d, 1); holding (constructor,
list literal) = d+1.  A mutation (attribute / item store, mutator method, in-place operator) of an object of depth 0 is a
frame site.  Bindings are flow-insensitive (minimum over all assignments, to a fixpoint), so renaming locals, early returns,
`continue` guards, loops vs comprehensions and reordering do not matter.  Calls of helpers defined in the package are followed:
their result depth comes from a summary (which parameters the result is derived from, at which depth) and a helper that
mutates its parameter makes the call a site.  A site is *definite* only when it is written through `self` literally
(self.x = ..., self.items.append(...)); sites that exist only because of the may-alias approximation are reported `unknown`
and left to the native replayer.
"""
import ast

from pyvc.flow import dotted

INF = 99
MUTATORS = {"append", "extend", "insert", "pop", "remove", "clear", "sort", "reverse", "update", "setdefault", "popitem", "add", "discard",
            "write", "truncate", "writelines", "__setitem__", "__delitem__", "appendleft", "popleft", "move_to_end", "populate_from_path",
            "intersection_update", "difference_update", "symmetric_difference_update", "rotate"}
SHALLOW_COPIES = {"list", "tuple", "sorted", "reversed", "dict", "set", "frozenset", "copy", "enumerate", "zip", "iter", "filter", "map",
                  "replace", "chain", "islice", "OrderedDict", "deque"}
FRESH_RESULTS = {"deepcopy", "str", "bytes", "bytearray", "int", "float", "bool", "len", "repr", "format", "asdict", "astuple", "isinstance", "hash",
                 "id", "sum", "any", "all", "abs", "round", "ord", "chr", "BytesIO", "StringIO", "type", "range", "divmod", "serialize_extraction",
                 "hasattr", "callable", "issubclass", "open"}
COPY_METHODS = {"copy"}
FRESH_METHODS = {"strip", "lstrip", "rstrip", "lower", "upper", "casefold", "title", "split", "rsplit", "splitlines", "join", "format", "replace",
                 "encode", "decode", "startswith", "endswith", "find", "rfind", "index", "count", "isdigit", "getvalue", "read", "tell", "hex",
                 "isoformat", "to_json", "to_dict", "get_full_text", "get_text", "partition", "rpartition", "zfill", "ljust", "rjust", "center",
                 "keys", "isalpha", "isalnum", "isspace", "islower", "isupper", "removeprefix", "removesuffix", "expandtabs", "translate", "readline"}


_OWN = {}


def own_nodes(fnode):
    """AST nodes of a function excluding nested function bodies (cached: the trees live as long as the loader's module cache)."""
    hit = _OWN.get(id(fnode))
    if hit is not None and hit[0] is fnode:
        return hit[1]
    out = []
    stack = list(ast.iter_child_nodes(fnode))
    while stack:
        n = stack.pop()
        out.append(n)
        if isinstance(n, (ast.FunctionDef, ast.AsyncFunctionDef, ast.Lambda)):
            continue
        stack.extend(ast.iter_child_nodes(n))
    _OWN[id(fnode)] = (fnode, out)
    return out


def params_of(fnode):
    a = fnode.args
    out = [x.arg for x in a.posonlyargs + a.args + a.kwonlyargs]
    if a.vararg:
        out.append(a.vararg.arg)
    if a.kwarg:
        out.append(a.kwarg.arg)
    return out


def deref(d):
    return INF if d >= INF else max(d - 1, 0)


def copy_(d):
    return INF if d >= INF else max(d, 1)


def hold(d):
    return INF if d >= INF else min(d + 1, 4)


IMMUTABLE_TYPES = {"str", "int", "float", "bool", "bytes", "None", "complex", "date", "datetime", "Decimal"}


def immutable_annotation(ann):
    if ann is None:
        return False
    if isinstance(ann, ast.Constant):
        if ann.value is None:
            return True
        if isinstance(ann.value, str):
            try:
                return immutable_annotation(ast.parse(ann.value, mode="eval").body)
            except SyntaxError:
                return False
        return False
    if isinstance(ann, ast.Subscript):
        head = dotted(ann.value).split(".")[-1]
        if head in ("Optional", "Final", "ClassVar", "Union", "Literal"):
            if head == "Literal":
                return True
            inner = ann.slice.elts if isinstance(ann.slice, ast.Tuple) else [ann.slice]
            return all(immutable_annotation(x) for x in inner)
        return False
    if isinstance(ann, ast.BinOp) and isinstance(ann.op, ast.BitOr):
        return immutable_annotation(ann.left) and immutable_annotation(ann.right)
    return dotted(ann).split(".")[-1] in IMMUTABLE_TYPES


def immutable_attributes(mods):
    """Attribute names that are declared (class-level annotation) only with immutable types anywhere in the package: reading such an
    attribute never yields something that can be modified in place."""
    yes, no, eyes, eno = set(), set(), set(), set()
    for m in mods.values():
        for c in m.classes.values():
            for st in c.body:
                if isinstance(st, ast.AnnAssign) and isinstance(st.target, ast.Name):
                    (yes if immutable_annotation(st.annotation) else no).add(st.target.id)
                    (eyes if elements_immutable(st.annotation) else eno).add(st.target.id)
    return yes - no, eyes - eno


def elements_immutable(ann):
    """list[int], tuple[str, ...], dict[str, str], Optional[list[str]]: what is taken out of the container cannot be modified in place."""
    if isinstance(ann, ast.Constant) and isinstance(ann.value, str):
        try:
            ann = ast.parse(ann.value, mode="eval").body
        except SyntaxError:
            return False
    if isinstance(ann, ast.BinOp) and isinstance(ann.op, ast.BitOr):
        return all(elements_immutable(x) or immutable_annotation(x) for x in (ann.left, ann.right)) and \
            any(elements_immutable(x) for x in (ann.left, ann.right))
    if isinstance(ann, ast.Subscript):
        head = dotted(ann.value).split(".")[-1]
        inner = ann.slice.elts if isinstance(ann.slice, ast.Tuple) else [ann.slice]
        if head in ("Optional", "Final", "ClassVar"):
            return all(elements_immutable(x) for x in inner)
        if head in ("list", "List", "tuple", "Tuple", "set", "Set", "frozenset", "Sequence", "Iterable", "dict", "Dict", "Mapping"):
            return all(immutable_annotation(x) or (isinstance(x, ast.Constant) and x.value is Ellipsis) for x in inner)
    return False


class Package:
    """Resolution of calls to functions defined in the package + memoised summaries."""

    def __init__(self, mods):
        self.mods = mods
        self.immutable_attrs, self.elem_immutable_attrs = immutable_attributes(mods)
        self._ret = {}
        self._mut = {}
        self._busy = set()

    def stream_attrs(self):
        if not hasattr(self, "_stream_attrs"):
            st, decl = set(), set()
            for m in self.mods.values():
                for c in m.classes.values():
                    for s_ in c.body:
                        if isinstance(s_, ast.AnnAssign) and isinstance(s_.target, ast.Name):
                            decl.add(s_.target.id)
                            txt = ast.unparse(s_.annotation)
                            if any(t in txt for t in ("BytesIO", "BinaryIO", "IO[", "StringIO", "BufferedReader", "RawIOBase", "BufferedIOBase")):
                                st.add(s_.target.id)
            self._stream_attrs, self._declared_attrs = st, decl
        return self._stream_attrs

    def declared_attrs(self):
        self.stream_attrs()
        return self._declared_attrs

    def resolve(self, m, q, call):
        f = call.func
        if isinstance(f, ast.Name):
            for cand in (f"{q}.<locals>.{f.id}", (q.rsplit(".<locals>.", 1)[0] + ".<locals>." + f.id) if ".<locals>." in q else None, f.id):
                if cand and cand in m.functions and not isinstance(m.functions[cand], ast.Lambda):
                    return m, cand, m.functions[cand], False
            origin = m.imports.get(f.id, "")
            if origin.startswith("sharepoint2text."):
                rel = origin.rsplit(".", 1)[0].replace(".", "/") + ".py"
                name = origin.rsplit(".", 1)[1]
                m2 = self.mods.get(rel)
                if m2 is not None and name in m2.functions:
                    return m2, name, m2.functions[name], False
        elif isinstance(f, ast.Attribute) and isinstance(f.value, ast.Name):
            if f.value.id in ("self", "cls") and "." in q:
                cls = q.split(".<locals>.")[0].rsplit(".", 1)[0]
                cand = f"{cls}.{f.attr}"
                if cand in m.functions:
                    return m, cand, m.functions[cand], True
            origin = m.imports.get(f.value.id, "")
            if origin.startswith("sharepoint2text"):
                m2 = self.mods.get(origin.replace(".", "/") + ".py")
                if m2 is not None and f.attr in m2.functions:
                    return m2, f.attr, m2.functions[f.attr], False
        return None

    def ret_depth(self, m, q, fnode, pname, d_in):
        """Depth of the helper's result when parameter `pname` has depth d_in (all other parameters unrelated)."""
        key = (m.rel, q, pname, min(d_in, 3))
        if key in self._ret:
            return self._ret[key]
        if key in self._busy:
            return deref(d_in)          # recursion: conservative
        self._busy.add(key)
        try:
            a = Alias(self, m, q, fnode, {pname: d_in})
            out = a.result_depth()
        except RecursionError:
            out = deref(d_in)
        self._busy.discard(key)
        self._ret[key] = out
        return out

    def mutates(self, m, q, fnode, pname, d_in):
        """Sites of the helper when parameter `pname` has depth d_in: [(lineno, text)]."""
        key = (m.rel, q, pname, min(d_in, 3))
        if key in self._mut:
            return self._mut[key]
        if key in self._busy or ("mut",) + key in self._busy:
            return []
        self._busy.add(("mut",) + key)
        try:
            a = Alias(self, m, q, fnode, {pname: d_in})
            out = [(n.lineno, txt) for (n, txt, _def) in a.sites()]
        except RecursionError:
            out = []
        self._busy.discard(("mut",) + key)
        self._mut[key] = out
        return out


class Alias:
    def __init__(self, pkg, m, q, fnode, roots, state_mode=False):
        self.pkg, self.m, self.q, self.fnode = pkg, m, q, fnode
        self.state_mode = state_mode
        self.depth = dict(roots)
        self.roots = set(roots)
        self._solve()

    # ---------------------------------------------------------------- expression depth
    def d(self, e):
        if e is None:
            return INF
        if isinstance(e, ast.Name):
            return self.depth.get(e.id, INF)
        if isinstance(e, ast.Attribute):
            if e.attr in self.pkg.immutable_attrs:
                return INF          # declared str / int / ...: nothing to modify in place
            return deref(self.d(e.value))
        if isinstance(e, ast.Subscript):
            dv = self.d(e.value)
            if not isinstance(e.slice, ast.Slice) and isinstance(e.value, ast.Attribute) and e.value.attr in self.pkg.elem_immutable_attrs:
                return INF
            return copy_(dv) if isinstance(e.slice, ast.Slice) else deref(dv)
        if isinstance(e, ast.Starred):
            return self.d(e.value)
        if isinstance(e, (ast.Await, ast.NamedExpr)):
            return self.d(e.value)
        if isinstance(e, ast.IfExp):
            return min(self.d(e.body), self.d(e.orelse))
        if isinstance(e, ast.BoolOp):
            return min(self.d(v) for v in e.values)
        if isinstance(e, ast.BinOp):
            return copy_(min(self.d(e.left), self.d(e.right)))
        if isinstance(e, (ast.List, ast.Tuple, ast.Set)):
            return hold(min([self.d(x) for x in e.elts] or [INF]))
        if isinstance(e, ast.Dict):
            return hold(min([self.d(x) for x in e.values if x is not None] or [INF]))
        if isinstance(e, (ast.ListComp, ast.SetComp, ast.GeneratorExp)):
            return hold(self.d(e.elt))          # generator targets are bound by _solve
        if isinstance(e, ast.DictComp):
            return hold(min(self.d(e.value), self.d(e.key)))
        if isinstance(e, ast.Call):
            return self.call_depth(e)
        return INF

    def call_depth(self, e):
        f = e.func
        if isinstance(f, ast.Name) and f.id == "type" and len(e.args) == 1 and not e.keywords:
            # the class of a shared object is shared by every instance of it (and outlives them): type(self).counter += 1
            return 0 if self.d(e.args[0]) < INF else INF
        args = list(e.args) + [k.value for k in e.keywords]
        dargs = [self.d(a) for a in args]
        dmin = min(dargs or [INF])
        name = dotted(f)
        last = name.split(".")[-1] if name else (f.attr if isinstance(f, ast.Attribute) else "")
        res = self.pkg.resolve(self.m, self.q, e)
        if res is not None:
            m2, q2, f2, is_method = res
            ps = params_of(f2)
            # a helper that hands out (a part of) process-persistent module state: Package.global_ret, filled by the state analysis
            out = self.pkg.global_ret.get((m2.rel, q2), INF) if self.state_mode else INF
            if is_method and ps:
                dself = self.d(f.value)
                if dself < INF:
                    out = min(out, self.pkg.ret_depth(m2, q2, f2, ps[0], dself))
                ps = ps[1:]
            for i, a in enumerate(e.args):
                da = self.d(a)
                if da < INF:
                    p = ps[i] if i < len(ps) and not isinstance(a, ast.Starred) else (f2.args.vararg.arg if f2.args.vararg else None)
                    out = min(out, self.pkg.ret_depth(m2, q2, f2, p, da) if p else deref(da))
            for k in e.keywords:
                da = self.d(k.value)
                if da < INF:
                    p = k.arg if k.arg in ps else (f2.args.kwarg.arg if f2.args.kwarg else None)
                    out = min(out, self.pkg.ret_depth(m2, q2, f2, p, da) if p else deref(da))
            return out
        if isinstance(f, ast.Name) or (isinstance(f, ast.Attribute) and isinstance(f.value, ast.Name) and f.value.id in self.m.imports):
            if last in FRESH_RESULTS:
                return INF
            if last in SHALLOW_COPIES:
                return copy_(dmin)
            if last[:1].isupper():
                return hold(dmin)           # constructor: a fresh object holding its arguments
            if last in ("next", "getattr", "max", "min") and e.args:
                if last == "getattr":
                    return min(deref(dargs[0]), dargs[2] if len(e.args) > 2 else INF)
                if last == "next" or len(e.args) == 1:
                    dflt = [self.d(k.value) for k in e.keywords if k.arg == "default"] + ([dargs[1]] if last == "next" and len(e.args) > 1 else [])
                    return min([deref(dargs[0])] + dflt)
                return dmin                 # max(a, b): one of the arguments
            return deref(dmin)              # unknown function: may return a part of an argument
        if isinstance(f, ast.Attribute):
            dr = self.d(f.value)
            if f.attr in FRESH_METHODS:
                return INF
            if f.attr in COPY_METHODS:
                return copy_(dr)
            if f.attr[:1].isupper():
                return hold(dmin)
            if f.attr in ("get", "setdefault", "pop") and len(e.args) >= 2:
                return min(deref(dr), self.d(e.args[1]))      # the stored value or the default that was handed in
            return deref(dr)                     # a method may return a part of its receiver
        return deref(dmin)

    # ---------------------------------------------------------------------- bindings
    def _bind(self, target, d):
        if isinstance(target, ast.Name):
            if d < self.depth.get(target.id, INF) and target.id not in self.roots:
                self.depth[target.id] = d
                self.changed = True
        elif isinstance(target, (ast.Tuple, ast.List)):
            for t in target.elts:
                self._bind(t.value if isinstance(t, ast.Starred) else t, deref(d) if not isinstance(t, ast.Starred) else copy_(d))

    def _bind_value(self, target, value):
        if isinstance(target, (ast.Tuple, ast.List)) and isinstance(value, (ast.Tuple, ast.List)) and len(target.elts) == len(value.elts) \
                and not any(isinstance(t, ast.Starred) for t in target.elts):
            for t, v in zip(target.elts, value.elts):
                self._bind_value(t, v)
        else:
            self._bind(target, self.d(value))

    def _elem(self, it):
        """Depth of the elements produced by iterating `it`."""
        if isinstance(it, ast.Call) and isinstance(it.func, ast.Name) and it.func.id in ("enumerate", "zip") and it.args:
            return hold(min(deref(self.d(a)) for a in it.args))      # tuples holding elements
        if isinstance(it, ast.Call) and isinstance(it.func, ast.Attribute) and it.func.attr == "items" and not it.args:
            return hold(deref(self.d(it.func.value)))
        if isinstance(it, ast.Call) and isinstance(it.func, ast.Attribute) and it.func.attr in ("values", "keys") and not it.args:
            return deref(self.d(it.func.value))
        if isinstance(it, ast.Attribute) and it.attr in self.pkg.elem_immutable_attrs:
            return INF
        return deref(self.d(it))

    def _solve(self):
        for _ in range(12):
            self.changed = False
            for n in own_nodes(self.fnode):
                if isinstance(n, ast.Assign):
                    for t in n.targets:
                        if isinstance(t, (ast.Name, ast.Tuple, ast.List)):
                            self._bind_value(t, n.value)
                        elif isinstance(t, (ast.Attribute, ast.Subscript)):
                            # storing a shared object into a fresh local container / object: the container now holds it
                            r = t
                            hops = 0
                            while isinstance(r, (ast.Attribute, ast.Subscript)):
                                r = r.value
                                hops += 1
                            if isinstance(r, ast.Name) and self.d(n.value) < INF:
                                dn = self.d(n.value)
                                for _h in range(hops):
                                    dn = hold(dn)
                                self._bind(r, dn)
                elif isinstance(n, ast.AnnAssign) and n.value is not None and isinstance(n.target, ast.Name):
                    self._bind(n.target, self.d(n.value))
                elif isinstance(n, ast.AugAssign) and isinstance(n.target, ast.Name):
                    self._bind(n.target, copy_(self.d(n.value)))
                elif isinstance(n, (ast.For, ast.AsyncFor)):
                    self._bind(n.target, self._elem(n.iter))
                elif isinstance(n, ast.comprehension):
                    self._bind(n.target, self._elem(n.iter))
                elif isinstance(n, ast.With):
                    for it in n.items:
                        if it.optional_vars is not None:
                            self._bind(it.optional_vars, self.d(it.context_expr))
                elif isinstance(n, ast.NamedExpr):
                    self._bind(n.target, self.d(n.value))
                elif isinstance(n, ast.Call) and isinstance(n.func, ast.Attribute) and n.func.attr in ("append", "extend", "add", "insert", "update",
                                                                                                         "setdefault", "appendleft"):
                    # local.append(shared) / local.setdefault(k, []).append(shared): the local container now holds shared parts
                    r = n.func.value
                    hops = 0
                    while isinstance(r, (ast.Attribute, ast.Subscript)) or (isinstance(r, ast.Call) and isinstance(r.func, ast.Attribute)):
                        r = r.func.value if isinstance(r, ast.Call) else r.value
                        hops += 1
                    if isinstance(r, ast.Name) and n.args:
                        vals = n.args[1:2] if n.func.attr in ("setdefault", "insert") else n.args     # the key / index is not kept as a part
                        da = min([self.d(a) for a in vals] or [INF])
                        if da < INF:
                            dn = hold(da) if n.func.attr not in ("extend", "update") else copy_(da)
                            for _h in range(hops):
                                dn = hold(dn)
                            self._bind(r, dn)
            if not self.changed:
                break

    def result_depth(self):
        out = INF
        for n in own_nodes(self.fnode):
            if isinstance(n, ast.Return) and n.value is not None:
                out = min(out, self.d(n.value))
            elif isinstance(n, ast.Yield) and n.value is not None:
                out = min(out, hold(self.d(n.value)))        # a generator: iterating it yields the values
            elif isinstance(n, ast.YieldFrom):
                out = min(out, copy_(self.d(n.value)))
        return out

    # ------------------------------------------------------------------------- sites
    @staticmethod
    def _literal_self(e):
        while isinstance(e, (ast.Attribute, ast.Subscript)):
            e = e.value
        return isinstance(e, ast.Name) and e.id == "self"

    def _must_names(self):
        """Local names that are bound exactly once in the function, by a value-preserving step from `self`: `x = self.a.b`,
        `for x in self.a` / `for i, x in enumerate(self.a)` (also through another such name).  Wherever such a name is used it
        denotes an object reachable from self, so a mutation through it is as definite as one spelled with `self`."""
        stores = {}
        for n in own_nodes(self.fnode):
            if isinstance(n, ast.Name) and isinstance(n.ctx, ast.Store):
                stores[n.id] = stores.get(n.id, 0) + 1
        for p_ in params_of(self.fnode):
            stores[p_] = stores.get(p_, 0) + 1
        must = set()

        def chain(e):
            while isinstance(e, (ast.Attribute, ast.Subscript)):
                e = e.value
            return isinstance(e, ast.Name) and (e.id == "self" or e.id in must)

        for _ in range(3):
            for n in own_nodes(self.fnode):
                if isinstance(n, ast.Assign) and len(n.targets) == 1 and isinstance(n.targets[0], ast.Name) and isinstance(n.value, (ast.Attribute, ast.Subscript, ast.Name)):
                    if stores.get(n.targets[0].id) == 1 and chain(n.value):
                        must.add(n.targets[0].id)
                elif isinstance(n, ast.For) and not n.orelse:
                    it, tg = n.iter, n.target
                    if isinstance(it, ast.Call) and isinstance(it.func, ast.Name) and it.func.id == "enumerate" and it.args and isinstance(tg, ast.Tuple) \
                            and len(tg.elts) == 2:
                        it, tg = it.args[0], tg.elts[1]
                    if isinstance(tg, ast.Name) and stores.get(tg.id) == 1 and isinstance(it, (ast.Attribute, ast.Subscript, ast.Name)) and chain(it):
                        must.add(tg.id)
        return must

    def _is_stream(self, e):
        """Declared as a stream wherever the package declares an attribute of that name (class-level annotation: BytesIO, BinaryIO, IO[...])."""
        return isinstance(e, ast.Attribute) and e.attr in self.pkg.stream_attrs()

    def _maybe_stream(self, e):
        """Not known to be something else: an attribute the package declares only with non-stream types (locks, lists, str) is not a
        stream; locals / undeclared attributes may be one."""
        if isinstance(e, ast.Attribute):
            return e.attr in self.pkg.stream_attrs() or e.attr not in self.pkg.declared_attrs()
        return isinstance(e, (ast.Name, ast.Subscript))

    def sites(self):
        """[(node, text, definite)]"""
        out = []
        try:
            must = self._must_names()
        except Exception:  # noqa -- definiteness is an optimisation; without it the replayer decides
            must = set()
        def literal(e):
            while isinstance(e, (ast.Attribute, ast.Subscript)) or \
                    (isinstance(e, ast.Call) and isinstance(e.func, ast.Name) and e.func.id == "type" and len(e.args) == 1):
                e = e.args[0] if isinstance(e, ast.Call) else e.value
            return isinstance(e, ast.Name) and (e.id == "self" or e.id in must)
        def site(n, base, text):
            out.append((n, text, literal(base)))
        for n in own_nodes(self.fnode):
            targets = []
            if isinstance(n, ast.Assign):
                targets = n.targets
            elif isinstance(n, (ast.AugAssign, ast.AnnAssign)):
                targets = [n.target] if not (isinstance(n, ast.AnnAssign) and n.value is None) else []
            elif isinstance(n, ast.Delete):
                targets = n.targets
            for t in targets:
                for sub in (t.elts if isinstance(t, (ast.Tuple, ast.List)) else [t]):
                    if isinstance(sub, (ast.Attribute, ast.Subscript)) and self.d(sub.value) == 0:
                        site(n, sub.value, f"store to {ast.unparse(sub)[:60]}")
            if isinstance(n, ast.AugAssign) and isinstance(n.target, ast.Name) and self.depth.get(n.target.id, INF) == 0 \
                    and not isinstance(n.value, (ast.Constant, ast.JoinedStr)) and isinstance(n.op, (ast.Add, ast.BitOr, ast.BitAnd, ast.Sub, ast.Mult)):
                if isinstance(n.value, (ast.List, ast.ListComp, ast.Set, ast.Dict)) or self.d(n.value) < INF:
                    out.append((n, f"in-place {ast.unparse(n)[:60]} on a shared object", False))
            if isinstance(n, (ast.With, ast.AsyncWith)):
                # a stream of the observed object used as a context manager (directly or through contextlib.closing) is closed on exit
                for it in n.items:
                    ce = it.context_expr
                    if isinstance(ce, ast.Call) and dotted(ce.func).split(".")[-1] == "closing" and ce.args:
                        ce = ce.args[0]
                    if isinstance(ce, (ast.Name, ast.Attribute, ast.Subscript)) and self.d(ce) == 0 and self._maybe_stream(ce):
                        out.append((n, f"with {ast.unparse(ce)[:60]}: closes a stream that belongs to the observed object on exit",
                                    literal(ce) and self._is_stream(ce)))
            if isinstance(n, ast.Call):
                f = n.func
                if isinstance(f, ast.Attribute) and f.attr in MUTATORS and self.d(f.value) == 0:
                    site(n, f.value, f"mutating call {ast.unparse(f)[:60]}()")
                if isinstance(f, ast.Attribute) and f.attr in ("close", "detach") and self.d(f.value) == 0 and self._maybe_stream(f.value):
                    # a stream reachable from the observed object is closed: its content is gone for every later observer / to_json()
                    out.append((n, f"{ast.unparse(f)[:60]}() closes a stream that belongs to the observed object", literal(f.value) and self._is_stream(f.value)))
                cn = _canonical(self.m, f)
                if (cn in LIB_OWNERS or (cn.split(".")[-1] in _OWNER_TAILS and cn.split(".")[0] in ("io", "_io", "codecs", "tempfile"))) and n.args \
                        and self.d(n.args[0]) == 0:
                    par = getattr(self, "_par", None)
                    if par is None:
                        par = self._par = {id(ch): p_ for p_ in ast.walk(self.fnode) for ch in ast.iter_child_nodes(p_)}
                    dt_ = _detached(self.fnode, par, n)
                    if dt_ != "yes":
                        out.append((n, f"{cn}({ast.unparse(n.args[0])[:40]}) takes ownership of a stream that belongs to the observed object: closing / "
                                    "finalising the wrapper closes it", literal(n.args[0]) and dt_ == "no"))
                if dotted(f) in ("setattr", "delattr") and n.args and self.d(n.args[0]) == 0:
                    site(n, n.args[0], f"{dotted(f)}({ast.unparse(n.args[0])[:40]}, ...)")
                res = self.pkg.resolve(self.m, self.q, n)
                if res is not None:
                    m2, q2, f2, is_method = res
                    ps = params_of(f2)
                    pairs = []
                    if is_method and ps:
                        # another method of the same class: an observer with its own obligation -- unless it is a construction-time method
                        if f2.name in ("populate_from_path", "__post_init__", "__init__", "__setattr__", "__setitem__") and self.d(f.value) == 0:
                            site(n, f.value, f"call of the construction-time method {ast.unparse(f)[:60]}()")
                        ps = ps[1:]
                    for i, a in enumerate(n.args):
                        if i < len(ps) and not isinstance(a, ast.Starred):
                            pairs.append((ps[i], a))
                    for k in n.keywords:
                        if k.arg in ps:
                            pairs.append((k.arg, k.value))
                    if not is_method or f2.name.startswith("_"):
                        for p, a in pairs:
                            da = self.d(a)
                            if da < INF:
                                ms = self.pkg.mutates(m2, q2, f2, p, da)
                                if ms:
                                    out.append((n, f"{q2}({ast.unparse(a)[:30]}) modifies its argument ({m2.rel.split('/')[-1]}:{ms[0][0]} {ms[0][1]})", False))
        return out


# ------------------------------------------------------------------ the caller's input buffer --
READ_ONLY = {"seek", "tell", "read", "getvalue", "readline", "readlines", "read1", "readinto", "seekable", "readable", "closed", "getbuffer",
             "writable", "isatty", "peek", "__enter__"}
WRITERS = {"write", "writelines", "truncate", "close", "detach", "__setitem__", "__exit__"}
INPUT_PARAM = "file_like"


# Library entry points that only read / reposition a stream handed to them and leave it open (the listed read-only entry points of the
# extractor frame).  `zipfile.ZipFile` / `tarfile.open` / `open`: the mode is checked separately.
LIB_READERS = {"zipfile.ZipFile", "zipfile.is_zipfile", "tarfile.open", "tarfile.TarFile", "tarfile.is_tarfile", "olefile.OleFileIO", "olefile.isOleFile",
               "pypdf.PdfReader", "openpyxl.load_workbook", "xlrd.open_workbook", "py7zr.SevenZipFile", "py7zr.is_7zfile",
               "email.message_from_binary_file", "email.message_from_file", "shutil.copyfileobj", "hashlib.file_digest", "PIL.Image.open",
               "msoffcrypto.OfficeFile", "xml.etree.ElementTree.parse", "xml.etree.ElementTree.iterparse", "defusedxml.ElementTree.parse",
               "defusedxml.ElementTree.iterparse", "lxml.etree.parse", "lxml.etree.iterparse", "json.load", "csv.reader", "csv.DictReader",
               "mailbox.mboxMessage", "gzip.GzipFile", "gzip.open", "bz2.BZ2File", "bz2.open", "lzma.LZMAFile", "lzma.open", "struct.unpack_from",
               "codecs.getreader", "pickle.load"}
# builtins / helpers that do not touch the stream at all
LIB_INERT = {"isinstance", "len", "type", "id", "bool", "repr", "str", "hasattr", "getattr", "callable", "print", "iter", "next", "bytes", "bytearray",
             "memoryview", "hash", "issubclass", "format", "typing.cast", "cast"}
# wrappers that take OWNERSHIP of the stream they wrap: closing or finalising the wrapper closes the underlying stream (io.IOBase.__del__
# calls close()), so a wrapper that goes out of scope closes the caller's buffer -- unless `.detach()` hands the stream back first
LIB_OWNERS = {"io.TextIOWrapper", "io.BufferedReader", "io.BufferedRandom", "io.BufferedWriter", "io.BufferedRWPair", "_io.TextIOWrapper",
              "_io.BufferedReader", "codecs.StreamReaderWriter", "codecs.EncodedFile", "tempfile.SpooledTemporaryFile"}


_OWNER_TAILS = {x.split(".")[-1] for x in LIB_OWNERS}


def class_bases(mods):
    """{(rel, class): [(rel2, class2)]} for bases defined in the package."""
    out = {}
    for rel, m in mods.items():
        for cq, c in m.classes.items():
            bs = []
            for b in c.bases:
                d = dotted(b)
                if not d:
                    continue
                if d in m.classes:
                    bs.append((rel, d))
                    continue
                origin = m.imports.get(d.split(".")[0], "")
                if origin.startswith("sharepoint2text."):
                    rel2 = origin.rsplit(".", 1)[0].replace(".", "/") + ".py"
                    name = origin.rsplit(".", 1)[1]
                    if rel2 in mods and name in mods[rel2].classes:
                        bs.append((rel2, name))
            out[(rel, cq)] = bs
    return out


def _ancestors(bases, key):
    seen, work = [], [key]
    while work:
        k = work.pop()
        for b in bases.get(k, []):
            if b not in seen:
                seen.append(b)
                work.append(b)
    return seen


def resolve_by_name(mods, m, call):
    """`recv.meth(...)` on a receiver that is not an imported module / class: the methods of that name defined by classes of the
    package (over-approximation for receivers of unknown type, e.g. `self._reader.extractall(...)`): [(module, qualname, node)]."""
    f = call.func
    if not isinstance(f, ast.Attribute) or f.attr.startswith("__"):
        return []
    root = f.value
    while isinstance(root, ast.Attribute):
        root = root.value
    if not isinstance(root, ast.Name) or (root.id in m.imports and root.id != "self"):
        return []
    out = []
    for m2 in mods.values():
        for cq in m2.classes:
            fn = m2.functions.get(f"{cq}.{f.attr}")
            if fn is not None and not isinstance(fn, ast.Lambda):
                out.append((m2, f"{cq}.{f.attr}", fn))
    return out


def resolve_ctor(mods, bases, m, q, call):
    """A call that constructs an instance of a class of the package (`Cls(...)`, `super().__init__(...)`, `Base.__init__(self, ...)`):
    (module, 'Cls.__init__', node, n_skipped_params) of the initialiser that runs, or None."""
    f = call.func
    start = None
    skip_self = 1
    if isinstance(f, ast.Name):
        if f.id in m.classes:
            start = [(m.rel, f.id)]
        else:
            origin = m.imports.get(f.id, "")
            if origin.startswith("sharepoint2text."):
                rel2 = origin.rsplit(".", 1)[0].replace(".", "/") + ".py"
                name = origin.rsplit(".", 1)[1]
                if rel2 in mods and name in mods[rel2].classes:
                    start = [(rel2, name)]
    elif isinstance(f, ast.Attribute) and f.attr == "__init__":
        cls = q.split(".<locals>.")[0].rsplit(".", 1)[0] if "." in q else None
        if isinstance(f.value, ast.Call) and dotted(f.value.func) == "super" and cls and (m.rel, cls) in bases:
            start = _ancestors(bases, (m.rel, cls))
        elif isinstance(f.value, ast.Name) and f.value.id in m.classes:
            start = [(m.rel, f.value.id)]
    if not start:
        return None
    if isinstance(f, ast.Name):
        start = start + _ancestors(bases, start[0])
    for rel2, cq in start:
        init = mods[rel2].functions.get(f"{cq}.__init__")
        if init is not None:
            return mods[rel2], f"{cq}.__init__", init, skip_self
    return None


def _held_attr(e, attrs):
    return isinstance(e, ast.Attribute) and isinstance(e.value, ast.Name) and e.value.id == "self" and e.attr in attrs


def input_buffer_functions(mods, pkg, held_out=None):
    """{(rel, q): {names that are the caller's buffer}} -- seeded by parameters called `file_like`, closed under passing the buffer
    (or a plain alias of it) to a function of the package or to the initialiser of a class of the package.  A buffer stored on the
    instance (`self.x = file_like`) is the caller's buffer in every method of that class and of its subclasses: `held_out`
    receives {(rel, q): {attribute names}} for those methods."""
    ib = {}
    bases = class_bases(mods)
    held_cls = {}          # (rel, class) -> {attr}
    for rel, m in mods.items():
        for q, f in m.functions.items():
            if not isinstance(f, ast.Lambda) and INPUT_PARAM in params_of(f):
                ib[(rel, q)] = {INPUT_PARAM}

    def cls_of(rel, q):
        head = q.split(".<locals>.")[0]
        return (rel, head.rsplit(".", 1)[0]) if "." in head else None

    def attrs_for(rel, q):
        c = cls_of(rel, q)
        if c is None:
            return set()
        out = set(held_cls.get(c, ()))
        for a in _ancestors(bases, c):
            out |= held_cls.get(a, set())
        return out

    for _round in range(12):
        changed = False
        todo = set(ib)
        for (rel, cq) in list(held_cls):
            for (r2, c2) in bases:
                if (r2, c2) == (rel, cq) or (rel, cq) in _ancestors(bases, (r2, c2)):
                    for q2 in mods[r2].functions:
                        if q2.startswith(c2 + ".") and not isinstance(mods[r2].functions[q2], ast.Lambda):
                            todo.add((r2, q2))
        for (rel, q) in sorted(todo):
            m = mods[rel]
            f = m.functions[q]
            names = aliases_of(f, ib.get((rel, q), set()))
            attrs = attrs_for(rel, q)

            def is_buf(e):
                return (isinstance(e, ast.Name) and e.id in names) or _held_attr(e, attrs)

            for n in own_nodes(f):
                if isinstance(n, ast.Assign) and is_buf(n.value):
                    for t in n.targets:
                        if isinstance(t, ast.Attribute) and isinstance(t.value, ast.Name) and t.value.id == "self":
                            c = cls_of(rel, q)
                            if c is not None and t.attr not in held_cls.setdefault(c, set()):
                                held_cls[c].add(t.attr)
                                changed = True
                if not isinstance(n, ast.Call):
                    continue
                if not (any(is_buf(a) for a in n.args) or any(is_buf(k.value) for k in n.keywords)):
                    continue
                res = pkg.resolve(m, q, n)
                if res is not None:
                    m2, q2, f2, is_method = res
                    targets = [(m2, q2, f2, 1 if is_method else 0)]
                else:
                    rc = resolve_ctor(mods, bases, m, q, n)
                    targets = [rc] if rc is not None else [(m2, q2, f2, 1) for (m2, q2, f2) in resolve_by_name(mods, m, n)]
                for (m2, q2, f2, skip) in targets:
                    ps = params_of(f2)[skip:]
                    hit = []
                    for i, a in enumerate(n.args):
                        if is_buf(a) and i < len(ps):
                            hit.append(ps[i])
                    for k in n.keywords:
                        if is_buf(k.value) and k.arg in ps:
                            hit.append(k.arg)
                    if hit:
                        cur = ib.setdefault((m2.rel, q2), set())
                        if not set(hit) <= cur:
                            cur |= set(hit)
                            changed = True
        if not changed:
            break
    if held_out is not None:
        for rel, m in mods.items():
            for q, f in m.functions.items():
                if isinstance(f, ast.Lambda):
                    continue
                a = attrs_for(rel, q)
                if a:
                    held_out[(rel, q)] = a
    return ib


def aliases_of(fnode, names):
    names = set(names)
    for _ in range(4):
        grew = False
        for n in own_nodes(fnode):
            tgt = val = None
            if isinstance(n, ast.Assign) and len(n.targets) == 1 and isinstance(n.targets[0], ast.Name):
                tgt, val = n.targets[0].id, n.value
            elif isinstance(n, ast.AnnAssign) and isinstance(n.target, ast.Name) and n.value is not None:
                tgt, val = n.target.id, n.value
            elif isinstance(n, ast.NamedExpr):
                tgt, val = n.target.id, n.value
            elif isinstance(n, (ast.With, ast.AsyncWith)):
                # `with buffer as f`: a stream's __enter__ returns the stream itself
                for it in n.items:
                    if isinstance(it.optional_vars, ast.Name) and isinstance(it.context_expr, ast.Name) and it.context_expr.id in names \
                            and it.optional_vars.id not in names:
                        names.add(it.optional_vars.id)
                        grew = True
            if tgt is None or tgt in names:
                continue
            vals = [val]
            if isinstance(val, ast.IfExp):
                vals = [val.body, val.orelse]
            elif isinstance(val, ast.BoolOp):
                vals = val.values
            if any(isinstance(v, ast.Name) and v.id in names for v in vals):
                names.add(tgt)
                grew = True
        if not grew:
            break
    return names


def _canonical(mod, e):
    d = dotted(e)
    if not d or mod is None:
        return d or ""
    head, _, rest = d.partition(".")
    origin = mod.imports.get(head)
    if origin:
        return origin + ("." + rest if rest else "")
    return d


def _detached(fnode, par, call):
    """The owning wrapper built by `call` hands the stream back with `.detach()`: 'yes' when the wrapper is bound to a local whose
    `.detach()` is called in a `finally:` block or later in the statement list that binds it, 'maybe' when `.detach()` occurs
    elsewhere in the function, 'no' otherwise."""
    p = par.get(id(call))
    tgt = None
    if isinstance(p, ast.Assign) and len(p.targets) == 1 and isinstance(p.targets[0], ast.Name) and p.value is call:
        tgt = p.targets[0].id
    elif isinstance(p, ast.AnnAssign) and isinstance(p.target, ast.Name) and p.value is call:
        tgt = p.target.id
    elif isinstance(p, ast.NamedExpr) and p.value is call:
        tgt = p.target.id
    if tgt is None:
        return "no"

    def detaches(n):
        return isinstance(n, ast.Call) and isinstance(n.func, ast.Attribute) and n.func.attr == "detach" and isinstance(n.func.value, ast.Name) \
            and n.func.value.id == tgt

    anywhere = any(detaches(n) for n in own_nodes(fnode))
    if not anywhere:
        return "no"
    for n in own_nodes(fnode):
        if isinstance(n, ast.Try) and any(detaches(x) for st in n.finalbody for x in ast.walk(st)):
            return "yes"
    holder = par.get(id(p))
    for field in ("body", "orelse", "finalbody"):
        blk = getattr(holder, field, None)
        if isinstance(blk, list) and p in blk:
            later = blk[blk.index(p) + 1:]
            for st in later:
                if isinstance(st, (ast.Return, ast.Raise)) and not any(detaches(x) for x in ast.walk(st)):
                    break
                if isinstance(st, (ast.Expr, ast.Assign, ast.Return)) and any(detaches(x) for x in ast.walk(st)):
                    return "yes"
    return "maybe"


def input_buffer_sites(fnode, names, mod=None, q=None, pkg=None, attrs=(), mods=None, bases=None):
    """[(lineno, text, definite)] -- anything but reading / repositioning done to the caller's buffer.  The buffer is a local name
    (`names`, closed under plain aliasing) or an attribute of `self` that holds it (`attrs`).  With `mod` given, handing the buffer
    to a callee outside the package is checked against the listed read-only entry points (LIB_READERS): an owning wrapper
    (LIB_OWNERS) without `.detach()` is a definite site, an unknown callee is `unknown` (definite=False: the replayer decides)."""
    names = aliases_of(fnode, names)
    attrs = set(attrs)
    out = []
    par = {}
    for n in ast.walk(fnode):
        for ch in ast.iter_child_nodes(n):
            par[id(ch)] = n

    def is_buf(e):
        return (isinstance(e, ast.Name) and e.id in names) or _held_attr(e, attrs)

    def show(e):
        return ast.unparse(e)

    for n in own_nodes(fnode):
        if isinstance(n, ast.Call) and isinstance(n.func, ast.Attribute) and is_buf(n.func.value):
            if n.func.attr not in READ_ONLY:
                out.append((n.lineno, f"{show(n.func.value)}.{n.func.attr}()", n.func.attr in WRITERS))
        if isinstance(n, (ast.Assign, ast.AugAssign, ast.Delete)):
            for t in (n.targets if isinstance(n, (ast.Assign, ast.Delete)) else [n.target]):
                if isinstance(t, (ast.Attribute, ast.Subscript)) and is_buf(t.value):
                    out.append((n.lineno, f"store into {show(t.value)}", True))
        if isinstance(n, (ast.With, ast.AsyncWith)):
            # the buffer used as a context manager (directly or through contextlib.closing): leaving the block closes it, the caller
            # can no longer read what it passed in
            for it in n.items:
                ce = it.context_expr
                if is_buf(ce):
                    out.append((n.lineno, f"with {show(ce)}: closes the caller's buffer on exit", True))
                elif isinstance(ce, ast.Call) and dotted(ce.func).split(".")[-1] == "closing" and ce.args and is_buf(ce.args[0]):
                    out.append((n.lineno, f"with closing({show(ce.args[0])}): closes the caller's buffer on exit", True))
        if isinstance(n, ast.Call) and dotted(n.func).split(".")[-1] in ("ZipFile", "TarFile", "open") and n.args and is_buf(n.args[0]):
            mode = n.args[1] if len(n.args) > 1 else next((k.value for k in n.keywords if k.arg == "mode"), None)
            if isinstance(mode, ast.Constant) and isinstance(mode.value, str) and any(c in mode.value for c in "wax+"):
                out.append((n.lineno, f"{dotted(n.func)}({show(n.args[0])}, mode={mode.value!r}) opens the caller's buffer for writing", True))
        # ---- the buffer handed to a callee outside the package
        if mod is not None and isinstance(n, ast.Call):
            handed = [a for a in n.args if is_buf(a) or (isinstance(a, ast.Starred) and is_buf(a.value))] + [k.value for k in n.keywords if is_buf(k.value)]
            if not handed:
                continue
            if pkg is not None and pkg.resolve(mod, q or "", n) is not None:
                continue                    # a function of the package: it carries this obligation itself
            if mods is not None and bases is not None and resolve_ctor(mods, bases, mod, q or "", n) is not None:
                continue                    # an initialiser of a class of the package: likewise
            if mods is not None and resolve_by_name(mods, mod, n):
                continue                    # a method of a class of the package (receiver of unknown type: every method of that name)
            c = _canonical(mod, n.func)
            if not c and isinstance(n.func, ast.Call):
                c = _canonical(mod, n.func.func)       # a reader factory applied to the buffer: codecs.getreader(enc)(buffer)
            tail = c.split(".")[-1] if c else ""
            if isinstance(n.func, ast.Attribute) and isinstance(n.func.value, ast.Name) and n.func.value.id in ("logger", "logging", "log", "warnings"):
                continue
            if c in LIB_INERT or (isinstance(n.func, ast.Name) and n.func.id in LIB_INERT and n.func.id not in mod.functions):
                continue
            if c in LIB_OWNERS or (tail in {x.split(".")[-1] for x in LIB_OWNERS} and c.split(".")[0] in ("io", "_io", "codecs", "tempfile", tail)):
                d = _detached(fnode, par, n)
                if d == "yes":
                    continue
                out.append((n.lineno, f"{c}({show(handed[0])}) takes ownership of the caller's buffer: closing / finalising the wrapper closes it"
                            + ("" if d == "no" else " unless .detach() runs on every path"), d == "no"))
                continue
            if c in LIB_READERS:
                continue
            if tail == "closing":
                continue                    # reported above when used as a context manager
            out.append((n.lineno, f"{c or ast.unparse(n.func)[:40]}({show(handed[0])}): the caller's buffer is handed to a callee that is not a known "
                        "read-only entry point", False))
    return out
