"""ASSUMED model of xml.etree.ElementTree.Element over an abstract finite tree.

An element is a value of the uninterpreted sort `Elem`.  Two presentations share
one set of method models:

* **concrete shape** -- the element term is registered in `CONCRETE` with a
  python `CNode` (tag: python str, text: V, attrib: {str: V}, children: [CNode]).
  `findall/find/iter/list()/for-in` then return python-level sequences, so loops
  over them are unrolled exactly; texts and attribute values stay symbolic.
  Used for the BOUNDED obligations (every tree shape of a stated grammar).
* **symbolic shape** -- nothing is known about the element but the functions
  below (`FA_N/FA_AT` = the direct children with a tag, in order, `D_N/D_AT` =
  descendants-or-self with a tag in document (pre-)order, `NCH/CH` = children).
  `findall` etc. return `VSeq`s; loops need invariants.

Modelled API (everything else on an element is EXC-ANY):
  e.tag  e.text  e.get(k[,d])  e.find(t)  e.findall(t|"p:a/p:b"[,ns])  e.iter(t)
  list(e) / for c in e / len(e).
TREE-FINITE: trees are finite and acyclic; `iter` is pre-order, self first.
The model is validated against xml.etree natively by replay/C13.py (`etree_model_check`).
"""
import itertools

import z3

from pyvc.values import NONE, V, VBool, VDictC, VExt, VFunc, VInt, VSeq, VStr, VTuple, VUnk, ext_sort, fresh_name
from pyvc import ops

ELEM = ext_sort("Elem")
S, I, B = z3.StringSort(), z3.IntSort(), z3.BoolSort()

TAG = z3.Function("et_tag", ELEM, S)
HAS_TEXT = z3.Function("et_has_text", ELEM, B)
TEXT = z3.Function("et_text", ELEM, S)
HAS_ATTR = z3.Function("et_has_attr", ELEM, S, B)
ATTR = z3.Function("et_attr", ELEM, S, S)
NCH = z3.Function("et_nchild", ELEM, I)
CH = z3.Function("et_child", ELEM, I, ELEM)
FA_N = z3.Function("et_findall_n", ELEM, S, I)          # number of direct children with the tag
FA_AT = z3.Function("et_findall_at", ELEM, S, I, ELEM)  # k-th direct child with the tag (document order)
D_N = z3.Function("et_iter_n", ELEM, S, I)              # descendants-or-self with the tag
D_AT = z3.Function("et_iter_at", ELEM, S, I, ELEM)      # ... in pre-order

CONCRETE: dict = {}     # term id -> CNode
_ids = itertools.count()


class CNode:
    """Concrete-shape element.  `text` is NONE or a VStr; attrib maps python str -> VStr."""

    def __init__(self, tag, text=NONE, attrib=None, children=None, name=None, tail=NONE):
        self.tag, self.text, self.attrib, self.children = tag, text, dict(attrib or {}), list(children or [])
        self.tail = tail
        self.name = name or f"n{next(_ids)}"
        self.term = z3.Const(f"elem!{self.name}", ELEM)
        CONCRETE[self.term.get_id()] = self

    @property
    def v(self):
        return VExt("Elem", self.term)

    def iter(self, tag=None):
        if tag is None or self.tag == tag:
            yield self
        for c in self.children:
            yield from c.iter(tag)

    def to_json(self):
        def tx(t):
            return None if t is NONE else (t.const() if t.const() is not None else f"<{t.t}>")
        return {"tag": self.tag, "text": tx(self.text), "attrib": {k: tx(v) for k, v in self.attrib.items()},
                "children": [c.to_json() for c in self.children]}


def node_of(v):
    return CONCRETE.get(v.t.get_id()) if isinstance(v, VExt) and v.sort == "Elem" else None


def elem(t):
    return VExt("Elem", t)


# ------------------------------------------------------------------ axioms --
def wf_findall(e, tag):
    """Ground instances of the assumed facts about findall/find on (e, tag)."""
    k = z3.Int(fresh_name("k"))
    return z3.And(FA_N(e, tag) >= 0,
                  z3.ForAll([k], z3.Implies(z3.And(k >= 0, k < FA_N(e, tag)), TAG(FA_AT(e, tag, k)) == tag)))


def wf_iter(e, tag):
    k = z3.Int(fresh_name("k"))
    return z3.And(D_N(e, tag) >= 0,
                  z3.ForAll([k], z3.Implies(z3.And(k >= 0, k < D_N(e, tag)), TAG(D_AT(e, tag, k)) == tag)))


# ----------------------------------------------------------------- helpers --
def _const_str(v):
    return v.const() if isinstance(v, VStr) else None


def _ns_map(ex, st, v):
    """python dict prefix -> uri from a namespaces argument (module-level dict constant)."""
    if isinstance(v, VDictC):
        return {k: x.const() for k, x in v.items.items() if isinstance(x, VStr)}
    if v is None or v is NONE:
        return {}
    return None


def split_steps(path):
    """split on '/' outside of {namespace} braces"""
    steps, cur, depth = [], "", 0
    for ch in path:
        if ch == "{":
            depth += 1
        elif ch == "}":
            depth -= 1
        if ch == "/" and depth == 0:
            steps.append(cur)
            cur = ""
        else:
            cur += ch
    steps.append(cur)
    return steps


def resolve_path(path, ns):
    """'p:a/p:b' + {p: uri} -> ['{uri}a', '{uri}b'] (ElementPath subset: child steps only)."""
    steps = []
    for step in split_steps(path):
        if step in ("", ".", "..", "*") or "[" in step:
            return None
        if ":" in step and not step.startswith("{"):
            p, _, local = step.partition(":")
            if p not in ns:
                return None
            step = "{" + ns[p] + "}" + local
        steps.append(step)
    return steps


# ---------------------------------------------------------- method models --
def m_findall(ex, st, obj, args, kwargs, node):
    tagv = args[0] if args else kwargs.get("path")
    path = _const_str(tagv)
    nsv = args[1] if len(args) > 1 else kwargs.get("namespaces")
    ns = _ns_map(ex, st, nsv) if nsv is not None else {}
    if path is None or ns is None or path.startswith("."):
        return ex.havoc_call(st, "Element.findall(non-constant / unsupported path)", [], node)
    steps = resolve_path(path, ns)
    if steps is None:
        return ex.havoc_call(st, f"Element.findall({path})", [], node)
    n = node_of(obj)
    if n is not None:
        cur = [n]
        for stp in steps:
            cur = [c for p in cur for c in p.children if c.tag == stp]
        return [(st, VTuple([c.v for c in cur]))]
    if len(steps) != 1:
        return ex.havoc_call(st, f"Element.findall({path}) on symbolic shape", [], node)
    tag = z3.StringVal(steps[0])
    st.assume(wf_findall(obj.t, tag))
    return [(st, VSeq(FA_N(obj.t, tag), lambda k, e=obj.t, tag=tag: elem(FA_AT(e, tag, k)), "Elem"))]


def m_find(ex, st, obj, args, kwargs, node):
    tagv = args[0] if args else kwargs.get("path")
    path = _const_str(tagv)
    nsv = args[1] if len(args) > 1 else kwargs.get("namespaces")
    ns = _ns_map(ex, st, nsv) if nsv is not None else {}
    if path is None or ns is None:
        return ex.havoc_call(st, "Element.find(non-constant)", [], node)
    steps = resolve_path(path, ns)
    if steps is None:
        return ex.havoc_call(st, f"Element.find({path})", [], node)
    n = node_of(obj)
    if n is not None:
        cur = [n]
        for stp in steps:
            cur = [c for p in cur for c in p.children if c.tag == stp]
        return [(st, cur[0].v if cur else NONE)]
    if len(steps) != 1:
        return ex.havoc_call(st, f"Element.find({path}) on symbolic shape", [], node)
    tag = z3.StringVal(steps[0])
    st.assume(wf_findall(obj.t, tag))
    out = []
    has = FA_N(obj.t, tag) > 0
    if ex.feasible(st.pc, z3.Not(has)):
        out.append((st.fork().assume(z3.Not(has)), NONE))
    if ex.feasible(st.pc, has):
        out.append((st.assume(has), elem(FA_AT(obj.t, tag, z3.IntVal(0)))))
    return out


def m_iter(ex, st, obj, args, kwargs, node):
    tagv = args[0] if args else kwargs.get("tag")
    tag = _const_str(tagv) if tagv is not None else None
    if tagv is not None and tag is None:
        return ex.havoc_call(st, "Element.iter(non-constant)", [], node)
    n = node_of(obj)
    if n is not None:
        return [(st, VTuple([c.v for c in n.iter(tag)]))]
    if tag is None:
        return ex.havoc_call(st, "Element.iter() on symbolic shape", [], node)
    t = z3.StringVal(tag)
    st.assume(wf_iter(obj.t, t))
    return [(st, VSeq(D_N(obj.t, t), lambda k, e=obj.t, t=t: elem(D_AT(e, t, k)), "Elem"))]


def m_get(ex, st, obj, args, kwargs, node):
    key = _const_str(args[0])
    default = args[1] if len(args) > 1 else kwargs.get("default", NONE)
    if key is None:
        return ex.havoc_call(st, "Element.get(non-constant)", [], node)
    n = node_of(obj)
    if n is not None:
        return [(st, n.attrib.get(key, default))]
    k = z3.StringVal(key)
    has = HAS_ATTR(obj.t, k)
    val = VStr(ATTR(obj.t, k))
    if isinstance(default, VStr):
        return [(st, VStr(z3.If(has, val.t, default.t)))]
    out = []
    if ex.feasible(st.pc, z3.Not(has)):
        out.append((st.fork().assume(z3.Not(has)), default))
    if ex.feasible(st.pc, has):
        out.append((st.assume(has), val))
    return out


def a_tag(ex, st, obj):
    n = node_of(obj)
    return VStr(n.tag) if n is not None else VStr(TAG(obj.t))


def a_text(ex, st, obj):
    n = node_of(obj)
    if n is not None:
        return n.text
    # symbolic shape: text is None or a string -- callers use `.text` under a truth test; represent as the
    # string when present, forked by the executor mixin (see ETreeMixin.get_attr)
    return VStr(TEXT(obj.t))


def a_tail(ex, st, obj):
    n = node_of(obj)
    if n is not None:
        return n.tail
    return VUnk("tail")


def install(reg):
    reg.method_models[("Elem", "findall")] = m_findall
    reg.method_models[("Elem", "find")] = m_find
    reg.method_models[("Elem", "iter")] = m_iter
    reg.method_models[("Elem", "get")] = m_get
    reg.attr_models[("Elem", "tag")] = a_tag
    reg.attr_models[("Elem", "text")] = a_text
    reg.attr_models[("Elem", "tail")] = a_tail


class ETreeMixin:
    """Executor mixin: iteration / list() / len() / next() over elements and symbolic sequences."""

    def get_attr(self, st, base, attr, node):
        if isinstance(base, VExt) and base.sort == "Elem" and attr == "text" and node_of(base) is None:
            out = []
            has = HAS_TEXT(base.t)
            if self.feasible(st.pc, z3.Not(has)):
                out.append((st.fork().assume(z3.Not(has)), NONE))
            if self.feasible(st.pc, has):
                out.append((st.assume(has), VStr(TEXT(base.t))))
            return out
        return super().get_attr(st, base, attr, node)

    def concrete_items(self, st, v):
        n = node_of(v)
        if n is not None:
            return [c.v for c in n.children]
        return super().concrete_items(st, v)

    def seq_view(self, st, it):
        if isinstance(it, VExt) and it.sort == "Elem" and node_of(it) is None:
            st.assume(NCH(it.t) >= 0)
            return NCH(it.t), (lambda i, e=it.t: elem(CH(e, i)))
        return super().seq_view(st, it)

    def b_len(self, st, args, kwargs, node):
        v = args[0]
        if isinstance(v, VExt) and v.sort == "Elem" and node_of(v) is None:
            st.assume(NCH(v.t) >= 0)
            return [(st, VInt(NCH(v.t)))]
        return super().b_len(st, args, kwargs, node)

    def b_next(self, st, args, kwargs, node):
        """next(iterable_view, default): first element of a fresh iterator (the only use in the code under contract)."""
        it = args[0]
        items = self.concrete_items(st, it)
        if items is not None:
            if items:
                return [(st, items[0])]
            if len(args) > 1:
                return [(st, args[1])]
            self.raise_in(st, self.mk_exc("StopIteration"))
            return []
        if isinstance(it, VSeq):
            out = []
            if self.feasible(st.pc, it.length > 0):
                out.append((st.fork().assume(it.length > 0), it.elem(z3.IntVal(0))))
            if self.feasible(st.pc, it.length <= 0):
                s2 = st.assume(it.length <= 0)
                if len(args) > 1:
                    out.append((s2, args[1]))
                else:
                    self.raise_in(s2, self.mk_exc("StopIteration"))
            return out
        return self.havoc_call(st, "next", args, node)
