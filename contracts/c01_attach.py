"""C01 -- the e-mail attachment route of the failure surface (`... or as an archive member / e-mail attachment`).

EmailContent.iterate_supported_attachments is the generator a consumer drives for the attachments of a message: only the
ExtractionError family may leave it (the encrypted-file error of an attachment's extractor is passed on, everything else is
swallowed per attachment).  Statements of that generator that stand OUTSIDE its per-attachment `try` (the router look-ups, the
table look-up of the declared MIME type, the seeks) must not raise at all.  Three obligations, chained by contracts:

1. `mime_types.is_supported_mime_type` (executed symbolically, C07's executor): `result is True  =>  mime_type is a key of
   MIME_TYPE_MAPPING` (the table is re-read from the source).  This is the half of C07's functional contract the attachment
   generator leans on: a flag that is True for a spelling the table does not hold sends `MIME_TYPE_MAPPING[...]`-style code into
   KeyError and `.get()`-style code into a silent skip.
2. every construction site `EmailAttachment(...)` of the package establishes the record invariant
   `is_supported_mime_type == is_supported_mime_type(<the expression stored as mime_type>)` (or leaves the flag False): decided by
   code shape, any other shape is `unknown`.
3. `EmailContent.iterate_supported_attachments` executed symbolically (C16's mail executor and loop invariant) under the
   hypothesis (1)+(2) `for every attachment: flag => mime_type in MIME_TYPE_MAPPING`, with `get_extractor` under C07's contract
   (raises only the not-supported error; the fallback paths "attachment.<type>" are routable: lemmas of C07/C16): the `raises`
   obligation -- only the encrypted-file error of the extractor call escapes.
Nothing here may raise: every entry point is wrapped (`guarded`)."""
import ast

import z3

from pyvc import loader

DT = "sharepoint2text/parsing/extractors/data_types.py"
MIME = "sharepoint2text/parsing/mime_types.py"
ISA = f"{DT}::EmailContent.iterate_supported_attachments"
ISM = f"{MIME}::is_supported_mime_type"


def _unknown(oid, why, function, loc="", kind="out-of-subset"):
    return {"id": oid, "kind": kind, "status": "unknown", "vcs": 0 if kind == "out-of-subset" else 1, "seconds": 0.0, "backends": {}, "witness": None,
            "reason": str(why)[:400], "function": function, "loc": loc,
            "replay_hint": {"family": "attachments"}}



_ACTIVE = []          # non-empty while an obligation of this module is being generated / discharged (the predicate below is process-wide)
# results of string operations the engine gives a fresh unconstrained value: a model that picks them freely is no counter-model
UNTRUSTED_PREFIXES = ("c01piece!", "c01part!", "strip!", "lstrip!", "rstrip!", "lower!", "upper!", "casefold!", "title!", "capitalize!", "replace!", "join!")


def pieces_untrusted(pc, goal):
    """a `sat` answer that mentions the arbitrary pieces of a split string is no counter-model (the pieces are parts of the string)"""
    if not _ACTIVE:
        return False
    seen = set()
    stack = list(pc) if isinstance(pc, (list, tuple)) else [pc]
    stack.append(goal)
    while stack:
        x = stack.pop()
        if not z3.is_expr(x):
            continue
        i = x.get_id()
        if i in seen:
            continue
        seen.add(i)
        if z3.is_app(x) and x.decl().kind() == z3.Z3_OP_UNINTERPRETED and x.decl().name().startswith(UNTRUSTED_PREFIXES):
            return True
        stack.extend(x.children())
    return False


def _str_models(reg):
    """`s.split(sep[, n])` / `s.rsplit(sep[, n])` with a separator: a list of at least one string (at most n + 1 for a constant n);
    `s.partition(sep)` / `s.rpartition(sep)`: three strings.  The pieces themselves are arbitrary (over-approximation)."""
    from pyvc.values import VInt, VSeq, VStr, VTuple, VNoneT, fresh_name

    def m_split(ex, st, args, kwargs, node):
        rest = list(args[1:])
        if not rest or not isinstance(rest[0], VStr):
            from pyvc.values import VUnk
            return [(st, VUnk("str.split"))]        # no separator: the result may be empty
        n = z3.Int(fresh_name("n_pieces"))
        st.assume(n >= 1)
        if len(rest) > 1 and isinstance(rest[1], VInt) and rest[1].const() is not None and rest[1].const() >= 0:
            st.assume(n <= rest[1].const() + 1)
        f = z3.Function(fresh_name("c01piece"), z3.IntSort(), z3.StringSort())
        return [(st, VSeq(n, lambda i: VStr(f(i)), "str"))]

    def m_partition(ex, st, args, kwargs, node):
        return [(st, VTuple([VStr(z3.String(fresh_name("c01part"))) for _ in range(3)]))]

    from pyvc import solve
    if pieces_untrusted not in solve.SAT_UNTRUSTED:
        solve.SAT_UNTRUSTED.append(pieces_untrusted)
    for k in ("split", "rsplit"):
        reg.ext_models.setdefault(f"str.{k}", m_split)
    for k in ("partition", "rpartition"):
        reg.ext_models.setdefault(f"str.{k}", m_partition)


# ------------------------------------------------------------------ (1) the flag function --
def flag_function(repo, tier):
    from pyvc import verify
    from pyvc.contracts import FnContract, Registry
    from pyvc.exctypes import Universe
    from pyvc.values import NONE, VBool
    from pyvc.verify import p_opt, p_str
    from contracts import C07
    oid = "C01/mime_types.py::is_supported_mime_type"
    MIMES = C07.tables()[3]

    def implies_key(c):
        m = c.args["mime_type"]
        r = c.result
        rt = r.t if isinstance(r, VBool) else None
        if rt is None:
            cst = r.const() if hasattr(r, "const") else None
            if cst is None and r is not NONE:
                return z3.Bool("c01!flag-result-not-a-bool")       # truthiness of something else: not decided here
            rt = z3.BoolVal(bool(cst))
        if m is NONE:
            return z3.Not(rt)
        return z3.Implies(rt, z3.Or([m.t == z3.StringVal(k) for k in MIMES]))

    c = FnContract(target=ISM, params=[("mime_type", p_opt(p_str()))],
                   ensures=[("true-only-for-keys-of-MIME_TYPE_MAPPING", implies_key)], raises=[],
                   note="the record invariant of EmailAttachment rests on it")
    reg = Registry()
    _str_models(reg)
    rep = verify.run_contract("C01", c, reg, Universe(repo), repo=repo, timeout_ms=20000 if tier == "thorough" else None,
                              executor_cls=C07.EXECUTOR, executor_kw=None)
    if rep.error == "contract-target-missing":
        return {"obligations": [_unknown(oid + "/out-of-subset", "mime_types.is_supported_mime_type not found", ISM)], "functions": []}
    if rep.error or rep.out_of_subset:
        return {"obligations": [_unknown(oid + "/out-of-subset", ("ENGINE-ERROR " + rep.error) if rep.error else ("OUT-OF-SUBSET " + rep.out_of_subset), ISM)],
                "functions": []}
    # what the function itself raises is not part of the lemma: it is called inside the extractors' own outermost `try`
    obls = [o for o in rep.obligations if "/ensures#" in o["id"]] or [_unknown(oid + "/out-of-subset", "no ensures obligation generated", ISM)]
    for o in obls:
        o["function"] = ISM
        if o.get("status") not in ("proved",):
            o.setdefault("replay_hint", {"family": "attachments"})
    return {"obligations": obls, "functions": [dict(rep.info, paths=rep.paths, obligations=len(obls))]}


# ------------------------------------------------------- (2) construction sites of the record --
def _kw(call, name):
    for k in call.keywords:
        if k.arg == name:
            return k.value
    return None


def construction_sites(repo, tier):
    """`EmailAttachment(..., mime_type=E, is_supported_mime_type=F)`: F is absent / False, or `is_supported_mime_type(E')` with E'
    the same expression as E (same source text, and when it is a plain name: not rebound between -- same statement), where the called name is imported
    from mime_types.  Positional construction, **kwargs, dataclasses.replace(..) on the two fields, attribute stores to
    `.is_supported_mime_type` / `.mime_type` anywhere in the package: unknown."""
    obls = []
    n_sites = 0
    problems, unknowns = [], []
    for rel in loader.all_package_files(repo):
        if "/tests/" in rel:
            continue
        mod = loader.module(rel, repo)
        src_has = False
        for n in ast.walk(mod.tree):
            if isinstance(n, ast.Call):
                f = n.func
                fname = f.id if isinstance(f, ast.Name) else (f.attr if isinstance(f, ast.Attribute) else None)
                if fname == "EmailAttachment":
                    src_has = True
                    n_sites += 1
                    loc = f"{rel}:{n.lineno}"
                    if n.args or any(k.arg is None for k in n.keywords):
                        unknowns.append(f"{loc}: positional / ** construction")
                        continue
                    flag, mt = _kw(n, "is_supported_mime_type"), _kw(n, "mime_type")
                    if flag is None or (isinstance(flag, ast.Constant) and flag.value is False):
                        continue
                    if isinstance(flag, ast.Constant) and flag.value is True:
                        problems.append(f"{loc}: flag is the constant True")
                        continue
                    if not (isinstance(flag, ast.Call) and len(flag.args) == 1 and not flag.keywords):
                        unknowns.append(f"{loc}: flag is `{ast.unparse(flag)[:60]}`")
                        continue
                    g = flag.func
                    gname = g.id if isinstance(g, ast.Name) else None
                    target = mod.imports.get(gname, "") if gname else ""
                    if not (gname and target.endswith("mime_types.is_supported_mime_type")):
                        unknowns.append(f"{loc}: flag computed by `{ast.unparse(g)[:60]}` ({target or 'not an import of mime_types.is_supported_mime_type'})")
                        continue
                    if mt is None:
                        problems.append(f"{loc}: flag computed but mime_type left at its default")
                        continue
                    if ast.dump(flag.args[0]) != ast.dump(mt):
                        # a different expression: equal values are not decided by shape
                        unknowns.append(f"{loc}: flag computed from `{ast.unparse(flag.args[0])[:40]}`, stored type is `{ast.unparse(mt)[:40]}`")
                        continue
                    if any(isinstance(x, (ast.Call, ast.NamedExpr, ast.Await, ast.Yield)) for x in ast.walk(mt)):
                        unknowns.append(f"{loc}: the type expression `{ast.unparse(mt)[:40]}` is evaluated twice and has calls")
                elif fname == "replace" and any(k.arg in ("is_supported_mime_type", "mime_type") for k in n.keywords):
                    unknowns.append(f"{rel}:{n.lineno}: replace(.., {'/'.join(k.arg or '**' for k in n.keywords)})")
            elif isinstance(n, (ast.Assign, ast.AugAssign, ast.AnnAssign)):
                tg = n.targets if isinstance(n, ast.Assign) else [n.target]
                for t in tg:
                    for x in ast.walk(t):
                        if isinstance(x, ast.Attribute) and isinstance(x.ctx, ast.Store) and x.attr == "is_supported_mime_type":
                            unknowns.append(f"{rel}:{n.lineno}: store to .is_supported_mime_type")
                        elif isinstance(x, ast.Attribute) and isinstance(x.ctx, ast.Store) and x.attr == "mime_type" and src_has is not None \
                                and not _self_store_in_other_class(mod, n):
                            unknowns.append(f"{rel}:{n.lineno}: store to .mime_type")
    status_ok = not problems and not unknowns and n_sites > 0
    why = f"{n_sites} construction sites of EmailAttachment"
    if problems:
        why += "; VIOLATED: " + "; ".join(problems)
    if unknowns:
        why += "; NOT RECOGNISED: " + "; ".join(unknowns)
    if n_sites == 0:
        why += "; none found (the record class is constructed somewhere this scan does not see)"
    o = {"id": "C01/data_types.py::EmailAttachment/policy#flag-is-is_supported_mime_type-of-the-stored-type", "kind": "policy",
         "status": "proved" if status_ok else "unknown", "vcs": max(n_sites, 1), "seconds": 0.0, "backends": {"dataflow": max(n_sites, 1)}, "witness": None,
         "reason": why[:600], "loc": DT, "function": f"{DT}::EmailAttachment"}
    if not status_ok:
        o["replay_hint"] = {"family": "attachments"}
    obls.append(o)
    return {"obligations": obls, "functions": []}


def _self_store_in_other_class(mod, stmt):
    """`self.mime_type = ..` inside a class other than EmailAttachment is a field of another record"""
    for cls in ast.walk(mod.tree):
        if isinstance(cls, ast.ClassDef) and cls.name != "EmailAttachment":
            for x in ast.walk(cls):
                if x is stmt:
                    tg = stmt.targets if isinstance(stmt, ast.Assign) else [stmt.target]
                    return all(isinstance(t, ast.Attribute) and isinstance(t.value, ast.Name) and t.value.id == "self" for t in tg)
    return False


# ------------------------------------------------------------------ (3) the generator --
def _run_generator(repo, tier, with_invariant):
    from pyvc import verify
    from pyvc.contracts import Registry
    from pyvc.exctypes import Universe
    from contracts import C07, C16
    reg = Registry()
    cs = C16.contracts(reg)
    for c in cs:
        reg.add(c)
    isa = [c for c in cs if c.target == ISA]
    if not isa:
        return None, "contract missing"
    c = isa[0]
    reg.ext_models.setdefault("mimetypes.guess_extension", C07.m_guess_extension)
    _str_models(reg)
    MIMES = C07.tables()[3]
    base_hyps = c.hyps

    def hyps(ctx):
        # record invariant of EmailAttachment (obligations 1 + 2 of this module): flag => declared type is a key of the table
        fl = C16.fld("EmailAttachment", "is_supported_mime_type", z3.BoolSort())
        mt = C16.fld("EmailAttachment", "mime_type", z3.StringSort())
        a = z3.Const("att!c01", fl.domain(0))
        inv = z3.ForAll([a], z3.Implies(fl(a), z3.Or([mt(a) == z3.StringVal(k) for k in MIMES])), patterns=[fl(a)])
        b = base_hyps(ctx) if base_hyps is not None else z3.BoolVal(True)
        return z3.And(b, inv)

    if with_invariant:
        c.hyps = hyps
    c.loops = {}          # the per-attachment dispatch / stream invariant is C07's and C16's; here: what can escape
    rep = verify.run_contract("C01", c, reg, Universe(repo), repo=repo, timeout_ms=60000 if tier == "thorough" else None,
                              executor_cls=C16.EXECUTOR, executor_kw=C16.EXECUTOR_KW.get(ISA))
    if rep.error == "contract-target-missing":
        return None, "EmailContent.iterate_supported_attachments not found"
    if rep.error or rep.out_of_subset:
        return None, ("ENGINE-ERROR " + rep.error) if rep.error else ("OUT-OF-SUBSET " + rep.out_of_subset)
    keep = [o for o in rep.obligations if o["id"].endswith("/raises")]
    if not keep:
        return None, "no raises obligation generated"
    for o in keep:
        o["function"] = ISA
    return (keep, dict(rep.info, paths=rep.paths, obligations=len(keep))), ""


def attachment_surface(repo, tier):
    """The generator first WITHOUT any assumption about the records (the flag and the declared type are independent fields of a public
    dataclass): proved -> nothing else is needed.  Otherwise with the record invariant as hypothesis, and then the two obligations the
    invariant rests on become part of the proof (lemmas on demand: they only appear in a tree whose generator relies on them)."""
    short = "C01/data_types.py::EmailContent.iterate_supported_attachments"
    _ACTIVE.append(1)
    try:
        return _attachment_surface(repo, tier, short)
    finally:
        _ACTIVE.pop()


def _attachment_surface(repo, tier, short):
    free, why = _run_generator(repo, tier, False)
    if free is None:
        return {"obligations": [_unknown(short + "/out-of-subset", why, ISA)], "functions": []}
    if all(o.get("status") == "proved" for o in free[0]):
        for o in free[0]:
            o["reason"] = ((o.get("reason") or "") + " [for arbitrary records: no assumption relating is_supported_mime_type to mime_type]").strip()
        return {"obligations": free[0], "functions": [free[1]]}
    inv, why = _run_generator(repo, tier, True)
    if inv is None or not all(o.get("status") == "proved" for o in inv[0]):
        # not provable even for records as the extractors build them: the result for arbitrary records (refuted with its model, or unknown)
        for o in free[0]:
            o["replay_hint"] = {"family": "attachments"}
        return {"obligations": free[0], "functions": [free[1]]}
    obls = inv[0]
    for o in obls:
        o["reason"] = ((o.get("reason") or "") + " [under the record invariant flag => mime_type in MIME_TYPE_MAPPING: see is_supported_mime_type/ensures# and "
                       "EmailAttachment/policy#; for arbitrary records: " + "; ".join(f"{x.get('status')} {str(x.get('reason'))[:80]}" for x in free[0]) + "]").strip()
    fns = [inv[1]]
    for part in (flag_function, construction_sites):
        r = part(repo, tier)
        obls += r["obligations"]
        fns += r["functions"]
    return {"obligations": obls, "functions": fns}


def guarded(fn, oid, function):
    def run(repo, tier):
        try:
            return fn(repo, tier)
        except Exception as e:  # noqa  (pack code on an unforeseen shape: undecided, never a crash)
            return {"obligations": [_unknown(oid, f"{type(e).__name__}: {e}", function)], "functions": []}
    run.__name__ = fn.__name__
    return run


EXTRA = [guarded(attachment_surface, "C01/data_types.py::EmailContent.iterate_supported_attachments/out-of-subset", ISA)]
