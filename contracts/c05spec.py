"""C05 spec level: the Python value universe V, type hints H, and the spec functions
SER / DESER / json_ok written from the property statement (markers `_type`, `_bytes`,
`_bytesio`; binary payloads become null when excluded).  DESIGN Appendix B.

Lists are cons-lists (VL), string-keyed mappings and dataclass field lists are
association lists in insertion order (KV).  Everything is total; the real functions
are related to these by the contracts in contracts/C05.py.
"""
import z3

S, B, I, R = z3.StringSort(), z3.BoolSort(), z3.IntSort(), z3.RealSort()
Bin = z3.DeclareSort("Bin")            # a binary payload (opaque)
sv = z3.StringVal

# Spec functions are *uninterpreted* symbols plus a definition table; `norm` unfolds a definition exactly
# where the principal (first) argument is headed by a constructor (definitional rewriting, lifted through
# if-then-else).  The solver therefore only ever sees quantifier-free formulas -- z3's own recursive-function
# unfolding diverged on these (measured: 20 s timeouts on 1-unfolding goals).
DEFS = {}


def RecFunction(name, *sig):
    return z3.Function(name, *sig)


def RecAddDefinition(f, params, body):
    DEFS[f.name()] = (f, list(params), body)


V = z3.Datatype("PyV")
VL = z3.Datatype("PyVL")
KV = z3.Datatype("PyKV")
V.declare("Non")
V.declare("Bool", ("b", B))
V.declare("Int", ("i", I))
V.declare("Float", ("r", R))               # finite floats only (PY-FLOAT-REAL)
V.declare("Str", ("s", S))
V.declare("Bytes", ("bp", Bin))            # bytes / bytearray
V.declare("BytesIO", ("iop", Bin))
V.declare("List", ("items", VL))
V.declare("Tuple", ("titems", VL))
V.declare("Set", ("sitems", VL))           # in its (process-fixed) iteration order
V.declare("Dict", ("ents", KV))            # string keys, insertion order
V.declare("DC", ("cls", S), ("flds", KV))  # dataclass instance: class name, fields in declaration order
V.declare("Other", ("kind", I))            # any other Python object (datetime, timedelta, Decimal, ...)
VL.declare("nil")
VL.declare("cons", ("hd", V), ("tl", VL))
KV.declare("knil")
KV.declare("kcons", ("key", S), ("val", V), ("rest", KV))
V, VL, KV = z3.CreateDatatypes(V, VL, KV)

# kinds of Other
K_DATETIME, K_DATE, K_TIME, K_TIMEDELTA, K_DECIMAL, K_OBJECT = 1, 2, 3, 4, 5, 9
KIND_NAMES = {1: "datetime.datetime", 2: "datetime.date", 3: "datetime.time", 4: "datetime.timedelta", 5: "decimal.Decimal", 9: "object"}

SL = z3.Datatype("StrL")
SL.declare("snil")
SL.declare("scons", ("shd", S), ("stl", SL))
SL = SL.create()

H = z3.Datatype("Hint")
H.declare("HAny")
H.declare("HPrim", ("pk", I))              # str / int / float / bool (1..4)
H.declare("HBytes")
H.declare("HBytearray")
H.declare("HBytesIO")
H.declare("HOpt", ("oarg", H))             # typing.Optional[X] == typing.Union[X, None]
H.declare("H604", ("uarg", H))             # X | None  (types.UnionType: NOT unwrapped by _unwrap_optional on Python < 3.14)
H.declare("HList", ("larg", H))
H.declare("HListBare")
H.declare("HDict", ("dkey", H), ("dval", H))
H.declare("HDictBare")
H.declare("HCls", ("cname", S))            # a class object (dataclass, Protocol, ...)
H.declare("HOther", ("ok", I))             # any other annotation (not a class, not a covered generic)
H = H.create()

MARKERS = ("_type", "_bytes", "_bytesio")

# assumed inverse pair (base64.b64encode / b64decode through utf-8)
B64 = z3.Function("B64", Bin, S)
UNB64 = z3.Function("UNB64", S, Bin)
# the registry (reflective): registered class names, declared field list, field hint, defaults
REG = z3.Function("REG", S, B)
FIELDS = z3.Function("FIELDS", S, SL)
FH = z3.Function("FH", S, S, H)
HASDEF = z3.Function("HASDEF", S, S, B)
DEFAULT = z3.Function("DEFAULT", S, S, V)
STROFX = z3.Function("STROFX", V, S)       # payload of a marker that is not a str: unspecified
STROF = RecFunction("STROF", V, S)

_v, _l, _k, _b, _h, _s, _n = z3.Const("v", V), z3.Const("l", VL), z3.Const("k", KV), z3.Bool("b"), z3.Const("h", H), z3.String("s"), z3.Const("n", SL)


def ite(*pairs_and_default):
    *pairs, default = pairs_and_default
    out = default
    for c, x in reversed(pairs):
        out = z3.If(c, x, out)
    return out


def one(key, val):
    return KV.kcons(sv(key) if isinstance(key, str) else key, val, KV.knil)


RecAddDefinition(STROF, [_v], z3.If(V.is_Str(_v), V.s(_v), STROFX(_v)))

# ------------------------------------------------------------- mapping helpers --
HASKEY = RecFunction("HASKEY", KV, S, B)
GET = RecFunction("GET", KV, S, V)
RecAddDefinition(HASKEY, [_k, _s], z3.And(KV.is_kcons(_k), z3.Or(KV.key(_k) == _s, HASKEY(KV.rest(_k), _s))))
RecAddDefinition(GET, [_k, _s], z3.If(KV.is_knil(_k), V.Non, z3.If(KV.key(_k) == _s, KV.val(_k), GET(KV.rest(_k), _s))))
DSET = RecFunction("DSET", KV, S, V, KV)     # d[k] = x  (replace in place or append)
_x = z3.Const("x", V)
RecAddDefinition(DSET, [_k, _s, _x], z3.If(KV.is_knil(_k), KV.kcons(_s, _x, KV.knil),
                                               z3.If(KV.key(_k) == _s, KV.kcons(_s, _x, KV.rest(_k)),
                                                     KV.kcons(KV.key(_k), KV.val(_k), DSET(KV.rest(_k), _s, _x)))))
APP = RecFunction("APP", KV, KV, KV)
_k2 = z3.Const("k2", KV)
RecAddDefinition(APP, [_k, _k2], z3.If(KV.is_knil(_k), _k2, KV.kcons(KV.key(_k), KV.val(_k), APP(KV.rest(_k), _k2))))
DISTINCT = RecFunction("DISTINCT", KV, B)
RecAddDefinition(DISTINCT, [_k], z3.Or(KV.is_knil(_k), z3.And(z3.Not(HASKEY(KV.rest(_k), KV.key(_k))), DISTINCT(KV.rest(_k)))))
KEYS = RecFunction("KEYS", KV, SL)
RecAddDefinition(KEYS, [_k], z3.If(KV.is_knil(_k), SL.snil, SL.scons(KV.key(_k), KEYS(KV.rest(_k)))))
MEMS = RecFunction("MEMS", SL, S, B)
RecAddDefinition(MEMS, [_n, _s], z3.And(SL.is_scons(_n), z3.Or(SL.shd(_n) == _s, MEMS(SL.stl(_n), _s))))
LEN = RecFunction("LEN", VL, I)
NTH = RecFunction("NTH", VL, I, V)
_i = z3.Int("i")
RecAddDefinition(LEN, [_l], z3.If(VL.is_nil(_l), 0, 1 + LEN(VL.tl(_l))))
RecAddDefinition(NTH, [_l, _i], z3.If(VL.is_nil(_l), V.Non, z3.If(_i <= 0, VL.hd(_l), NTH(VL.tl(_l), _i - 1))))


def is_marker(s):
    return z3.Or([s == sv(m) for m in MARKERS])


def has_marker(k):
    return z3.Or([HASKEY(k, sv(m)) for m in MARKERS])


# -------------------------------------------------------------------- SER --
SER = RecFunction("SER", V, B, V)
SERL = RecFunction("SERL", VL, B, VL)
SERKV = RecFunction("SERKV", KV, B, KV)
RecAddDefinition(SER, [_v, _b], ite(
    (V.is_BytesIO(_v), z3.If(_b, V.Dict(one("_bytesio", V.Str(B64(V.iop(_v))))), V.Non)),
    (V.is_Bytes(_v), z3.If(_b, V.Dict(one("_bytes", V.Str(B64(V.bp(_v))))), V.Non)),
    (V.is_DC(_v), V.Dict(KV.kcons(sv("_type"), V.Str(V.cls(_v)), SERKV(V.flds(_v), _b)))),
    (V.is_Dict(_v), V.Dict(SERKV(V.ents(_v), _b))),
    (V.is_List(_v), V.List(SERL(V.items(_v), _b))),
    (V.is_Tuple(_v), V.List(SERL(V.titems(_v), _b))),
    (V.is_Set(_v), V.List(SERL(V.sitems(_v), _b))),
    _v))
RecAddDefinition(SERL, [_l, _b], z3.If(VL.is_nil(_l), VL.nil, VL.cons(SER(VL.hd(_l), _b), SERL(VL.tl(_l), _b))))
RecAddDefinition(SERKV, [_k, _b], z3.If(KV.is_knil(_k), KV.knil, KV.kcons(KV.key(_k), SER(KV.val(_k), _b), SERKV(KV.rest(_k), _b))))


def SX(v, b):
    """serialize_extraction: always an object."""
    s = SER(v, b)
    return z3.If(V.is_Dict(s), s, V.Dict(one("value", s)))


# ---------------------------------------------------------------- json_ok --
JOK = RecFunction("JOK", V, B)
JOKL = RecFunction("JOKL", VL, B)
JOKKV = RecFunction("JOKKV", KV, B)
RecAddDefinition(JOK, [_v], z3.Or(V.is_Non(_v), V.is_Bool(_v), V.is_Int(_v), V.is_Float(_v), V.is_Str(_v),
                                     z3.And(V.is_List(_v), JOKL(V.items(_v))), z3.And(V.is_Dict(_v), JOKKV(V.ents(_v)))))
RecAddDefinition(JOKL, [_l], z3.Or(VL.is_nil(_l), z3.And(JOK(VL.hd(_l)), JOKL(VL.tl(_l)))))
RecAddDefinition(JOKKV, [_k], z3.Or(KV.is_knil(_k), z3.And(JOK(KV.val(_k)), JOKKV(KV.rest(_k)))))


def scalar_ok(v):
    """JSON-able leaf: what may flow into an Any-typed field."""
    return z3.Or(V.is_Non(v), V.is_Bool(v), V.is_Int(v), V.is_Float(v), V.is_Str(v))


# ----------------------------------------------------------- well-formedness --
# WF(v): no foreign object anywhere; dataclass instances have distinct field names none of which is a marker.
# NOMARK(v): no *mapping from document content* (Dict) has a key equal to a marker  (known finding F6 = its negation)
WF = RecFunction("WF", V, B)
WFL = RecFunction("WFL", VL, B)
WFKV = RecFunction("WFKV", KV, B)
RecAddDefinition(WF, [_v], z3.And(
    z3.Not(V.is_Other(_v)),
    z3.Implies(V.is_List(_v), WFL(V.items(_v))), z3.Implies(V.is_Tuple(_v), WFL(V.titems(_v))), z3.Implies(V.is_Set(_v), WFL(V.sitems(_v))),
    z3.Implies(V.is_Dict(_v), z3.And(WFKV(V.ents(_v)), DISTINCT(V.ents(_v)))),
    z3.Implies(V.is_DC(_v), z3.And(WFKV(V.flds(_v)), DISTINCT(V.flds(_v)), z3.Not(has_marker(V.flds(_v))),
                                   REG(V.cls(_v)), V.cls(_v) != sv(""), KEYS(V.flds(_v)) == FIELDS(V.cls(_v))))))
RecAddDefinition(WFL, [_l], z3.Or(VL.is_nil(_l), z3.And(WF(VL.hd(_l)), WFL(VL.tl(_l)))))
RecAddDefinition(WFKV, [_k], z3.Or(KV.is_knil(_k), z3.And(WF(KV.val(_k)), WFKV(KV.rest(_k)))))

NOMARK = RecFunction("NOMARK", V, B)
NOMARKL = RecFunction("NOMARKL", VL, B)
NOMARKKV = RecFunction("NOMARKKV", KV, B)
RecAddDefinition(NOMARK, [_v], z3.And(
    z3.Implies(V.is_List(_v), NOMARKL(V.items(_v))), z3.Implies(V.is_Tuple(_v), NOMARKL(V.titems(_v))), z3.Implies(V.is_Set(_v), NOMARKL(V.sitems(_v))),
    z3.Implies(V.is_Dict(_v), z3.And(z3.Not(has_marker(V.ents(_v))), NOMARKKV(V.ents(_v)))),
    z3.Implies(V.is_DC(_v), NOMARKKV(V.flds(_v)))))
RecAddDefinition(NOMARKL, [_l], z3.Or(VL.is_nil(_l), z3.And(NOMARK(VL.hd(_l)), NOMARKL(VL.tl(_l)))))
RecAddDefinition(NOMARKKV, [_k], z3.Or(KV.is_knil(_k), z3.And(NOMARK(KV.val(_k)), NOMARKKV(KV.rest(_k)))))


def has_marker_key(v):
    return z3.Not(NOMARK(v))


# ------------------------------------------------------------------- hints --
def UNW(h):
    return z3.If(H.is_HOpt(h), H.oarg(h), z3.If(H.is_H604(h), H.uarg(h), h))


def simple_hint(h):
    """Hints under which the decoder never looks at the hint (beyond markers)."""
    return z3.Or(H.is_HAny(h), H.is_HPrim(h), H.is_HOther(h))


COV = RecFunction("COV", H, B)   # hint shapes the real decoder handles as DESER does
RecAddDefinition(COV, [_h], ite(
    (H.is_HOpt(_h), z3.And(COV(H.oarg(_h)), z3.Not(H.is_HOpt(H.oarg(_h))), z3.Not(H.is_H604(H.oarg(_h))))),
    (H.is_H604(_h), simple_hint(H.uarg(_h))),
    (H.is_HList(_h), COV(H.larg(_h))),
    (H.is_HDict(_h), z3.And(COV(H.dval(_h)), H.dkey(_h) == H.HPrim(1))),
    z3.BoolVal(True)))

# ------------------------------------------------------------------ DESER --
DESER = RecFunction("DESER", V, H, V)
DESERL = RecFunction("DESERL", VL, H, VL)
DESERKV = RecFunction("DESERKV", KV, H, KV)          # values of a mapping, one value hint
BUILD = RecFunction("BUILD", SL, KV, S, KV)          # constructor call: declared fields looked up in the data
NOCLS = sv("")


def DESERDC(ents, exp):
    """_type names a registered class -> that class; else the expected class; else the dict itself."""
    tn = GET(ents, sv("_type"))
    named = z3.And(HASKEY(ents, sv("_type")), V.is_Str(tn), V.s(tn) != sv(""), REG(V.s(tn)))
    cls = z3.If(named, V.s(tn), exp)
    data = compat_shim(ents, cls)
    return z3.If(z3.Or(named, exp != NOCLS), V.DC(cls, BUILD(FIELDS(cls), data, cls)), V.Dict(ents))


def compat_shim(ents, cls):
    """Renamed ImageMetadata fields of older encodings (unit_index / image_index)."""
    e1 = z3.If(z3.And(z3.Not(HASKEY(ents, sv("unit_number"))), HASKEY(ents, sv("unit_index"))),
               DSET(ents, sv("unit_number"), GET(ents, sv("unit_index"))), ents)
    e2 = z3.If(z3.And(z3.Not(HASKEY(e1, sv("image_number"))), HASKEY(e1, sv("image_index"))),
               DSET(e1, sv("image_number"), GET(e1, sv("image_index"))), e1)
    return z3.If(cls == sv("ImageMetadata"), e2, ents)


def _deser_body(j, h):
    e = UNW(h)
    ents = V.ents(j)
    by_hint = ite(
        (H.is_HList(e), z3.If(V.is_List(j), V.List(DESERL(V.items(j), H.larg(e))), j)),
        (H.is_HListBare(e), z3.If(V.is_List(j), V.List(DESERL(V.items(j), H.HAny)), j)),
        (H.is_HDict(e), z3.If(V.is_Dict(j), V.Dict(DESERKV(ents, H.dval(e))), j)),
        (H.is_HDictBare(e), z3.If(V.is_Dict(j), V.Dict(DESERKV(ents, H.HAny)), j)),
        (z3.Or(H.is_HBytes(e), H.is_HBytearray(e)), z3.If(V.is_Str(j), V.Bytes(UNB64(V.s(j))), j)),
        (H.is_HBytesIO(e), z3.If(V.is_Str(j), V.BytesIO(UNB64(V.s(j))), j)),
        (z3.And(H.is_HCls(e), REG(H.cname(e))), z3.If(V.is_Dict(j), DESERDC(ents, H.cname(e)), j)),
        j)
    return ite(
        (V.is_Non(j), V.Non),
        (z3.And(V.is_Dict(j), HASKEY(ents, sv("_bytesio"))), V.BytesIO(UNB64(STROF(GET(ents, sv("_bytesio")))))),
        (z3.And(V.is_Dict(j), HASKEY(ents, sv("_bytes"))), V.Bytes(UNB64(STROF(GET(ents, sv("_bytes")))))),
        (z3.And(V.is_Dict(j), HASKEY(ents, sv("_type"))), DESERDC(ents, NOCLS)),
        by_hint)


RecAddDefinition(DESER, [_v, _h], _deser_body(_v, _h))
RecAddDefinition(DESERL, [_l, _h], z3.If(VL.is_nil(_l), VL.nil, VL.cons(DESER(VL.hd(_l), _h), DESERL(VL.tl(_l), _h))))
RecAddDefinition(DESERKV, [_k, _h], z3.If(KV.is_knil(_k), KV.knil, KV.kcons(KV.key(_k), DESER(KV.val(_k), _h), DESERKV(KV.rest(_k), _h))))
_c = z3.String("c")
RecAddDefinition(BUILD, [_n, _k, _c], z3.If(
    SL.is_snil(_n), KV.knil,
    KV.kcons(SL.shd(_n), z3.If(HASKEY(_k, SL.shd(_n)), DESER(GET(_k, SL.shd(_n)), FH(_c, SL.shd(_n))), DEFAULT(_c, SL.shd(_n))),
             BUILD(SL.stl(_n), _k, _c))))
BUILDM = RecFunction("BUILDM", SL, z3.ArraySort(S, B), z3.ArraySort(S, V), S, KV)   # dataclass __init__ from a keyword map
_has, _val = z3.Const("has", z3.ArraySort(S, B)), z3.Const("val", z3.ArraySort(S, V))
RecAddDefinition(BUILDM, [_n, _has, _val, _c], z3.If(
    SL.is_snil(_n), KV.knil,
    KV.kcons(SL.shd(_n), z3.If(z3.Select(_has, SL.shd(_n)), z3.Select(_val, SL.shd(_n)), DEFAULT(_c, SL.shd(_n))), BUILDM(SL.stl(_n), _has, _val, _c))))
# STROF of a str is the str
STROF_AX = lambda x: z3.Implies(V.is_Str(x), STROF(x) == V.s(x))


def typename(v):
    return z3.If(V.is_DC(v), V.cls(v), sv(""))


# binary exclusion: NULLBIN(j) = j with exactly the binary leaves nulled, defined on the *values* (not on the encoding)
BINFREE = RecFunction("BINFREE", V, V)      # the value with every binary leaf replaced by None
BINFREEL = RecFunction("BINFREEL", VL, VL)
BINFREEKV = RecFunction("BINFREEKV", KV, KV)
RecAddDefinition(BINFREE, [_v], ite(
    (z3.Or(V.is_Bytes(_v), V.is_BytesIO(_v)), V.Non),
    (V.is_List(_v), V.List(BINFREEL(V.items(_v)))), (V.is_Tuple(_v), V.Tuple(BINFREEL(V.titems(_v)))), (V.is_Set(_v), V.Set(BINFREEL(V.sitems(_v)))),
    (V.is_Dict(_v), V.Dict(BINFREEKV(V.ents(_v)))), (V.is_DC(_v), V.DC(V.cls(_v), BINFREEKV(V.flds(_v)))),
    _v))
RecAddDefinition(BINFREEL, [_l], z3.If(VL.is_nil(_l), VL.nil, VL.cons(BINFREE(VL.hd(_l)), BINFREEL(VL.tl(_l)))))
RecAddDefinition(BINFREEKV, [_k], z3.If(KV.is_knil(_k), KV.knil, KV.kcons(KV.key(_k), BINFREE(KV.val(_k)), BINFREEKV(KV.rest(_k)))))


# ------------------------------------------------------------------ typing --
# INH(v, h): v may sit in a slot annotated h.  Deliberately generous (None anywhere, any scalar under any
# primitive hint, subclasses under a class hint, tuples/sets in list slots): a weaker premise = a stronger theorem.
INH = RecFunction("INH", V, H, B)
INHL = RecFunction("INHL", VL, H, B)
INHKV = RecFunction("INHKV", KV, H, B)
TYPED = RecFunction("TYPED", KV, S, B)       # every field value inhabits the hint the class declares for it


def bytesish(e):
    return z3.Or(H.is_HBytes(e), H.is_HBytearray(e), H.is_HBytesIO(e))


def _inh_body(v, h):
    e = UNW(h)
    listy = z3.Or(H.is_HList(e), H.is_HListBare(e))
    eh = z3.If(H.is_HList(e), H.larg(e), H.HAny)
    dicty = z3.Or(H.is_HDict(e), H.is_HDictBare(e))
    dh = z3.If(H.is_HDict(e), H.dval(e), H.HAny)
    seq = lambda l: z3.Implies(listy, INHL(l, eh))
    return ite(
        (V.is_Str(v), z3.Not(bytesish(e))),
        (V.is_List(v), seq(V.items(v))), (V.is_Tuple(v), seq(V.titems(v))), (V.is_Set(v), seq(V.sitems(v))),
        (V.is_Dict(v), z3.And(z3.Not(z3.And(H.is_HCls(e), REG(H.cname(e)))), z3.Implies(dicty, INHKV(V.ents(v), dh)))),
        (V.is_DC(v), TYPED(V.flds(v), V.cls(v))),
        z3.BoolVal(True))


RecAddDefinition(INH, [_v, _h], _inh_body(_v, _h))
RecAddDefinition(INHL, [_l, _h], z3.Or(VL.is_nil(_l), z3.And(INH(VL.hd(_l), _h), INHL(VL.tl(_l), _h))))
RecAddDefinition(INHKV, [_k, _h], z3.Or(KV.is_knil(_k), z3.And(INH(KV.val(_k), _h), INHKV(KV.rest(_k), _h))))
RecAddDefinition(TYPED, [_k, _c], z3.Or(KV.is_knil(_k), z3.And(INH(KV.val(_k), FH(_c, KV.key(_k))), COV(FH(_c, KV.key(_k))), TYPED(KV.rest(_k), _c))))

AGREE = RecFunction("AGREE", KV, KV, B)      # every entry (k, x) of s: j[k] == SER(x, True)
RecAddDefinition(AGREE, [_k, _k2], z3.Or(KV.is_knil(_k), z3.And(HASKEY(_k2, KV.key(_k)), GET(_k2, KV.key(_k)) == SER(KV.val(_k), z3.BoolVal(True)),
                                                                   AGREE(KV.rest(_k), _k2))))


# ------------------------------------------------------------- the rewriter --
_NCACHE = {}


def _is_ctor_headed(a):
    return z3.is_app(a) and a.decl().kind() == z3.Z3_OP_DT_CONSTRUCTOR


def norm(e, depth=0):
    """Normal form of a term/formula under the definitions in DEFS (see above)."""
    if isinstance(e, bool):
        return z3.BoolVal(e)
    k = e.get_id()
    r = _NCACHE.get(k)
    if r is not None:
        return r[1]
    r = _norm(e, depth)
    _NCACHE[k] = (e, r)          # keep e alive so that ids are not recycled
    return r


def _norm(e, depth):
    if depth > 400:
        raise RuntimeError("c05spec.norm: rewriting too deep")
    if z3.is_quantifier(e) or not z3.is_app(e) or e.num_args() == 0:
        return e
    args = [norm(a, depth + 1) for a in e.children()]
    d = e.decl()
    if d.kind() == z3.Z3_OP_UNINTERPRETED and d.name() in DEFS:
        f, params, body = DEFS[d.name()]
        a0 = z3.simplify(args[0])
        if z3.is_app(a0) and a0.decl().kind() == z3.Z3_OP_ITE:
            c, p, q = a0.children()
            return norm(z3.If(c, f(p, *args[1:]), f(q, *args[1:])), depth + 1)
        if _is_ctor_headed(a0):
            inst = z3.substitute(body, *[(pv, av) for pv, av in zip(params, [a0] + args[1:])])
            return norm(z3.simplify(inst), depth + 1)
        return f(a0, *args[1:])
    if d.kind() == z3.Z3_OP_ITE:
        c = z3.simplify(args[0])
        if z3.is_true(c):
            return args[1]
        if z3.is_false(c):
            return args[2]
        return z3.If(c, args[1], args[2])
    try:
        out = d(*args)
    except Exception:  # noqa  (variadic / special declarations): rebuild through substitution
        out = z3.substitute(e, *[(o, n) for o, n in zip(e.children(), args) if o.get_id() != n.get_id()])
    s = z3.simplify(out)
    if s.get_id() != out.get_id() and _has_redex(s):
        return norm(s, depth + 1)
    return s


def defn(app):
    """The defining equation of a spec function instantiated at `app`'s (possibly symbolic) arguments."""
    f, params, body = DEFS[app.decl().name()]
    return app == z3.substitute(body, *[(pv, av) for pv, av in zip(params, app.children())])


def _has_redex(e):
    seen, stack = set(), [e]
    while stack:
        x = stack.pop()
        if x.get_id() in seen or not z3.is_app(x):
            continue
        seen.add(x.get_id())
        d = x.decl()
        if d.kind() == z3.Z3_OP_UNINTERPRETED and d.name() in DEFS and x.num_args() and \
                (_is_ctor_headed(x.arg(0)) or (z3.is_app(x.arg(0)) and x.arg(0).decl().kind() == z3.Z3_OP_ITE)):
            return True
        stack.extend(x.children())
    return False


# -------------------------------------------- precondition of the encoder --
# SEROK(v): every dataclass instance inside v has distinct field names, none of them `_type`
# (a language fact for the first half, a registry obligation for the second).
SEROK = RecFunction("SEROK", V, B)
SEROKL = RecFunction("SEROKL", VL, B)
SEROKKV = RecFunction("SEROKKV", KV, B)
RecAddDefinition(SEROK, [_v], ite(
    (V.is_List(_v), SEROKL(V.items(_v))), (V.is_Tuple(_v), SEROKL(V.titems(_v))), (V.is_Set(_v), SEROKL(V.sitems(_v))),
    (V.is_Dict(_v), SEROKKV(V.ents(_v))),
    (V.is_DC(_v), z3.And(DISTINCT(V.flds(_v)), z3.Not(HASKEY(V.flds(_v), sv("_type"))), SEROKKV(V.flds(_v)))),
    z3.BoolVal(True)))
RecAddDefinition(SEROKL, [_l], z3.Or(VL.is_nil(_l), z3.And(SEROK(VL.hd(_l)), SEROKL(VL.tl(_l)))))
RecAddDefinition(SEROKKV, [_k], z3.Or(KV.is_knil(_k), z3.And(SEROK(KV.val(_k)), SEROKKV(KV.rest(_k)))))
MEMV = RecFunction("MEMV", VL, V, B)
RecAddDefinition(MEMV, [_l, _x], z3.And(VL.is_cons(_l), z3.Or(VL.hd(_l) == _x, MEMV(VL.tl(_l), _x))))
MEMKV = RecFunction("MEMKV", KV, S, V, B)
RecAddDefinition(MEMKV, [_k, _s, _x], z3.And(KV.is_kcons(_k), z3.Or(z3.And(KV.key(_k) == _s, KV.val(_k) == _x), MEMKV(KV.rest(_k), _s, _x))))
