"""C10 -- archive members come out as themselves: right bytes, name, order.

Specification sources (never the code): the 7z format description (7zFormat.txt of the 7-Zip SDK) for NUMBER, bit
vectors, PackInfo / UnpackInfo / Folder / SubStreamsInfo / FilesInfo and the folder / sub-stream layout (DESIGN
Appendix B "7z layout"); the property statement for the member loops (archive order, `archive!/member` path, extractor
chosen by the member's base name, a failing member affects only itself); the published magic numbers of ZIP / 7z /
gzip / bzip2 / xz / ustar and the documented tarfile modes.

Layers (each is a set of obligations generated from the real source on every run):
 (a) byte-level readers of sevenzip.py over an abstract byte stream with a ghost position: _read_bytes,
     _read_uint8/32/64, _read_number (= 7z NUMBER, bit-vectors, all byte streams), _read_boolean_vector (any count) and
     _parse_pack_info (any number of pack streams, all digest layouts) against the format grammar; BOUNDED (thorough
     tier): _parse_folder, _parse_unpack_info, _parse_substreams_info (small shapes, every stream byte symbolic);
     BOUNDED native scope (every run): reference writers x layouts x member sets on the real code, the stand-in for
     _parse_files_info / _parse_encoded_header / _skip_substreams_info, which are not under contract;
     round 7: the header DISPATCHERS are under discharged contracts over any stream -- _parse_header (signature header, CRCs
     uninterpreted), _parse_end_header, _parse_main_header (incl. an ArchiveProperties list of any length), _parse_streams_info
     (which section parser runs where, in grammar order, final position, exact refusal condition; the section parsers are seen
     through call-site views) -- and so is the facade chain SevenZipFile.__init__/__enter__/__exit__/list/needs_password/
     extractall -> SevenZipReader.__init__ -> _parse_header (the reader is built on the facade's own file);
 (b) _build_file_list (any number of files / folders): file i gets its name, attributes and the size of its
     sub-stream; the r-th stream-bearing file goes to the folder k with cum(k) <= r < cum(k) + num_streams(k);
 (c) extractall / _decompress_folder: the bytes handed to the decoder chain of folder k are
     archive[pack_pos + sum(pack_sizes[:k]) : + pack_sizes[k]], coders applied last-first (F10, fixed); entries with
     emptyStream + emptyFile are zero-length FILES: not directories, not in the file->folder map, created empty (F25);
 (d) _extract_files_from_folder: member j of a folder is out(k)[off_j : off_j + size_j], off_j = sum of earlier sizes;
 (e) member loops of archive_extractor.py: ZIP / TAR / 7z selection in container order, one dispatch per selected
     member with the member's own bytes, name, base name and `archive!/member` path; _process_archive_entry calls
     get_extractor(basename)(BytesIO(bytes), path=...) once, yields all its results in order, raises nothing;
 (f) magic-byte table -> archive type -> member loop / tar mode.
Loops over symbolic sequences carry *per-iteration ghost-event invariants*: the invariant-preservation VC of
iteration i states exactly which events (append / write / yield / map) the iteration produced and with which values;
`member-loops-run-to-completion` rules out early exits.  The end-to-end statement is the composition of these layers
(PY-LIST-ORDER for lists built by append); `decode` (lzma), zipfile / tarfile member reads, the file system and the
member extractors are uninterpreted (Trust).  Robustness (round 3): loop specifications are selected by ROLE (what the loop iterates over, never its position or
the names of locals) and follow a loop into helpers the code is refactored into (helpers are executed in place);
a comprehension is executed as the loop it abbreviates; `yield from gen` carries the obligation of the `for`/`yield`
loop it replaces.  A refutation at the SMT level is never reported by itself: every refuted obligation, every
obligation whose clause does not recognise a shape, and every locked obligation the changed code no longer
generates is `unknown` and handed to the native replayer (replay/C10.py); VIOLATION = a failing input reproduced on
the real code.
Recorded known findings: F26, F31 (known_findings.json).  F10, F25 and F27 are fixed in /repo: their input classes are checked
like every other input (replay/C10.py exempts the class of a finding only while known_findings.json lists it as open).
"""
import ast

import z3

from pyvc import loader, ops
from pyvc.contracts import FnContract, LoopSpec, Raises
from pyvc.flow import ground_obligation
from pyvc.state import HeapObj
from pyvc.symex import Executor
from pyvc.values import (NONE, VBool, VBytes, VDictC, VExc, VExt, VFunc, VInt, VRef, VSeq, VStr, VTuple, VType, VUnk,
                         ext_sort, fresh_name)
from pyvc.verify import Maker, p_const, p_ext, p_int, p_obj, p_opt, p_str, p_unk
from contracts import common

SEVEN = "sharepoint2text/parsing/extractors/util/sevenzip.py"
ARCH = "sharepoint2text/parsing/extractors/archive_extractor.py"
RD = f"{SEVEN}::SevenZipReader"
I, B = z3.IntSort(), z3.BoolSort()
BV8, BV64 = z3.BitVecSort(8), z3.BitVecSort(64)
BAD = "Bad7zFile"


def bv(x, w=8):
    return z3.BitVecVal(x, w)


# =============================================================== byte stream ==
# An abstract finite byte string with a ghost read position (contracts/common.py).
Stream = ext_sort("Stream7z")
SB = z3.Function("stream_byte", Stream, I, BV8)      # content
SLEN = z3.Function("stream_len", Stream, I)          # length


def m_stream_read(ex, st, obj, args, kwargs, node):
    """io.BytesIO.read(n): ASSUMED -- returns bytes [pos, min(pos+n, len)) and advances by that many."""
    s = obj.t
    pos, L = common.bytesio_pos(st, obj), SLEN(s)
    n = args[0] if args else VInt(-1)
    if not isinstance(n, VInt):
        return ex.havoc_call(st, "Stream.read", args, node)
    rest = z3.If(pos < L, L - pos, z3.IntVal(0))
    c = n.const()
    out = []
    if c is not None and 0 <= c <= 16:
        full = st.fork()
        if ex.feasible(full.pc, pos + c <= L):
            full.assume(pos + c <= L)
            full.ghost[common.pos_key(obj)] = pos + c
            out.append((full, VBytes([VInt(SB(s, z3.simplify(pos + i))) for i in range(c)])))
        if ex.feasible(st.pc, pos + c > L):
            st.assume(pos + c > L)
            st.ghost[common.pos_key(obj)] = pos + rest
            out.append((st, VSeq(rest, lambda i, pos=pos: VInt(SB(s, pos + i)), "byte", True, tag=("stream-bytes", s, pos, rest))))
        return out
    nt = ops.int_term(n)
    ln = z3.If(z3.Or(nt < 0, nt > rest), rest, nt)
    st.ghost[common.pos_key(obj)] = pos + ln
    return [(st, VSeq(ln, lambda i, pos=pos: VInt(SB(s, pos + i)), "byte", True, tag=("stream-bytes", s, pos, ln)))]


def m_struct_unpack(ex, st, args, kwargs, node):
    """struct.unpack('<B'|'<H'|'<I'|'<Q', b): ASSUMED little-endian unsigned; struct.error on a size mismatch."""
    fmt = args[0].const() if isinstance(args[0], VStr) else None
    sizes = {"<B": 1, "<H": 2, "<I": 4, "<Q": 8}
    data = args[1] if len(args) > 1 else None
    if fmt in sizes and isinstance(data, VBytes):
        if len(data.items) != sizes[fmt]:
            ex.raise_in(st, ex.mk_exc("struct.error"))
            return []
        bs = [ex.as_byte(x).t for x in data.items]
        t = bs[0] if len(bs) == 1 else z3.Concat(*reversed(bs))
        return [(st, VTuple([VInt(t)]))]
    return ex.havoc_call(st, "struct.unpack", args, node)


def m_struct_pack(ex, st, args, kwargs, node):
    """struct.pack('<Q' | '<I', v): ASSUMED little-endian unsigned; struct.error when v is out of range"""
    fmt = args[0].const() if args and isinstance(args[0], VStr) else None
    width = {"<Q": 64, "<I": 32}.get(fmt)
    v = args[1] if len(args) == 2 else None
    if width is None or not isinstance(v, VInt):
        return ex.havoc_call(st, "struct.pack", args, node)
    n = ops.int_term(v)
    st = ex.fork_raise(st, z3.Or(n < 0, n >= 2 ** width), "struct.error")
    if st is None:
        return []
    t = v.t if (v.is_bv and v.t.size() == width) else (z3.ZeroExt(width - v.t.size(), v.t) if v.is_bv and v.t.size() < width else
                                                       (z3.Extract(width - 1, 0, v.t) if v.is_bv else z3.Int2BV(n, width)))
    return [(st, VBytes([VInt(z3.Extract(8 * i + 7, 8 * i, t)) for i in range(width // 8)]))]


def install_stream(reg):
    reg.ext_models["struct.pack"] = m_struct_pack
    reg.ext_models[("havoc", "Stream7z")] = common.havoc_pos
    reg.method_models[("Stream7z", "read")] = m_stream_read
    reg.method_models[("Stream7z", "tell")] = common.m_tell
    reg.method_models[("Stream7z", "seek")] = common.m_seek
    reg.ext_models["struct.unpack"] = m_struct_unpack


# ---------------------------------------------------- 7z NUMBER (format spec) --
#   first byte     extra bytes   value
#   0xxxxxxx                     xxxxxxx
#   10xxxxxx       y[1]          (xxxxxx << 8)  + y
#   110xxxxx       y[2]          (xxxxx  << 16) + y          y little-endian
#   ...
#   1111110x       y[6]          (x << 48) + y
#   11111110       y[7]          y
#   11111111       y[8]          y
def lead_ones(b0):
    """number of leading 1-bits of a byte (Int term)."""
    acc = z3.IntVal(8)
    for k, lim in reversed(list(enumerate((0x80, 0xC0, 0xE0, 0xF0, 0xF8, 0xFC, 0xFE, 0xFF)))):
        acc = z3.If(z3.ULT(b0, bv(lim)), z3.IntVal(k), acc)
    return acc


def number_value(b0, ys):
    """value of the NUMBER whose first byte is b0 and whose following bytes are ys[0..7] (BV64)."""
    cases = []
    for k in range(9):
        low = bv(0, 64)
        for i in range(k):
            low = low | (z3.ZeroExt(56, ys[i]) << (8 * i))
        if k < 7:
            high = z3.ZeroExt(56, b0 & bv(0xFF >> (k + 1))) << (8 * k)
            low = low | high
        cases.append(low)
    k = lead_ones(b0)
    acc = cases[8]
    for j in range(7, -1, -1):
        acc = z3.If(k == j, cases[j], acc)
    return acc


NUMV = z3.RecFunction("number_at", Stream, I, BV64)        # value of the NUMBER encoded at offset p
NUML = z3.RecFunction("number_len_at", Stream, I, I)       # its encoded length (1..9)
_s, _p = z3.Const("s!def", Stream), z3.Int("p!def")
z3.RecAddDefinition(NUML, [_s, _p], 1 + lead_ones(SB(_s, _p)))
z3.RecAddDefinition(NUMV, [_s, _p], number_value(SB(_s, _p), [SB(_s, _p + 1 + i) for i in range(8)]))


def mask_after(r):
    """the bit mask after r (mod 8) bits of the current byte have been consumed: 0 when a new byte is due"""
    acc = bv(0)
    for k in range(7, 0, -1):
        acc = z3.If(r == k, bv(0x80 >> k), acc)
    return acc


BITF = z3.RecFunction("bitvector_bit", Stream, I, I, B)     # bit i of the 7z BitVector stored at offset p (MSB first)
_bi = z3.Int("i!bit")
z3.RecAddDefinition(BITF, [_s, _p, _bi], z3.Or([z3.And(_bi % 8 == k, z3.Extract(7 - k, 7 - k, SB(_s, _p + _bi / 8)) == 1) for k in range(8)]))


# Two spec functions defined by primitive recursion on the count.  They are declared uninterpreted and their defining
# equations are INSTANTIATED where a proof needs them (at 0 and at the loop index): z3's automatic unfolding of recursive
# definitions over a symbolic count made trivial VCs time out (measured: unknown after 8 s vs unsat in 0.01 s).
NUMPOS = z3.Function("numbers_end_at", Stream, I, I, I)          # offset after i consecutive NUMBERs starting at q
DCNT = z3.Function("digests_defined_before", Stream, I, B, I, I)  # number of defined entries among the first i of a Digests vector


def numpos_def(s, q, i):
    """defining equations of NUMPOS at 0 and at i (i >= 0): NUMPOS(0) = q, NUMPOS(i+1) = NUMPOS(i) + len(NUMBER at NUMPOS(i))"""
    return z3.And(NUMPOS(s, q, z3.IntVal(0)) == q,
                  z3.Implies(i >= 0, NUMPOS(s, q, i + 1) == NUMPOS(s, q, i) + NUML(s, NUMPOS(s, q, i))))


def dcnt_def(s, p, ad, i):
    """defining equations of DCNT at 0 and at i (i >= 0): DCNT(0) = 0, DCNT(i+1) = DCNT(i) + [entry i is defined]"""
    return z3.And(DCNT(s, p, ad, z3.IntVal(0)) == 0,
                  z3.Implies(i >= 0, DCNT(s, p, ad, i + 1) == DCNT(s, p, ad, i) + z3.If(z3.Or(ad, BITF(s, p, i)), 1, 0)))



def number_python(data, p=0):
    """The same spec on python bytes (used by the known-answer lemmas and the replayer)."""
    b0 = data[p]
    k = 0
    while k < 8 and b0 & (0x80 >> k):
        k += 1
    y = int.from_bytes(data[p + 1:p + 1 + k], "little")
    hi = (b0 & (0xFF >> (k + 1))) << (8 * k) if k < 7 else 0
    return hi + y, 1 + k


# ------------------------------------------------------- reader-method helpers --
def p_alts(*makers):
    def mk(ex, st, name):
        out = []
        for m in makers:
            out.extend(m.make(ex, st, name))
        return out
    return Maker(mk, desc=" | ".join(m.desc for m in makers))


def p_reader(extra=None):
    f = {"_stream": p_ext("Stream7z")}
    f.update(extra or {})
    return p_obj("SevenZipReader", f)


def stream_of(c, st=None):
    st = st or c.entry
    return st.obj(c.args["self"].ref).data["_stream"]


def pos0(c):
    return common.bytesio_pos(c.entry, stream_of(c))


def pos1(c):
    return common.bytesio_pos(c.st, stream_of(c, c.st))


def req_stream(c):
    """materialise the ghost position (shared by the entry snapshot); the stream is finite."""
    s = stream_of(c, c.st)
    t = common.bytesio_pos(c.st, s)
    c.entry.ghost[common.pos_key(s)] = t
    return SLEN(s.t) >= 0


def frame_stream(ex, st, ctx):
    common.havoc_pos(ex, st, stream_of(ctx, st))


def reader_contract(name, nbytes, value, width):
    """fixed-width little-endian reader: value(s, p) is the spec term."""
    def S(c):
        return stream_of(c).t
    return FnContract(
        target=f"{RD}.{name}", params=[("self", p_reader())], requires=req_stream, frame=frame_stream,
        returns=lambda c: VInt(value(S(c), pos0(c))),
        ensures=[("consumes-exactly-its-width", lambda c: pos1(c) == pos0(c) + nbytes),
                 ("returns-only-if-enough-bytes", lambda c: pos0(c) + nbytes <= SLEN(S(c)))],
        raises=[Raises(BAD, when=lambda c: pos0(c) + nbytes > SLEN(S(c)), label="short stream")],
        note=f"little-endian unsigned {width}-bit integer at the stream position")


def le(s, p, n):
    bs = [SB(s, p + i) for i in range(n)]
    return bs[0] if n == 1 else z3.Concat(*reversed(bs))


def byte_contracts():
    out = []

    def n_of(c):
        return ops.int_term(c.args["n"])

    def rb_returns(c):
        s, p, n = stream_of(c).t, pos0(c), c.args["n"]
        k = n.const()
        if k is not None:
            return VBytes([VInt(SB(s, z3.simplify(p + i))) for i in range(k)])
        return VSeq(ops.int_term(n), lambda i: VInt(SB(s, p + i)), "byte", True)

    out.append(FnContract(
        target=f"{RD}._read_bytes",
        params=[("self", p_reader()), ("n", p_alts(p_const(1), p_const(2), p_const(4), p_const(8), p_int(0)))],
        requires=lambda c: z3.And(req_stream(c), n_of(c) >= 0), frame=frame_stream,
        returns=rb_returns,
        ensures=[("consumes-exactly-n", lambda c: pos1(c) == pos0(c) + n_of(c)),
                 ("returns-only-if-enough-bytes", lambda c: z3.Or(n_of(c) == 0, pos0(c) + n_of(c) <= SLEN(stream_of(c).t)))],
        raises=[Raises(BAD, when=lambda c: z3.And(n_of(c) > 0, pos0(c) + n_of(c) > SLEN(stream_of(c).t)), label="short stream")],
        note="the n bytes at the stream position, or Bad7zFile when fewer remain"))
    out.append(reader_contract("_read_uint8", 1, lambda s, p: le(s, p, 1), 8))
    out.append(reader_contract("_read_uint32", 4, lambda s, p: le(s, p, 4), 32))
    out.append(reader_contract("_read_uint64", 8, lambda s, p: le(s, p, 8), 64))

    def S(c):
        return stream_of(c).t

    out.append(FnContract(
        target=f"{RD}._read_number", params=[("self", p_reader())], requires=req_stream, frame=frame_stream,
        returns=lambda c: VInt(NUMV(S(c), pos0(c))),
        ensures=[("consumes-exactly-the-encoding", lambda c: pos1(c) == pos0(c) + NUML(S(c), pos0(c))),
                 ("returns-only-if-enough-bytes", lambda c: pos0(c) + NUML(S(c), pos0(c)) <= SLEN(S(c)))],
        raises=[Raises(BAD, when=lambda c: pos0(c) + NUML(S(c), pos0(c)) > SLEN(S(c)), label="short stream")],
        # written as a `while` over the mask bits, the loop is unrolled 9 times with an unwinding ASSERTION (exact: <= 8 extra bytes)
        loops={("role", "at-most-8-extra-bytes"): RoleSpec(lambda ex, st, it, node: isinstance(node, ast.While), unroll=9, label="at-most-8-extra-bytes")},
        note="7z NUMBER: leading 1-bits of the first byte = number of extra little-endian bytes; "
             "`for i in range(8)` is unrolled exactly, a `while` form with an unwinding assertion"))
    # ---- _read_boolean_vector: any count (loop invariant over the bit index; the result list by PY-LIST-ORDER)
    def bv_n(c):
        return ops.int_term(c.args["count"])

    def bv_cd(c):
        v = c.args["check_defined"]
        k = v.const() if isinstance(v, VBool) else None
        if k is None:
            raise ops.Unsupported("_read_boolean_vector: check_defined not a literal")
        return k

    def bv_all(c):
        return z3.And(z3.BoolVal(bv_cd(c)), SB(S(c), pos0(c)) != bv(0))

    def bv_need(c):
        """bytes consumed"""
        n = bv_n(c)
        if bv_cd(c):
            return z3.If(bv_all(c), 1, 1 + (n + 7) / 8)
        return (n + 7) / 8

    def bv_returns(c):
        n, s, p = bv_n(c), S(c), pos0(c)
        k = None
        if c.at_call_site:
            k = c.args["count"].const() if isinstance(c.args["count"], VInt) else None
            if k is None and hasattr(c.ex, "concretize") and getattr(c.ex.contract, "bounded", ""):
                k = c.ex.concretize(c.entry, c.args["count"])
        if not bv_cd(c):
            elem, tag = (lambda j: VBool(BITF(s, p, j))), ("bitvector", p, z3.BoolVal(False))
        else:
            alld = bv_all(c)
            elem, tag = (lambda j: VBool(z3.Or(alld, BITF(s, p + 1, j)))), ("bitvector", p + 1, alld)
        if k is not None and 0 <= k <= 64:
            return c.ex.new_list(c.st, [VBool(z3.simplify(elem(z3.IntVal(j)).t)) for j in range(k)])     # concrete count: a concrete list
        return VSeq(n, elem, "bool", tag=tag)

    def bv_short(c):
        """raises only when the bytes the format needs are missing"""
        n = bv_n(c)
        L, p = SLEN(S(c)), pos0(c)
        if bv_cd(c):
            return z3.Or(p + 1 > L, z3.And(z3.Not(bv_all(c)), n > 0, p + 1 + (n + 7) / 8 > L))
        return z3.And(n > 0, p + (n + 7) / 8 > L)

    def bv_names(ex):
        """roles of the loop's locals, read from the AST: the current byte (assigned from a byte read), the result list, and --
        if the code keeps one -- the shifted mask"""
        loop = ex._loop_nodes[-1]
        masks = {n.target.id for n in ast.walk(loop) if isinstance(n, ast.AugAssign) and isinstance(n.op, ast.RShift) and isinstance(n.target, ast.Name)}
        masks |= {n.targets[0].id for n in ast.walk(loop) if isinstance(n, ast.Assign) and len(n.targets) == 1 and isinstance(n.targets[0], ast.Name)
                  and isinstance(n.value, ast.BinOp) and isinstance(n.value.op, ast.RShift) and isinstance(n.value.left, ast.Name)
                  and n.value.left.id == n.targets[0].id}
        readers = through_helpers(ex, ("_read_uint8", "_read_bytes"))     # the byte may be read through a contract-less helper
        bytes_ = {n.targets[0].id for n in ast.walk(loop) if isinstance(n, ast.Assign) and len(n.targets) == 1 and isinstance(n.targets[0], ast.Name)
                  and isinstance(n.value, (ast.Call, ast.Subscript)) and any(isinstance(x, ast.Attribute) and x.attr in readers
                                                                          for x in ast.walk(n.value))}
        if len(masks) > 1 or len(bytes_) != 1:
            raise ops.Unsupported(f"_read_boolean_vector: loop roles not recognised (mask {sorted(masks)}, byte {sorted(bytes_)})")
        return (masks.pop() if masks else None), bytes_.pop(), worklist_of(loop)

    def bv_havoc(ex, st):
        m, b, _r = bv_names(ex)
        if m is not None:
            st.bind(m, VInt(z3.BitVec(fresh_name(m), 8)))      # ranges over bytes (invariant below)
        st.bind(b, VInt(z3.BitVec(fresh_name(b), 8)))
        common.havoc_pos(ex, st, st.obj(top(ex, "self").ref).data["_stream"])

    def bv_inv(lc):
        m, b, res = bv_names(lc.ex)
        i = lc.i
        stream = lc.entry.obj(top(lc, "self").ref).data["_stream"]
        s = stream.t
        p0 = common.bytesio_pos(lc.entry, stream)
        pos = common.bytesio_pos(lc.st, stream)
        r, q = i % 8, i / 8
        conj = [pos == p0 + (i + 7) / 8,
                z3.Implies(r != 0, ops.eq_term(lc[b], VInt(SB(s, p0 + q)))),
                z3.Or(i == 0, pos <= SLEN(s))]
        if m is not None:
            conj.append(ops.eq_term(lc[m], VInt(mask_after(r))))
        if lc.extra.get("phase") == "preserve":
            ref = lc.entry.lookup(res).ref
            new = [v for (rf, v) in new_events(lc, "appends") if rf == ref]
            ok = z3.BoolVal(False)
            if len(new) == 1 and isinstance(new[0], VBool):
                ok = new[0].t == BITF(s, p0, i - 1)
            conj.append(ok)
        if lc.extra.get("phase") == "exit":
            # PY-LIST-ORDER: the result is the sequence of appended bits
            lc.st.bind(res, VSeq(i, lambda j: VBool(BITF(s, p0, j)), "bool"))
        return z3.And(conj)

    def p_check_defined():
        """False | True; a call that omits the argument gets the default of the REAL signature (only when that is a bool literal)"""
        m = p_alts(p_const(False), p_const(True))
        try:
            fn = loader.module(SEVEN).functions.get("SevenZipReader._read_boolean_vector")
            names = [a.arg for a in fn.args.args]
            dflt = dict(zip(names[len(names) - len(fn.args.defaults):], fn.args.defaults)).get("check_defined")
            if isinstance(dflt, ast.Constant) and isinstance(dflt.value, bool):
                m.default = lambda ex, st, v=dflt.value: VBool(v)
        except Exception:  # noqa  no default: a call that omits the argument is out of subset, as before
            pass
        return m

    out.append(FnContract(
        target=f"{RD}._read_boolean_vector",
        params=[("self", p_reader()), ("count", p_int(0)), ("check_defined", p_check_defined())],
        requires=lambda c: z3.And(req_stream(c), bv_n(c) >= 0), frame=frame_stream, returns=bv_returns,
        ensures=[("consumes-exactly-the-vector", lambda c: pos1(c) == pos0(c) + bv_need(c)),
                 ("returns-only-if-enough-bytes", lambda c: z3.Not(bv_short(c))),
                 ],
        raises=[Raises(BAD, when=bv_short, label="short stream")],
        loops=role(both(is_seq("int"), body_calls("_read_uint8", "_read_bytes", via_helpers=True)), "bit-i-is-bit-7-minus-i-mod-8-of-byte-i-div-8", bv_inv, havoc=(bv_havoc,)),
        note="7z BitVector (optionally preceded by the allAreDefined byte): MSB-first bits; any count"))
    out.append(FnContract(
        target=f"{RD}._seek_back_one", params=[("self", p_reader())],
        requires=lambda c: z3.And(req_stream(c), pos0(c) >= 1), frame=frame_stream,
        ensures=[("position-minus-one", lambda c: pos1(c) == pos0(c) - 1)], raises=[]))
    return out


# ============================================================ 7z folder layout ==
# Abstract header view (one archive in scope; DESIGN Appendix B).  Index functions:
Folder = ext_sort("Folder")
Blob = ext_sort("Blob")                      # an immutable byte string (opaque)
AFile = ext_sort("ArchiveFile")
CoderId, CoderProps, IntList = ext_sort("CoderId"), ext_sort("CoderProps"), ext_sort("IntList")
FileInfoS = ext_sort("FileInfo")
S = z3.StringSort()

NFOLD = z3.Int("num_folders")
FOLD = z3.Function("folder_at", I, Folder)
PSZ = z3.Function("pack_size", I, I)         # pack_sizes[t]
NPACK = z3.Int("num_pack_streams")
PACKPOS = z3.Int("pack_pos_abs")             # 32 + PackInfo.packPos
NCOD = z3.Function("num_coders", Folder, I)
CID = z3.Function("coder_id", Folder, I, CoderId)
CPROP = z3.Function("coder_props", Folder, I, CoderProps)
USZ = z3.Function("folder_unpack_sizes", Folder, IntList)
ASLICE = z3.Function("file_bytes_at", AFile, I, I, Blob)     # f.seek(o); f.read(n)
ALEN = z3.Function("file_len", AFile, I)
DEC = z3.Function("decode", CoderId, CoderProps, Blob, IntList, Blob)   # uninterpreted (lzma / copy): Trust
BCONS = z3.Function("blob_prepend_byte", BV8, Blob, Blob)       # one byte followed by a byte string
BLEN = z3.Function("blob_len", Blob, I)
BSLICE = z3.Function("blob_slice", Blob, I, I, Blob)          # b[lo:hi] for 0 <= lo <= hi <= len(b)
NFILES = z3.Int("num_files_in_list")
FINFO = z3.Function("file_info_at", I, FileInfoS)
ISDIR = z3.Function("fi_is_directory", FileInfoS, B)
USIZE = z3.Function("fi_uncompressed", FileInfoS, I)
FNAME = z3.Function("fi_filename", FileInfoS, S)
HASF = z3.Function("folder_has_files", I, B)                 # k in _folder_to_files
NF = z3.Function("folder_file_count", I, I)                  # len(_folder_to_files[k])
FIDX = z3.Function("folder_file_index", I, I, I)             # _folder_to_files[k][j]
SJ = z3.Function("safe_join", S, S, S)
DIRNAME = z3.Function("os_path_dirname", S, S)

_k, _i, _x, _f = z3.Int("k!def"), z3.Int("i!def"), z3.Const("x!def", Blob), z3.Const("f!def", Folder)
PS = z3.Function("pack_size_prefix_sum", I, I)                # sum of pack_sizes[:k] (uninterpreted + instantiated definition, see NUMPOS)


def ps_def(i):
    """defining equations of the prefix sum at 0 and at i (i >= 0), instantiated where needed (see NUMPOS)"""
    return z3.And(PS(z3.IntVal(0)) == 0, z3.Implies(i >= 0, PS(i + 1) == PS(i) + PSZ(i)))

# decoder chain, last coder first: CHAIN(f, x, i) = result after i decoding steps
# (uninterpreted + defining equations instantiated at 0 and at the loop index, see NUMPOS)
CHAIN = z3.Function("decode_chain", Folder, Blob, I, Blob)
# offset of the j-th entry of folder k inside the folder's output
OFF = z3.Function("substream_offset", I, I, I)


def chain_def(f, x, i):
    return z3.And(CHAIN(f, x, z3.IntVal(0)) == x,
                  z3.Implies(i >= 0, CHAIN(f, x, i + 1) == DEC(CID(f, NCOD(f) - (i + 1)), CPROP(f, NCOD(f) - (i + 1)), CHAIN(f, x, i), USZ(f))))


def off_def(k, i):
    return z3.And(OFF(k, z3.IntVal(0)) == 0,
                  z3.Implies(i >= 0, OFF(k, i + 1) == OFF(k, i) + z3.If(ISDIR(FINFO(FIDX(k, i))), 0, USIZE(FINFO(FIDX(k, i))))))



def in_off(k):
    """first(k) = k: every coder chain this reader supports consumes ONE packed stream (Appendix B)."""
    return PACKPOS + PS(k)


def in_len(k):
    return PSZ(k)


def out_spec(archive, k):
    return CHAIN(FOLD(k), ASLICE(archive, in_off(k), in_len(k)), NCOD(FOLD(k)))


_PS_CACHE = {}


def prefix_sum_fn(F):
    key = F.name()
    if key not in _PS_CACHE:
        _PS_CACHE[key] = z3.Function(f"{key}_prefix_sum", I, I)       # prefix sums of F (uninterpreted; only differences are used)
    return _PS_CACHE[key]


_PS_CACHE["pack_size"] = PS


def seq_sum(ex, st, v):
    """builtin sum() of an int sequence view [lo, lo+n) of a function F: P(lo+n) - P(lo), P the prefix sum of F
    (ASSUMED model of `sum`: the mathematical identity sum(F[lo:lo+n]) = P(lo+n) - P(lo))."""
    if isinstance(v, VSeq) and v.tag and v.tag[0] in ("fn", "slice"):
        F = v.tag[1]
        lo = v.tag[2] if v.tag[0] == "slice" else z3.IntVal(0)
        P = prefix_sum_fn(F)
        return z3.simplify(P(lo + v.length) - P(lo))
    items = ex.concrete_items(st, v)
    if items is not None:
        acc = z3.IntVal(0)
        for x in items:
            acc = acc + ops.int_term(x)
        return acc
    return None


def p_intseq(F, length):
    return Maker(lambda ex, st, name: [(length >= 0, VSeq(length, lambda i: VInt(F(i)), "int", tag=("fn", F)))], desc=f"list[int] ({F.name()})")


def p_list1(term):
    def mk(ex, st, name):
        return VRef(st.alloc(HeapObj("list", [VInt(term)], fresh=False), ex.refs))
    return Maker(mk, desc="[int]")


class CompSpec(LoopSpec):
    """invariant of a list comprehension `[E for _ in range(n)]` over a symbolic n (treated as the loop it is):
    inv(lc) as for loops (phase 'preserve' sees the element in lc.extra['elt']); result(lc) = the list (PY-LIST-ORDER)"""

    def __init__(self, inv=None, result=None, havoc=(), label=""):
        super().__init__(inv=inv, havoc=havoc, label=label)
        self.result = result


class RoleSpec(LoopSpec):
    """a loop specification selected by WHAT the loop iterates over (match(ex, st, iterable, node)), not by its position in the
    function: it follows the loop into a helper the code was refactored into (helpers are executed in place)"""

    def __init__(self, match, inv=None, havoc=(), label="", unroll=None):
        super().__init__(inv=inv, havoc=havoc, label=label, unroll=unroll)
        self.match = match


def merged(*ds):
    out = {}
    for d in ds:
        out.update(d)
    return out


def role(match, label, inv, havoc=()):
    return {("role", label): RoleSpec(match, inv=done(label, inv), havoc=havoc, label=label)}


def is_seq(*kinds, tag=None):
    def m(ex, st, it, node):
        if not isinstance(it, VSeq):
            return False
        if tag is not None:
            return isinstance(it.tag, tuple) and bool(it.tag) and it.tag[0] == tag
        return it.ekind in kinds and not (isinstance(it.tag, tuple) and it.tag and it.tag[0] in ("worklist", "worklist7", "bitvector", "zidx"))
    return m


def _called_name(n):
    f = n.func
    return f.attr if isinstance(f, ast.Attribute) else getattr(f, "id", None)


def through_helpers(ex, names):
    """`names` plus the functions / methods of the module under verification WITHOUT a contract whose body calls one of them
    (transitively).  The executor inlines a call of such a helper, so for the recognition of a loop's roles a call of the helper
    *is* a call of what it wraps (a byte read moved into `_next_byte()` is still the byte read); a helper WITH a contract is seen
    through that contract and is not followed."""
    out = set(names)
    fns = getattr(ex.module, "functions", {})
    grew = True
    while grew:
        grew = False
        for q, fn in fns.items():
            short = q.split(".")[-1]
            if short in out or ex.reg.get(f"{ex.module.rel}::{q}") is not None:
                continue
            if any(isinstance(n, ast.Call) and _called_name(n) in out for n in ast.walk(fn)):
                out.add(short)
                grew = True
    return out


def body_calls(*names, via_helpers=False):
    """the loop body (including nested statements) calls a function / method / constructor with one of these names
    (`via_helpers`: directly or through contract-less helpers of the module, see `through_helpers`)"""
    def m(ex, st, it, node):
        wanted = through_helpers(ex, names) if via_helpers else names
        for n in ast.walk(node):
            if isinstance(n, ast.Call) and _called_name(n) in wanted:
                return True
        return False
    return m


def both(*ms):
    return lambda ex, st, it, node: all(m(ex, st, it, node) for m in ms)


def top(x, name):
    """value of a parameter of the function under contract (also visible from invariants of loops in inlined helpers)"""
    ex = getattr(x, "ex", x)
    return ex.top_args[name]


def cur_loop(lc):
    return lc.ex._loop_nodes[-1]


class VNamed(VTuple):
    """instance of a typing.NamedTuple / collections.namedtuple class of the module: a tuple whose items also have names"""
    __slots__ = ("fields",)

    def __init__(self, items, fields):
        super().__init__(items)
        self.fields = tuple(fields)


class C10Executor(Executor):
    """Pack-local models of the abstract 7z header view (all ASSUMED views are listed in ASSUMED_MODELS)."""

    # -- `class PropertyId(IntEnum): END = 0x00 ...`: a member of an int-valued enumeration of the module IS the int it is
    #    defined with for ==, !=, <, in, hashing, arithmetic and str() (PY-INTENUM, Python >= 3.11); repr() / type() / `is`
    #    differ and stay unmodelled (a member that reaches them is a VInt: `is` on ints is out of subset).  Only literal
    #    int members of a class whose bases are exactly IntEnum / IntFlag / (int, Enum) are read this way.
    def _int_enum_member(self, cls, attr):
        node = self.module.classes.get(cls)
        if node is None or node.keywords or node.decorator_list:
            return None
        bases = []
        for b in node.bases:
            d = b.id if isinstance(b, ast.Name) else (f"{b.value.id}.{b.attr}" if isinstance(b, ast.Attribute) and isinstance(b.value, ast.Name) else None)
            if d is None:
                return None
            bases.append(self.module.imports.get(d.split(".")[0], d.split(".")[0]) + ("." + d.split(".", 1)[1] if "." in d else ""))
        if bases not in (["enum.IntEnum"], ["enum.IntFlag"], ["int", "enum.Enum"]):
            return None
        found = None
        for stmt in node.body:
            if isinstance(stmt, ast.Assign) and len(stmt.targets) == 1 and isinstance(stmt.targets[0], ast.Name):
                if stmt.targets[0].id in ("_ignore_", "_order_", "_generate_next_value_", "_missing_"):
                    return None
                if stmt.targets[0].id == attr:
                    try:
                        v = ast.literal_eval(stmt.value)
                    except (ValueError, SyntaxError, TypeError):
                        return None
                    if type(v) is not int or found is not None:
                        return None
                    found = v
            elif isinstance(stmt, (ast.FunctionDef, ast.AsyncFunctionDef)) and stmt.name in ("__eq__", "__hash__", "__str__", "__format__", "__new__", "__init__",
                                                                                            "__int__", "__index__", "__lt__", "__le__", "__gt__", "__ge__", "__ne__",
                                                                                            "_missing_", "_generate_next_value_"):
                return None
        return found

    # -- `def f(..., **opts)` / `g(**opts)`: keyword pass-through as an immutable dict with constant keys
    def bind_params(self, fnode, args, kwargs, node, st=None, self_val=None):
        kw = fnode.args.kwarg
        if kw is None:
            return super().bind_params(fnode, args, kwargs, node, st=st, self_val=self_val)
        named = {p.arg for p in fnode.args.posonlyargs + fnode.args.args + fnode.args.kwonlyargs}
        env = super().bind_params(fnode, args, {k: v for k, v in kwargs.items() if k in named}, node, st=st, self_val=self_val)
        env[kw.arg] = VDictC({k: v for k, v in kwargs.items() if k not in named})
        return env

    def e_Call(self, n, st):
        if not any(k.arg is None for k in n.keywords) or self.is_logger_call(n):
            return super().e_Call(n, st)
        out = []
        for (s, f) in self.ev(n.func, st):
            for (s2, args) in self.ev_list(n.args, s):
                for (s3, kwvals) in self.ev_list([k.value for k in n.keywords], s2):
                    kwargs = {}
                    for k, v in zip(n.keywords, kwvals):
                        if k.arg is not None:
                            kwargs[k.arg] = v
                        elif isinstance(v, VDictC) and all(isinstance(x, str) for x in v.items):
                            kwargs.update(v.items)
                        elif isinstance(v, VRef) and s3.obj(v.ref).kind == "dict" and all(isinstance(x, str) for x in s3.obj(v.ref).data):
                            kwargs.update(s3.obj(v.ref).data)
                        else:
                            self.unsupported(n, "** of a value that is not a dict with constant string keys")
                    out.extend(self.call(s3, f, args, kwargs, n))
        return out

    def apply_contract(self, st, c, args, kwargs, node, cl_frame=None):
        covered = [n for (n, _m) in c.params if n not in getattr(c, "optional_extra", ())]
        if len(args) > len(covered) or any(k not in covered for k in kwargs):
            self.unsupported(node, f"call of {c.target.split('::')[-1]} passes an argument its contract does not speak about")
        return super().apply_contract(st, c, args, kwargs, node, cl_frame=cl_frame)

    # -- NamedTuple classes of the module
    def _namedtuple_fields(self, name):
        """[(field, default expr | None)] of a named-tuple class of the module -- `class X(NamedTuple)` or the functional forms
        X = namedtuple("X", "a b c" | [...]) / X = NamedTuple("X", [("a", T), ...]) with literal field names -- else None"""
        cls = self.module.classes.get(name)
        if cls is not None:
            if not any(ast.unparse(b).split(".")[-1] == "NamedTuple" for b in cls.bases):
                return None
            return [(b.target.id, b.value) for b in cls.body if isinstance(b, ast.AnnAssign) and isinstance(b.target, ast.Name)]
        v = self.module.assigns.get(name)
        if not (isinstance(v, ast.Call) and ast.unparse(v.func).split(".")[-1] in ("namedtuple", "NamedTuple") and len(v.args) == 2 and not v.keywords):
            return None
        spec = v.args[1]
        if isinstance(spec, ast.Constant) and isinstance(spec.value, str):
            names = spec.value.replace(",", " ").split()
        elif isinstance(spec, (ast.List, ast.Tuple)):
            names = []
            for e in spec.elts:
                e = e.elts[0] if isinstance(e, ast.Tuple) and e.elts else e
                if not (isinstance(e, ast.Constant) and isinstance(e.value, str)):
                    return None
                names.append(e.value)
        else:
            return None
        if not names or len(set(names)) != len(names) or not all(x.isidentifier() and not x.startswith("_") for x in names):
            return None
        return [(x, None) for x in names]

    def global_name(self, name, node=None):
        if (self.module.rel, name) not in self.reg.module_consts and name not in self.module.functions and name not in self.module.classes \
                and name in self.module.assigns and self._namedtuple_fields(name) is not None:
            return VType(name)
        return super().global_name(name, node)

    # -- a PLAIN class of the module (no bases, decorators, metaclass, __new__, class-level state): `C(args)` allocates an object and
    #    runs the real __init__ on it; its methods are executed in place (engine: obj_method).  `with C(args) [as v]: body` over
    #    such a class that defines __enter__ / __exit__ is executed as its definition (PEP 343): enter; try: body; except: if not
    #    exit(type, exc, tb): raise; finally (no exception): exit(None, None, None).  The exception TYPE and the traceback handed
    #    to __exit__ are unknown values (an __exit__ that decides by them is `unknown`); the exception object is the real one.
    def _plain_class(self, name):
        node = self.module.classes.get(name)
        if node is None or node.bases or node.keywords or node.decorator_list or "." in name:
            return None
        for b in node.body:
            if isinstance(b, (ast.FunctionDef,)):
                if b.name in ("__new__", "__getattr__", "__getattribute__", "__setattr__", "__init_subclass__") or b.decorator_list:
                    return None
            elif isinstance(b, ast.Expr) and isinstance(b.value, ast.Constant):
                continue                       # docstring
            elif isinstance(b, ast.Pass):
                continue
            else:
                return None
        return node

    def _construct_plain(self, st, name, args, kwargs, node):
        obj = VRef(st.alloc(HeapObj("obj", {}, name), self.refs))
        if f"{name}.__init__" not in self.module.functions:
            if args or kwargs:
                self.raise_in(st, self.mk_exc("TypeError"))
                return []
            return [(st, obj)]
        return [(s2, obj) for (s2, _r) in self.obj_method(st, obj, "__init__", args, kwargs, node)]

    _with_cache = None

    def s_With(self, s, st):
        rewritten = self._with_as_protocol(s)
        if rewritten is None:
            return super().s_With(s, st)
        et, tb, stmts = rewritten
        st.bind(et, VUnk("exc_type"))
        st.bind(tb, VUnk("traceback"))
        return self.exec_block(stmts, st)

    def _with_as_protocol(self, s):
        if self._with_cache is None:
            self._with_cache = {}
        if id(s) in self._with_cache:
            return self._with_cache[id(s)][1]
        out = None
        item = s.items[0]
        e = item.context_expr
        if isinstance(e, ast.Call) and isinstance(e.func, ast.Name) and self._plain_class(e.func.id) is not None and \
                f"{e.func.id}.__enter__" in self.module.functions and f"{e.func.id}.__exit__" in self.module.functions:
            k = len(self._with_cache)
            cm, ok, ex_, et, tb = (f"_c10_with{k}_{x}" for x in ("cm", "ok", "exc", "type", "tb"))
            body = list(s.body) if len(s.items) == 1 else [ast.With(items=list(s.items[1:]), body=list(s.body))]
            L, N = (lambda x: ast.Name(id=x, ctx=ast.Load())), (lambda x: ast.Name(id=x, ctx=ast.Store()))
            call = lambda m, a: ast.Call(func=ast.Attribute(value=L(cm), attr=m, ctx=ast.Load()), args=a, keywords=[])      # noqa: E731
            enter = call("__enter__", [])
            stmts = [ast.Assign(targets=[N(cm)], value=e),
                     ast.Assign(targets=[item.optional_vars], value=enter) if item.optional_vars is not None else ast.Expr(value=enter),
                     ast.Assign(targets=[N(ok)], value=ast.Constant(value=True)),
                     ast.Try(body=[ast.Try(body=body, handlers=[ast.ExceptHandler(type=L("BaseException"), name=ex_, body=[
                         ast.Assign(targets=[N(ok)], value=ast.Constant(value=False)),
                         ast.If(test=ast.UnaryOp(op=ast.Not(), operand=call("__exit__", [L(et), L(ex_), L(tb)])), body=[ast.Raise(exc=None, cause=None)], orelse=[])])],
                         orelse=[], finalbody=[])],
                         handlers=[], orelse=[],
                         finalbody=[ast.If(test=L(ok), body=[ast.Expr(value=call("__exit__", [ast.Constant(value=None)] * 3))], orelse=[])])]
            for x in stmts:
                ast.copy_location(x, s)
                ast.fix_missing_locations(x)
            out = (et, tb, stmts)
        self._with_cache[id(s)] = (s, out)           # the node is kept alive with its rewriting (ids are recycled otherwise)
        return out

    def construct(self, st, t, args, kwargs, node):
        if isinstance(t, VType) and not self.uni.known(t.name) and ("new", t.name) not in self.reg.ext_models and \
                self._namedtuple_fields(t.name) is None and self.namedtuple_fields(t.name) is None and self.dataclass_fields(t.name) is None and \
                self._plain_class(t.name) is not None:
            return self._construct_plain(st, t.name, args, kwargs, node)
        fields = self._namedtuple_fields(t.name) if isinstance(t, VType) else None
        if fields is not None:
            names = [f for f, _d in fields]
            vals = dict(zip(names, args))
            vals.update(kwargs)
            for f, d in fields:
                if f not in vals:
                    if d is None:
                        self.raise_in(st, self.mk_exc("TypeError"))
                        return []
                    vals[f] = self.ev(d, st.fork())[0][1]
            if set(vals) != set(names) or len(args) > len(names):
                self.raise_in(st, self.mk_exc("TypeError"))
                return []
            return [(st, VNamed([vals[f] for f in names], names))]
        return super().construct(st, t, args, kwargs, node)

    def get_attr(self, st, base, attr, node):
        if isinstance(base, VNamed) and attr in base.fields:
            return [(st, base.items[base.fields.index(attr)])]
        if isinstance(base, VType) and not attr.startswith("_"):
            try:
                v = self._int_enum_member(base.name, attr)
            except Exception:  # noqa  an unrecognised class shape is not an enum member
                v = None
            if v is not None:
                return [(st, VInt(z3.IntVal(v)))]
        return super().get_attr(st, base, attr, node)

    _role_stack = ()
    _loop_nodes = ()

    def b_hasattr(self, st, args, kwargs, node):
        """hasattr(x, "name") for an abstract object of a sort the pack models WITH a method of that name: True (the model says what the
        object can do); anything else stays an unknown Bool"""
        if len(args) == 2 and isinstance(args[0], VExt) and isinstance(args[1], VStr) and args[1].const() is not None \
                and (args[0].sort, args[1].const()) in self.reg.method_models:
            return [(st, VBool(True))]
        return super().b_hasattr(st, args, kwargs, node)

    def symbolic_for(self, s, st, it):
        spec = None
        if isinstance(it, VExt) and it.sort == "TarFile":
            # ASSUMED (tarfile documentation): iterating a TarFile yields the members getmembers() lists, in the same order; which
            # streams the container was opened on (seekable `r:` vs one-pass `r|`) is judged by the clauses about the open mode
            self.exc_any(st.fork(), "TarFile.getmembers()")
            it = tar_members_seq(it)
        if isinstance(it, VSeq) and isinstance(it.tag, tuple) and len(it.tag) == 4 and it.tag[0] == "genexp" and not getattr(s, "_c10_from_genexp", False):
            # `for x in (E for t in IT if C): body` is the loop `for t in IT: if not C: continue; x = E; body` over the iterable
            # the generator expression was created on (evaluated at creation, PY-GENEXP); E and C run once per element, lazily,
            # so an element that may raise raises from the loop, under the loop's invariant.  The generator's own variable must
            # not be a name of the enclosing function (it would be private to the generator).
            gnode, base = it.tag[2], it.tag[3]
            g = gnode.generators[0]
            tnames = {x.id for x in ast.walk(g.target) if isinstance(x, ast.Name)}
            fn = st.frame.fnode
            outside = [x for x in ast.walk(fn) if isinstance(x, ast.Name) and x.id in tnames] if fn is not None else []
            within = [x for x in ast.walk(gnode) if isinstance(x, ast.Name) and x.id in tnames]
            if fn is None or len(outside) != len(within) or any(st.lookup(t) is not None for t in tnames):
                self.unsupported(s, "loop over a generator expression whose variable is also a name of the function")
            tmp = fresh_name("genexp!iter").replace("!", "_")
            st.bind(tmp, base)
            body = [ast.If(test=ast.UnaryOp(op=ast.Not(), operand=c_), body=[ast.Continue()], orelse=[]) for c_ in g.ifs]
            body.append(ast.Assign(targets=[s.target], value=gnode.elt))
            loop = ast.For(target=g.target, iter=ast.Name(id=tmp, ctx=ast.Load()), body=body + list(s.body), orelse=list(s.orelse))
            ast.copy_location(loop, s)
            for x in body:
                ast.copy_location(x, s)
                ast.fix_missing_locations(x)
            ast.fix_missing_locations(loop)
            loop._c10_from_genexp = True
            return self.symbolic_for(loop, st, base)
        if self.contract is not None:
            for key, sp in self.contract.loops.items():
                if isinstance(key, tuple) and key[0] == "role" and sp.match(self, st, it, s):
                    spec = sp
                    break
        self._role_stack = tuple(self._role_stack) + (spec,)
        self._loop_nodes = tuple(self._loop_nodes) + (s,)
        try:
            return super().symbolic_for(s, st, it)
        finally:
            self._role_stack = self._role_stack[:-1]
            self._loop_nodes = self._loop_nodes[:-1]

    MUTATORS = {"append", "extend", "insert", "pop", "remove", "clear", "sort", "reverse", "update", "setdefault", "add", "discard", "popitem"}

    def _contracted_pure_method(self, func, st):
        """also: an un-contracted method of the receiver's class (executed in place) whose body provably leaves `self` alone --
        no store to self.<attr> / self.<attr>[..], no mutating call on self.<attr>, only self-pure methods of the class called"""
        if super()._contracted_pure_method(func, st):
            return True
        if not isinstance(func.value, ast.Name):
            return False
        v = st.lookup(func.value.id)
        o = st.heap.get(v.ref) if isinstance(v, VRef) else None
        if o is None or o.kind != "obj" or not o.cls:
            return False
        return self._self_pure(o.cls, func.attr, set())

    def _self_pure(self, cls, name, seen):
        if (cls, name) in seen:
            return True
        seen.add((cls, name))
        c = self.reg.get(f"{self.module.rel}::{cls}.{name}")
        if c is not None and not c.inline:
            return "self" not in c.modifies
        fnode = self.module.functions.get(f"{cls}.{name}")
        if fnode is None or not fnode.args.args:
            return False
        me = fnode.args.args[0].arg

        def on_self(e):
            while isinstance(e, (ast.Attribute, ast.Subscript)):
                e = e.value
            return isinstance(e, ast.Name) and e.id == me
        for n in ast.walk(fnode):
            if isinstance(n, (ast.Attribute, ast.Subscript)) and isinstance(n.ctx, (ast.Store, ast.Del)) and on_self(n):
                return False
            if isinstance(n, ast.Call) and isinstance(n.func, ast.Attribute) and on_self(n.func):
                recv = n.func.value
                if isinstance(recv, ast.Name):                       # self.m(...)
                    if not self._self_pure(cls, n.func.attr, seen):
                        return False
                elif n.func.attr in self.MUTATORS:                   # self.x.append(...)
                    return False
            if isinstance(n, ast.Call) and any(isinstance(a, ast.Name) and a.id == me for a in n.args):
                return False                                          # self handed to another function
        return True

    def e_GeneratorExp(self, n, st):
        """(E for t in IT if C) over a symbolic IT: a lazy view (index -> (C, E)); consumers: any(), all()"""
        if len(n.generators) == 1 and not n.generators[0].is_async:
            g = n.generators[0]
            probe = self.ev(g.iter, st.fork())
            if len(probe) == 1 and isinstance(probe[0][1], VSeq) and self.concrete_items(probe[0][0], probe[0][1]) is None:
                from pyvc.state import Frame
                out = []
                for (s2, it) in self.ev(g.iter, st):
                    def at(j, s2=s2, it=it):
                        s3 = s2.fork()
                        s3.frames.append(Frame({}, len(s3.frames) - 1, s3.frame.fnode))
                        self.sinks.append([])
                        try:
                            sts = self.assign(g.target, it.elem(j), s3)
                            conds = []
                            if len(sts) != 1:
                                self.unsupported(n, "generator expression: forking target")
                            cur = sts[0]
                            for c_ in g.ifs:
                                r = self.ev(c_, cur)
                                if len(r) != 1:
                                    self.unsupported(n, "generator expression: forking condition")
                                cur = r[0][0]
                                conds.append(self.truth(cur, r[0][1]).t)
                            r = self.ev(n.elt, cur)
                        finally:
                            raised = self.sinks.pop()
                        if len(r) != 1 or any(self.feasible(es.pc) for (es, _e) in raised):
                            self.unsupported(n, "generator expression: forking / raising element")
                        return z3.And(conds + [z3.BoolVal(True)]), r[0][1]
                    out.append((s2, VSeq(it.length, lambda j, at=at: at(j)[1], "genexp", tag=("genexp", at, n, it))))
                return out
        return super().e_GeneratorExp(n, st)

    def _quantify(self, st, v, conj):
        j = z3.Int(fresh_name("j!gen"))
        cond, elt = v.tag[1](j)
        t = self.truth(st, elt).t
        rng = z3.And(j >= 0, j < v.length)
        return VBool(z3.Exists([j], z3.And(rng, cond, t))) if not conj else VBool(z3.ForAll([j], z3.Implies(z3.And(rng, cond), t)))

    def _bytes_truth(self, st, v, conj):
        """any(b) / all(b) over a byte sequence: some / every byte is non-zero.  When the path condition fixes the length to a
        small constant the quantifier is written out (a propositional fact per index: no dependence on instantiation luck)."""
        nz = lambda j: self.as_byte(v.elem(j)).t != bv(0)          # noqa: E731
        k = None
        ln = z3.simplify(v.length)
        if z3.is_int_value(ln):
            k = ln.as_long()
        else:
            for cand in range(0, 1025, 512):
                if self.feasible(st.pc, v.length == cand) and not self.feasible(st.pc, v.length != cand):
                    k = cand
                    break
        if k is not None and 0 <= k <= 1024:
            ts = [nz(z3.IntVal(i)) for i in range(k)]
            return VBool(z3.And(ts + [z3.BoolVal(True)]) if conj else z3.Or(ts + [z3.BoolVal(False)]))
        j = z3.Int(fresh_name("j!bytes"))
        rng = z3.And(j >= 0, j < v.length)
        return VBool(z3.ForAll([j], z3.Implies(rng, nz(j))) if conj else z3.Exists([j], z3.And(rng, nz(j))))

    def b_any(self, st, args, kwargs, node):
        v = args[0]
        if isinstance(v, VSeq) and isinstance(v.tag, tuple) and v.tag and v.tag[0] == "genexp":
            return [(st, self._quantify(st, v, False))]
        if isinstance(v, VSeq) and v.is_bytes and len(args) == 1:
            return [(st, self._bytes_truth(st, v, False))]
        return super().b_any(st, args, kwargs, node)

    def b_all(self, st, args, kwargs, node):
        v = args[0]
        if isinstance(v, VSeq) and isinstance(v.tag, tuple) and v.tag and v.tag[0] == "genexp":
            return [(st, self._quantify(st, v, True))]
        if isinstance(v, VSeq) and v.is_bytes and len(args) == 1:
            return [(st, self._bytes_truth(st, v, True))]
        return super().b_all(st, args, kwargs, node)

    def _filter_comp(self, n, st):
        """[x for x in IT if C(x)] with an effect-free C over a symbolic IT: the subsequence of the elements satisfying C, in order
        (PY-LIST-ORDER): view j -> IT[sel(j)], sel increasing, every selected element satisfies C"""
        from pyvc.state import Frame
        g = n.generators[0]
        r0 = self.ev(g.iter, st)
        if len(r0) != 1 or not isinstance(r0[0][1], VSeq):
            return None
        s2, it = r0[0]

        def cond_at(j):
            s3 = s2.fork()
            s3.frames.append(Frame({}, len(s3.frames) - 1, s3.frame.fnode))
            self.sinks.append([])
            try:
                sts = self.assign(g.target, it.elem(j), s3)
                cs, cur = [], (sts[0] if len(sts) == 1 else None)
                for c_ in g.ifs:
                    r = self.ev(c_, cur) if cur is not None else []
                    if len(r) != 1:
                        return None
                    cur = r[0][0]
                    cs.append(self.truth(cur, r[0][1]).t)
            finally:
                raised = self.sinks.pop()
            if cur is None or any(self.feasible(es.pc) for (es, _e) in raised) or cur.ghost != s3.ghost:
                return None
            return z3.And(cs)
        j = z3.Int(fresh_name("j!flt"))
        c0 = cond_at(j)
        if c0 is None:
            return None
        sel, cnt = z3.Function(fresh_name("filtered_index"), I, I), z3.Int(fresh_name("filtered_count"))
        s2.assume(z3.And(cnt >= 0, cnt <= it.length))
        s2.assume(z3.ForAll([j], z3.Implies(z3.And(j >= 0, j < cnt), z3.And(sel(j) >= 0, sel(j) < it.length, cond_at(sel(j)))), patterns=[sel(j)]))
        return [(s2, VSeq(cnt, lambda k: it.elem(sel(k)), it.ekind, it.is_bytes, tag=("filtered", it.tag, it, j, c0)))]

    def _pure_map_comp(self, n, st):
        """[E(t) for t in IT] over a symbolic IT where E has no effect and cannot raise (checked at a generic index): the
        sequence j -> E(IT[j])"""
        from pyvc.state import Frame
        g = n.generators[0]
        r0 = self.ev(g.iter, st)
        if len(r0) != 1:
            return None
        s2, it = r0[0]

        def at(j, probe=False):
            s3 = s2.fork()
            if probe:
                s3.assume(z3.And(j >= 0, j < it.length))
            s3.frames.append(Frame({}, len(s3.frames) - 1, s3.frame.fnode))
            self.sinks.append([])          # own sink: the element is also evaluated lazily, after the function body
            try:
                sts = self.assign(g.target, it.elem(j), s3)
                res = self.ev(n.elt, sts[0]) if len(sts) == 1 else []
            finally:
                raised = self.sinks.pop()
            return res, raised, s3
        j0 = z3.Int(fresh_name("j!map"))
        res, raised, s3 = at(j0, probe=True)
        if len(res) != 1 or any(self.feasible(es.pc) for (es, _e) in raised):
            return None
        after = res[0][0]
        if after.ghost != s3.ghost or after.heap.keys() != s2.heap.keys() or any(after.heap[k] is not s2.heap[k] for k in s2.heap):
            return None            # the element expression has an effect: not a map
        kind = res[0][1].kind
        return [(s2, VSeq(it.length, lambda j: at(j)[0][0][1], kind))]

    def _comp_as_loop(self, n, st):
        """[E for t in IT if C] over a SYMBOLIC IT for which the contract has a loop role is executed as the loop it abbreviates:
        tmp = []; for t in IT: if C: tmp.append(E)   (so selection written as a comprehension meets the same invariant)"""
        from pyvc.state import Frame
        from pyvc.symex import Outcome
        if self.contract is None or len(n.generators) != 1 or n.generators[0].is_async:
            return super().e_ListComp(n, st)
        g = n.generators[0]
        probe = self.ev(g.iter, st.fork())
        if len(probe) != 1 or not isinstance(probe[0][1], VSeq):
            return super().e_ListComp(n, st)
        tmp, itn = fresh_name("comp"), fresh_name("comp_iter")
        app = ast.Expr(ast.Call(func=ast.Attribute(value=ast.Name(tmp, ast.Load()), attr="append", ctx=ast.Load()), args=[n.elt], keywords=[]))
        body = [app]
        if g.ifs:
            test = g.ifs[0] if len(g.ifs) == 1 else ast.BoolOp(op=ast.And(), values=list(g.ifs))
            body = [ast.If(test=test, body=[app], orelse=[])]
        loop = ast.For(target=g.target, iter=ast.Name(itn, ast.Load()), body=body, orelse=[])
        ast.copy_location(loop, n)
        ast.fix_missing_locations(loop)
        if g.ifs and isinstance(n.elt, ast.Name) and isinstance(g.target, ast.Name) and n.elt.id == g.target.id:
            r = self._filter_comp(n, st)
            if r is not None:
                return r
        if not any(isinstance(k, tuple) and k[0] == "role" and sp.match(self, st, probe[0][1], loop) for k, sp in self.contract.loops.items()):
            r = self._pure_map_comp(n, st) if not g.ifs else None
            return r if r is not None else super().e_ListComp(n, st)
        out = []
        for (s2, it) in self.ev(g.iter, st):
            s2.frames.append(Frame({tmp: self.new_list(s2, []), itn: it}, len(s2.frames) - 1, s2.frame.fnode))
            for o in self.exec_stmt(loop, s2):
                if o.kind == "fall":
                    v = o.st.lookup(tmp)
                    o.st.frames.pop()
                    out.append((o.st, v))
                elif o.kind == "raise":
                    o.st.frames.pop()
                    self.raise_in(o.st, o.val)
                else:
                    self.unsupported(n, f"{o.kind} out of a comprehension")
        return out

    def s_While(self, s, st):
        spec = None
        if self.contract is not None:
            for key, sp in self.contract.loops.items():
                if isinstance(key, tuple) and key[0] == "role" and sp.match(self, st, None, s):
                    spec = sp
                    break
        self._role_stack = tuple(self._role_stack) + (spec,)
        self._loop_nodes = tuple(self._loop_nodes) + (s,)
        try:
            return super().s_While(s, st)
        finally:
            self._role_stack = self._role_stack[:-1]
            self._loop_nodes = self._loop_nodes[:-1]

    def call(self, st, f, args, kwargs, node):
        if isinstance(f, VFunc) and f.how == "classattr" and (f.a, f.b) == ("int", "from_bytes"):
            r = self._int_from_bytes(st, args, kwargs, node)
            if r is not None:
                return r
        return super().call(st, f, args, kwargs, node)

    def _int_from_bytes(self, st, args, kwargs, node):
        """int.from_bytes(b, 'little' | 'big') (unsigned) for up to 8 bytes: concrete-length bytes or a byte sequence of symbolic length"""
        order = args[1] if len(args) > 1 else kwargs.get("byteorder")
        signed = kwargs.get("signed")
        if not (args and isinstance(order, VStr) and order.const() in ("little", "big")) or (signed is not None and not (isinstance(signed, VBool) and signed.const() is False)):
            return None
        b, little = args[0], order.const() == "little"
        if isinstance(b, VBytes) and len(b.items) <= 8:
            bs = [self.as_byte(x).t for x in b.items]
            if not bs:
                return [(st, VInt(0))]
            if not little:
                bs = list(reversed(bs))
            return [(st, VInt(bs[0] if len(bs) == 1 else z3.Concat(*reversed(bs))))]
        if isinstance(b, VSeq) and b.is_bytes and little:
            self.add_vc("call-pre", f"int.from_bytes-at-most-8-bytes@{self.call_ordinal(node, 'from_bytes')}", st.pc, b.length <= 8, loc=self.loc(node))
            st.assume(b.length <= 8)
            acc = z3.BitVecVal(0, 64)
            for i in range(8):
                acc = acc | z3.If(i < b.length, z3.ZeroExt(56, self.as_byte(b.elem(z3.IntVal(i))).t) << (8 * i), z3.BitVecVal(0, 64))
            return [(st, VInt(acc))]
        return None

    def loop_spec(self, node):
        if self._role_stack and self._role_stack[-1] is not None and self._loop_nodes and self._loop_nodes[-1] is node:
            return self._role_stack[-1]
        return super().loop_spec(node)

    def e_ListComp(self, n, st):
        spec = None
        if self.contract is not None and len(n.generators) == 1 and not n.generators[0].ifs:
            spec = self.contract.loops.get(("comp", "*"))
        if spec is not None:
            # only comprehensions over a SYMBOLIC iterable are summarised under the invariant
            probe = self.ev(n.generators[0].iter, st.fork())
            if len(probe) != 1 or not isinstance(probe[0][1], VSeq):
                spec = None
        if spec is None:
            return self._comp_as_loop(n, st)
        from pyvc.symex import LoopCtx
        from pyvc.state import Frame
        g = n.generators[0]
        out = []
        for (s2, it) in self.ev(g.iter, st):
            if self.concrete_items(s2, it) is not None or not isinstance(it, VSeq):
                self.unsupported(n, "comprehension with an invariant over a concrete / unknown iterable")
            N, elem = it.length, it.elem
            entry = s2.fork()
            self.add_vc("inv-init", spec.label, s2.pc, spec.inv(LoopCtx(self, s2, z3.IntVal(0), entry, it, {"phase": "init"})), loc=self.loc(n))
            body = s2.fork()
            for h in spec.havoc:
                h(self, body)
            i = z3.Int(fresh_name("i"))
            after = body.fork()
            after.pc = list(s2.pc)
            body.assume(z3.And(i >= 0, i < N))
            body.assume(self._b(spec.inv(LoopCtx(self, body, i, entry, it, {"phase": "assume"}))))
            body.frames.append(Frame({}, len(body.frames) - 1, body.frame.fnode))
            for s3 in self.assign(g.target, elem(i), body):
                for (s4, v) in self.ev(n.elt, s3):
                    s4.frames.pop()
                    self.add_vc("inv-preserve", spec.label, s4.pc, spec.inv(LoopCtx(self, s4, i + 1, entry, it, {"phase": "preserve", "elt": v})), loc=self.loc(n))
            after.assume(N >= 0)
            after.assume(self._b(spec.inv(LoopCtx(self, after, N, entry, it, {"phase": "exit"}))))
            out.append((after, spec.result(LoopCtx(self, after, N, entry, it, {"phase": "exit"}))))
        return out

    def add_vc(self, kind, label, pc, goal, note="", loc=""):
        """conjunctive goals are split into one VC per conjunct (small queries; the conjunction went `unknown` under load)"""
        g = goal.t if isinstance(goal, VBool) else goal
        if z3.is_expr(g) and z3.is_and(g) and g.num_args() > 1:
            for ch in g.children():
                self.add_vc(kind, label, pc, ch, note, loc)
            return
        super().add_vc(kind, label, pc, goal, note, loc)

    def binop(self, st, op, a, b, node, inplace=False):
        """`[x] * n` with a symbolic n: the immutable sequence of max(n, 0) copies of x"""
        if op == "Mult" and isinstance(a, VRef) and isinstance(b, VInt) and b.const() is None:
            items = self.concrete_items(st, a)
            if items is not None and len(items) == 1 and isinstance(items[0], (VBool, VInt, VStr)):
                n = ops.int_term(b)
                x = items[0]
                return [(st, VSeq(z3.If(n < 0, z3.IntVal(0), n), lambda i, x=x: x, x.kind))]
        if op in ("RShift", "LShift") and isinstance(a, VInt) and isinstance(b, VInt) and a.const() is not None and a.const() >= 0 and b.const() is None \
                and (op == "RShift" or a.const() < 256):
            # constant >> n / constant << n with a symbolic n: exact case split over the amounts that matter (ValueError for n < 0)
            n, c = ops.int_term(b), a.const()
            st = self.fork_raise(st, n < 0, "ValueError")
            if st is None:
                return []
            if op == "RShift":
                acc = z3.BitVecVal(0, max(c.bit_length(), 1))
                for k in range(c.bit_length(), -1, -1):
                    acc = z3.If(n == k, z3.BitVecVal(c >> k, max(c.bit_length(), 1)), acc)
                return [(st, VInt(acc))]
            self.add_vc("call-pre", f"shift-amount-at-most-64@{self.loc(node).split(':')[-1]}", st.pc, n <= 64, loc=self.loc(node))
            st.assume(n <= 64)
            acc = z3.BitVecVal(0, 72)
            for k in range(64, -1, -1):
                acc = z3.If(n == k, z3.BitVecVal(c << k, 72), acc)
            return [(st, VInt(acc))]
        if op == "LShift" and isinstance(a, VInt) and isinstance(b, VInt) and a.is_bv and a.const() is None and a.t.size() <= 8 and b.const() is None:
            # small value << symbolic amount (e.g. the LZMA2 dictionary size (2 | (p & 1)) << (p // 2 + 11)): exact case split
            n = ops.int_term(b)
            st = self.fork_raise(st, n < 0, "ValueError")
            if st is None:
                return []
            self.add_vc("call-pre", f"shift-amount-at-most-64@{self.loc(node).split(':')[-1]}", st.pc, n <= 64, loc=self.loc(node))
            st.assume(n <= 64)
            wide = z3.ZeroExt(72 - a.t.size(), a.t)
            acc = z3.BitVecVal(0, 72)
            for k in range(64, -1, -1):
                acc = z3.If(n == k, wide << k, acc)
            return [(st, VInt(acc))]
        if op == "Add" and isinstance(a, VBytes) and isinstance(b, VExt) and b.sort == "Blob":
            t = b.t
            for x in reversed(a.items):                   # bytes prefix + opaque byte string
                t = BCONS(self.as_byte(x).t, t)
            return [(st, VExt("Blob", t))]
        if op == "Mod" and isinstance(a, VStr) and a.const() is not None:
            # 'literal %s ... %d' % value / tuple: plain %s / %d fields with str / int arguments
            import re as _re
            tpl = a.const()
            fields = _re.findall(r"%(.)", tpl)
            vals = list(b.items) if isinstance(b, VTuple) else [b]
            if all(f in "sd%" for f in fields) and len([f for f in fields if f != "%"]) == len(vals) and \
                    all(isinstance(v, (VStr, VInt)) for v in vals):
                acc, k = z3.StringVal(""), 0
                for piece in _re.split(r"(%.)", tpl):
                    if piece in ("%s", "%d"):
                        acc, k = z3.Concat(acc, self.to_str(st, vals[k]).t), k + 1
                    elif piece == "%%":
                        acc = z3.Concat(acc, z3.StringVal("%"))
                    else:
                        acc = z3.Concat(acc, z3.StringVal(piece))
                return [(st, VStr(z3.simplify(acc)))]
        return super().binop(st, op, a, b, node, inplace)

    # -- `k in self._folder_to_files`, `self._folder_to_files[k]`
    def contains(self, st, container, item, node):
        if isinstance(container, VExt) and container.sort == "FolderMap" and isinstance(item, VInt):
            return [(st, VBool(HASF(ops.int_term(item))))]
        return super().contains(st, container, item, node)

    def get_index(self, st, base, idx, node):
        if isinstance(base, VExt) and base.sort == "PathCounts" and isinstance(idx, VStr):
            if not base.t.eq(COUNTER7):                  # a plain dict filled by the counting pass: a key is present iff it was counted
                st = self.fork_raise(st, PCOUNT(idx.t) < 1, "KeyError")
                if st is None:
                    return []
            return [(st, VInt(PCOUNT(idx.t)))]          # Counter[key]: 0 for a missing key
        if isinstance(base, VExt) and base.sort == "FolderMap" and isinstance(idx, VInt):
            k = ops.int_term(idx)
            st = self.fork_raise(st, z3.Not(HASF(k)), "KeyError")
            if st is None:
                return []
            st.assume(NF(k) >= 0)
            return [(st, VSeq(NF(k), lambda j, k=k: VInt(FIDX(k, j)), "int"))]
        return super().get_index(st, base, idx, node)

    def get_slice(self, st, base, sl, node):
        if isinstance(base, VExt) and base.sort == "Blob":
            if sl.step is None and (sl.lower is None) != (sl.upper is None):
                # b[:n] / b[n:] with n >= 0 (PY-SLICE clips at the end): the whole of b / nothing when n >= len(b)
                n = self._ev_int1(sl.upper if sl.lower is None else sl.lower, st, node)
                if self.feasible(st.pc, n < 0):
                    self.unsupported(node, "blob slice with a possibly negative bound")
                st.assume(BLEN(base.t) >= 0)
                L = BLEN(base.t)
                if sl.lower is None:
                    return [(st, VExt("Blob", z3.If(n >= L, base.t, BSLICE(base.t, z3.IntVal(0), n))))]
                return [(st, VExt("Blob", z3.If(n <= 0, base.t, BSLICE(base.t, z3.If(n >= L, L, n), L))))]
            if sl.step is not None or sl.lower is None or sl.upper is None:
                self.unsupported(node, "blob slice shape")
            lo, hi = self._ev_int1(sl.lower, st, node), self._ev_int1(sl.upper, st, node)
            # b[lo:hi] with 0 <= lo <= hi <= len(b) is exactly bytes lo..hi-1; otherwise python clips: the
            # in-range condition is an obligation of the slicing site
            self.add_vc("slice-in-range", f"blob@{self.call_ordinal_sub(node)}", st.pc,
                        z3.And(0 <= lo, lo <= hi, hi <= BLEN(base.t)), loc=self.loc(node))
            return [(st, VExt("Blob", BSLICE(base.t, lo, hi)))]
        return super().get_slice(st, base, sl, node)

    def call_ordinal_sub(self, node):
        fnode = self.cur_fn_stack[-1] if self.cur_fn_stack else None
        subs = [n for n in ast.walk(fnode) if isinstance(n, ast.Subscript) and isinstance(n.slice, ast.Slice)] if fnode else []
        subs.sort(key=lambda n: (n.lineno, n.col_offset))
        return subs.index(node) if node in subs else 0

    def b_len(self, st, args, kwargs, node):
        v = args[0]
        if isinstance(v, VExt) and v.sort == "Blob":
            st.assume(BLEN(v.t) >= 0)
            return [(st, VInt(BLEN(v.t)))]
        return super().b_len(st, args, kwargs, node)

    def b_sum(self, st, args, kwargs, node):
        t = seq_sum(self, st, args[0]) if len(args) == 1 else None
        if t is not None:
            return [(st, VInt(t))]
        return super().b_sum(st, args, kwargs, node)

    def seq_slice(self, st, base, sl, node):
        res = super().seq_slice(st, base, sl, node)
        if base.tag and base.tag[0] in ("fn", "slice"):
            ln = base.length
            lo0 = base.tag[2] if base.tag[0] == "slice" else z3.IntVal(0)
            if sl.lower is None:
                lo = z3.IntVal(0)
            else:
                t = self._ev_int1(sl.lower, st, node)
                lo = z3.simplify(z3.If(t < 0, z3.If(t + ln < 0, z3.IntVal(0), t + ln), z3.If(t > ln, ln, t)))
            for (_s, v) in res:
                v.tag = ("slice", base.tag[1], z3.simplify(lo0 + lo))
        return res

    def concretize(self, st, v):
        """python int k when the path condition entails v == k (exact: not an assumption), else None"""
        if isinstance(v, VBool):
            v = VInt(ops.int_term(v))
        if not isinstance(v, VInt):
            return None
        c = v.const()
        if c is not None:
            return c
        from pyvc.symex import _has_quantifier
        pcs = [p_ for p_ in st.pc if not _has_quantifier(p_)]
        sol = z3.Solver()
        sol.set("timeout", 20000)
        sol.add(*pcs)
        # bounded scopes are small: try the small candidates first (one unsat query each), then a model-guided guess
        w = v.t.size() if v.is_bv else None
        for k in range(0, 9):
            kv = z3.BitVecVal(k, w) if w else z3.IntVal(k)
            sol.push()
            sol.add(v.t != kv)
            r = sol.check()
            sol.pop()
            if r == z3.unsat:
                return k
            if r == z3.unknown:
                break
        if sol.check() != z3.sat:
            return None
        val = sol.model().eval(v.t, model_completion=True)
        if not (z3.is_int_value(val) or z3.is_bv_value(val)):
            return None
        sol.add(v.t != val)
        return val.as_long() if sol.check() == z3.unsat else None

    def b_range(self, st, args, kwargs, node):
        if len(args) == 1 and isinstance(args[0], VInt) and args[0].const() is None and getattr(self.contract, "bounded", ""):
            k = self.concretize(st, args[0])
            if k is not None and k <= 64:
                return [(st, VTuple([VInt(i) for i in range(max(k, 0))]))]
        if len(args) == 3 and all(isinstance(a, VInt) for a in args) and args[2].const() == -1 and \
                (args[0].const() is None or args[1].const() is None):
            # range(hi, lo, -1): hi, hi-1, ..., lo+1
            hi, lo = ops.int_term(args[0]), ops.int_term(args[1])
            return [(st, VSeq(z3.If(hi - lo < 0, z3.IntVal(0), hi - lo), lambda i, hi=hi: VInt(hi - i), "int"))]
        return super().b_range(st, args, kwargs, node)

    def bytes_method(self, st, obj, name, args, kwargs, node):
        if name == "startswith" and len(args) == 1:
            cands = list(args[0].items) if isinstance(args[0], VTuple) else [args[0]]
            if all(isinstance(c_, VBytes) for c_ in cands):
                alts = [z3.And([z3.BoolVal(len(obj.items) >= len(c_.items))] +
                               [self.as_byte(x).t == self.as_byte(y).t for x, y in zip(obj.items, c_.items)]) for c_ in cands]
                return [(st, VBool(z3.simplify(z3.Or(alts + [z3.BoolVal(False)]))))]
        if name == "hex" and not args:
            c = self.py_const(obj)
            if isinstance(c, bytes):
                return [(st, VStr(c.hex()))]
            return [(st, VStr(z3.String(fresh_name("hex"))))]        # total on bytes: an opaque string
        return super().bytes_method(st, obj, name, args, kwargs, node)

    def b_next(self, st, args, kwargs, node):
        """next(iterable_of_known_items[, default]) -- generator expressions are evaluated eagerly (concrete item lists)"""
        items = self.concrete_items(st, args[0]) if args else None
        if items is None:
            return self.havoc_call(st, "next", args, node)
        if items:
            return [(st, items[0])]
        if len(args) > 1:
            return [(st, args[1])]
        self.raise_in(st, self.mk_exc("StopIteration"))
        return []

    def str_method(self, st, s, name, args, kwargs, node):
        """'...{}...{name}...'.format(args): literal template with plain fields and str / int arguments"""
        if name == "format":
            tpl = s.const()
            parts = self._format_parts(tpl) if tpl is not None else None
            if parts is not None:
                acc, auto, ok = z3.StringVal(""), 0, True
                for lit, field in parts:
                    acc = z3.Concat(acc, z3.StringVal(lit))
                    if field is None:
                        continue
                    if field == "":
                        v, auto = (args[auto] if auto < len(args) else None), auto + 1
                    elif field.isdigit():
                        v = args[int(field)] if int(field) < len(args) else None
                    else:
                        v = kwargs.get(field)
                    if not isinstance(v, (VStr, VInt)):
                        ok = False
                        break
                    acc = z3.Concat(acc, self.to_str(st, v).t)
                if ok:
                    return [(st, VStr(z3.simplify(acc)))]
        return super().str_method(st, s, name, args, kwargs, node)

    @staticmethod
    def _format_parts(tpl):
        import string
        try:
            out = []
            for lit, field, spec, conv in string.Formatter().parse(tpl):
                if field is not None and (spec or conv or not (field == "" or field.isdigit() or field.isidentifier())):
                    return None
                out.append((lit, field))
            return out
        except ValueError:
            return None

    def b_reversed(self, st, args, kwargs, node):
        v = args[0]
        if isinstance(v, VSeq):
            n, elem = v.length, v.elem
            return [(st, VSeq(n, lambda i: elem(n - 1 - i), v.ekind, v.is_bytes))]
        return super().b_reversed(st, args, kwargs, node)

    def b_open(self, st, args, kwargs, node):
        """open(path, 'wb'): ASSUMED to raise only the OSError family."""
        bad = st.fork()
        t = z3.Int(fresh_name("exc"))
        bad.assume(z3.And(t >= 0, t < len(self.uni.names), self.uni.subclass_term(t, "OSError")))
        self.raise_in(bad, VExc(t, {"site": "open"}))
        f = VExt("OutFile")
        st.ghost[("outfile", f.t.get_id())] = (args[0], args[1] if len(args) > 1 else kwargs.get("mode"))
        st.ghost["opens"] = st.ghost.get("opens", ()) + ((args[0], args[1] if len(args) > 1 else kwargs.get("mode")),)
        return [(st, f)]


KNOWN_READER_LISTS = {"_files", "_folders", "_pack_positions", "_pack_sizes", "_file_sizes"}


def zero_length_worklist(repo=None):
    """name of the reader attribute that holds the ZERO-LENGTH files to create at extraction (entries with emptyStream +
    emptyFile have no stream and belong to no folder): the list attribute initialised in __init__ that is not one of the header
    lists and that some method iterates (`for x in self.<attr>`); None when the reader has no such attribute"""
    m = loader.module(SEVEN, repo)
    init = m.functions.get("SevenZipReader.__init__")
    if init is None:
        return None
    lists = set()
    for n in ast.walk(init):
        tgt = n.targets[0] if isinstance(n, ast.Assign) and len(n.targets) == 1 else (n.target if isinstance(n, ast.AnnAssign) else None)
        val = getattr(n, "value", None)
        if isinstance(tgt, ast.Attribute) and isinstance(tgt.value, ast.Name) and tgt.value.id == "self" and isinstance(val, ast.List) and not val.elts:
            lists.add(tgt.attr)
    cands = set()
    for q, f in m.functions.items():
        if q.startswith("SevenZipReader."):
            for lp in ast.walk(f):
                if isinstance(lp, ast.For) and isinstance(lp.iter, ast.Attribute) and isinstance(lp.iter.value, ast.Name) and lp.iter.value.id == "self":
                    cands.add(lp.iter.attr)
    cands = (cands & lists) - KNOWN_READER_LISTS
    return sorted(cands)[0] if len(cands) == 1 else None


ZIDX = z3.Function("zero_length_file_index", I, I)     # j-th zero-length file (index into the file list)
NZ = z3.Int("num_zero_length_files")


def done(label, inv):
    """wraps a loop invariant: reaching the loop's normal exit (not a `break`) is recorded in the ghost state"""
    def f(lc):
        r = inv(lc)
        if lc.extra.get("phase") == "exit":
            lc.st.ghost[("done", label)] = True
        return r
    return f


def internal(fn):
    """a clause about the callee's own ghost trace: checked when the function is verified, not assumed at call sites"""
    return lambda c: z3.BoolVal(True) if c.at_call_site else fn(c)


def completes(*labels):
    return ("member-loops-run-to-completion", internal(lambda c: z3.BoolVal(all(c.st.ghost.get(("done", l)) for l in labels))))


def events(st, key):
    return st.ghost.get(key, ())


def new_events(lc, key):
    return events(lc.st, key)[len(events(lc.entry, key)):]


def m_outfile_write(ex, st, obj, args, kwargs, node):
    """file.write(b): ASSUMED to raise only the OSError family; the write is recorded (ghost)."""
    bad = st.fork()
    t = z3.Int(fresh_name("exc"))
    bad.assume(z3.And(t >= 0, t < len(ex.uni.names), ex.uni.subclass_term(t, "OSError")))
    ex.raise_in(bad, VExc(t, {"site": "write"}))
    path, mode = st.ghost.get(("outfile", obj.t.get_id()), (None, None))
    st.ghost["writes"] = events(st, "writes") + ((path, mode, args[0]),)
    return [(st, VUnk("n"))]


def with_outfile(ex, st, cm, phase):
    if phase == "enter":
        return [(st, cm)]


def os_raising(name, result=None):
    def m(ex, st, args, kwargs, node):
        bad = st.fork()
        t = z3.Int(fresh_name("exc"))
        bad.assume(z3.And(t >= 0, t < len(ex.uni.names), ex.uni.subclass_term(t, "OSError")))
        ex.raise_in(bad, VExc(t, {"site": name}))
        return [(st, result if result is not None else NONE)]
    return m


def m_afile_seek(ex, st, obj, args, kwargs, node):
    if len(args) == 2 and isinstance(args[1], VInt) and args[1].const() == 2:
        st.assume(ALEN(obj.t) >= 0)
        st.ghost[common.pos_key(obj)] = ALEN(obj.t) + ops.int_term(args[0])
        return [(st, VInt(st.ghost[common.pos_key(obj)]))]
    return common.m_seek(ex, st, obj, args, kwargs, node)


def m_afile_read(ex, st, obj, args, kwargs, node):
    """archive_file.read(n) after seek(o): ASSUMED to return file_bytes_at(f, o, n) (uninterpreted content)."""
    n = ops.int_term(args[0])
    pos = common.bytesio_pos(st, obj)
    common.havoc_pos(ex, st, obj)
    return [(st, VExt("Blob", ASLICE(obj.t, pos, n)))]


def install_layout(reg):
    reg.ext_models[("havoc", "ArchiveFile")] = common.havoc_pos
    reg.method_models[("ArchiveFile", "seek")] = m_afile_seek
    reg.method_models[("ArchiveFile", "tell")] = common.m_tell
    reg.method_models[("ArchiveFile", "read")] = m_afile_read
    reg.method_models[("OutFile", "write")] = m_outfile_write
    reg.ext_models[("with", "OutFile")] = with_outfile
    reg.ext_models["os.makedirs"] = os_raising("os.makedirs")
    # os.path primitives of _safe_join: uninterpreted (the C09 pack's ASSUMED models), POSIX constants
    from contracts import C09 as _c09
    for _k, _m in (("os.path.splitdrive", _c09.m_splitdrive), ("os.path.isabs", _c09.m_isabs), ("os.path.abspath", _c09.m_abspath)):
        reg.ext_models.setdefault(_k, _m)
    for _k, _v in (("os.sep", "/"), ("os.path.sep", "/"), ("os.pardir", ".."), ("os.path.pardir", ".."), ("os.curdir", "."), ("os.path.curdir", ".")):
        reg.ext_models.setdefault(("const", _k), VStr(_v))
    reg.ext_models["os.path.dirname"] = lambda ex, st, args, kwargs, node: [(st, VStr(DIRNAME(args[0].t)))]
    reg.attr_models[("Folder", "coders")] = lambda ex, st, o: VSeq(
        NCOD(o.t), lambda i: VTuple([VExt("CoderId", CID(o.t, i)), VExt("CoderProps", CPROP(o.t, i))]), "coder")
    reg.attr_models[("Folder", "unpack_sizes")] = lambda ex, st, o: VExt("IntList", USZ(o.t))
    reg.attr_models[("FileInfo", "is_directory")] = lambda ex, st, o: VBool(ISDIR(o.t))
    reg.attr_models[("FileInfo", "uncompressed")] = lambda ex, st, o: VInt(USIZE(o.t))
    reg.attr_models[("FileInfo", "filename")] = lambda ex, st, o: VStr(FNAME(o.t))


def assigned_in(loop):
    """names (re)bound by the statements of a loop body"""
    out = set()
    for stmt in loop.body:
        for n in ast.walk(stmt):
            if isinstance(n, ast.Name) and isinstance(n.ctx, ast.Store):
                out.add(n.id)
    tgt = {n.id for n in ast.walk(loop.target) if isinstance(n, ast.Name)} if isinstance(loop, ast.For) else set()
    return out - tgt


def loop_carried_ints(lc):
    """{name: current value} of the int locals that exist before the loop AND are reassigned in its body: the loop's state"""
    names = assigned_in(cur_loop(lc))
    env0 = lc.entry.frame.env
    return {k: lc.st.lookup(k) for k in sorted(names) if isinstance(env0.get(k), VInt) and isinstance(lc.st.lookup(k), VInt)}


def offset_local(lc):
    """the running offset of the member loop: its only loop-carried int"""
    ints = loop_carried_ints(lc)
    if len(ints) != 1:
        raise ops.Unsupported(f"member loop: expected one running offset, found {sorted(ints)}")
    return next(iter(ints.values()))


def blob_local(lc, st=None):
    """the loop's accumulator: the unique local of sort Blob (robust against renaming)."""
    st = st or lc.st
    vals = [(k, v) for k, v in st.frame.env.items() if isinstance(v, VExt) and v.sort == "Blob"]
    if len(vals) != 1:
        raise ops.Unsupported(f"decoder loop: expected one Blob local, found {[k for k, _ in vals]} in {st.frame.env}")
    return vals[0][1]


def p_folders():
    return Maker(lambda ex, st, name: [(NFOLD >= 0, VSeq(NFOLD, lambda i: VExt("Folder", FOLD(i)), "Folder"))], desc="list[Folder]")


def p_files():
    return Maker(lambda ex, st, name: [(NFILES >= 0, VSeq(NFILES, lambda i: VExt("FileInfo", FINFO(i)), "FileInfo"))], desc="list[FileInfo]")


def layout_contracts(lay_reg=None):
    out = []

    # ---- decoder glue (verified): which liblzma decoder is built from the coder id / properties, and what it is fed.
    # liblzma itself is uninterpreted: LZRUN(decoder description, input) is "what that decoder returns".
    LzmaDec = ext_sort("LzmaDec")
    LZRUN = z3.Function("lzma_decompress", LzmaDec, Blob, Blob)
    LZ1 = z3.Function("decode_lzma1", CoderProps, Blob, IntList, Blob)
    LZ2 = z3.Function("decode_lzma2", CoderProps, Blob, Blob)

    def new_lzma_dec(ex, st, args, kwargs, node):
        """lzma.LZMADecompressor(format=..., filters=...): ASSUMED to raise only LZMAError / ValueError-free for well-formed filter specs"""
        d = VExt("LzmaDec")
        st.ghost["lzma_new"] = events(st, "lzma_new") + ((d, dict(kwargs), tuple(args)),)
        return [(st, d)]

    def lzma_decompress(ex, st, obj, args, kwargs, node):
        bad = st.fork()
        ex.raise_in(bad, ex.mk_exc("lzma.LZMAError"))
        st.ghost["lzma_run"] = events(st, "lzma_run") + ((obj, tuple(args)),)
        a = args[0] if args else None
        return [(st, VExt("Blob", LZRUN(obj.t, a.t)) if isinstance(a, VExt) and a.sort == "Blob" else VExt("Blob"))]

    lay_reg.ext_models[("new", "lzma.LZMADecompressor")] = new_lzma_dec
    lay_reg.method_models[("LzmaDec", "decompress")] = lzma_decompress
    for cname in ("FILTER_LZMA2", "FILTER_LZMA1", "FORMAT_RAW", "FORMAT_ALONE", "FORMAT_XZ", "FORMAT_AUTO"):
        lay_reg.ext_models[("const", f"lzma.{cname}")] = VStr(f"lzma.{cname}")

    def only_decoder(c):
        new, run = events(c.st, "lzma_new"), events(c.st, "lzma_run")
        if len(new) != 1 or len(run) != 1 or run[0][0].t.get_id() != new[0][0].t.get_id() or new[0][2] or len(run[0][1]) != 1:
            return None
        return new[0][1], run[0][1][0], new[0][0]

    def lzma2_dict_spec(p):
        """LZMA2 property byte p in 0..39 (xz / 7z format): dictionary size (2 | (p & 1)) << (p / 2 + 11)"""
        acc = z3.BitVecVal(0, 72)
        for k in range(39, -1, -1):
            acc = z3.If(p == bv(k), z3.BitVecVal((2 | (k & 1)) << (k // 2 + 11), 72), acc)
        return acc

    def p_props(*lengths):
        alts = [p_const(None)] + [Maker(lambda ex, st, name, n=n: VBytes([VInt(z3.BitVec(f"{name}_{i}", 8)) for i in range(n)]), desc=f"bytes[{n}]") for n in lengths]
        return p_alts(*alts)

    def l2_post(c):
        pr = c.args["properties"]
        if not isinstance(pr, VBytes) or not pr.items:
            return z3.BoolVal(False)                  # no property byte: must not return
        p = pr.items[0].t
        od = only_decoder(c)
        ok = z3.BoolVal(False)
        if od is not None and isinstance(c.result, VExt) and c.result.sort == "Blob":
            kw, fed, dec = od
            fl = c.ex.concrete_items(c.st, kw["filters"]) if set(kw) == {"format", "filters"} and isinstance(kw["filters"], VRef) else None
            fmt = kw.get("format")
            if fl is not None and len(fl) == 1 and isinstance(fl[0], VRef) and c.st.obj(fl[0].ref).kind == "dict" and isinstance(fmt, VStr):
                d = c.st.obj(fl[0].ref).data
                if set(d) == {"id", "dict_size"} and isinstance(d["id"], VStr) and isinstance(d["dict_size"], VInt) and isinstance(fed, VExt):
                    ok = z3.And(fmt.t == z3.StringVal("lzma.FORMAT_RAW"), d["id"].t == z3.StringVal("lzma.FILTER_LZMA2"),
                                ops.eq_term(d["dict_size"], VInt(lzma2_dict_spec(p))), fed.t == c.args["data"].t,
                                c.result.t == LZRUN(dec.t, c.args["data"].t))
        # property bytes 0..39 are the dictionary sizes a packer can choose below 4 GiB; 40 (4 GiB - 1) is not claimed here
        return z3.Implies(z3.ULT(p, bv(40)), ok)

    out.append(FnContract(
        target=f"{RD}._decompress_lzma2",
        params=[("self", p_unk()), ("data", p_ext("Blob")), ("properties", p_props(0, 1, 2))],
        ensures=[("raw-LZMA2-decoder-with-the-dictionary-size-of-the-property-byte-fed-the-folder-bytes", internal(l2_post))],
        raises=[Raises(BAD, label="missing property byte / liblzma error")],
        note="the decoder window is a property of the folder: (2 | (p & 1)) << (p / 2 + 11) for the property byte p <= 39, never smaller"))

    def l1_post(c):
        pr, us = c.args["properties"], c.ex.concrete_items(c.entry, c.args["unpack_sizes"])
        if not isinstance(pr, VBytes) or len(pr.items) < 5 or us is None:
            return z3.BoolVal(False)
        od = only_decoder(c)
        if od is None or not (isinstance(c.result, VExt) and c.result.sort == "Blob"):
            return z3.BoolVal(False)
        kw, fed, dec = od
        fmt = kw.get("format")
        if set(kw) != {"format"} or not isinstance(fmt, VStr) or not isinstance(fed, VExt):
            return z3.BoolVal(False)
        size = [z3.Extract(8 * i + 7, 8 * i, us[-1].t) for i in range(8)] if us else [bv(0xFF)] * 8       # unknown size: 8 x 0xFF
        want = c.args["data"].t
        for b in reversed([x.t for x in pr.items[:5]] + size):
            want = BCONS(b, want)
        # LZMA "alone" stream: 5 property bytes, the uncompressed size as uint64 LE, the folder bytes
        return z3.And(fmt.t == z3.StringVal("lzma.FORMAT_ALONE"), fed.t == want, c.result.t == LZRUN(dec.t, want))

    def p_sizes():
        def mk(ex, st, name):
            return [(None, VRef(st.alloc(HeapObj("list", [], fresh=False), ex.refs))),
                    (None, VRef(st.alloc(HeapObj("list", [VInt(z3.BitVec(f"{name}_0", 64))], fresh=False), ex.refs))),
                    (None, VRef(st.alloc(HeapObj("list", [VInt(z3.BitVec(f"{name}_0b", 64)), VInt(z3.BitVec(f"{name}_1b", 64))], fresh=False), ex.refs)))]
        return Maker(mk, desc="[] | [size] | [size, size]")

    out.append(FnContract(
        target=f"{RD}._decompress_lzma",
        params=[("self", p_unk()), ("data", p_ext("Blob")), ("properties", p_props(4, 5, 6)), ("unpack_sizes", p_sizes())],
        ensures=[("LZMA-alone-stream-is-props-size-le64-folder-bytes", internal(l1_post))],
        raises=[Raises(BAD, label="fewer than 5 property bytes / liblzma error")],
        note="5 property bytes + uint64 LE unpack size of the coder's output (0xFF x 8 when unknown) + the packed bytes"))
    # abstract versions seen by _apply_decoder's verification (second registration wins at call sites)
    out.append(FnContract(target=f"{RD}._decompress_lzma", assumed=True,
                          params=[("self", p_unk()), ("data", p_ext("Blob")), ("properties", p_ext("CoderProps")), ("unpack_sizes", p_ext("IntList"))],
                          returns=lambda c: VExt("Blob", LZ1(c.args["properties"].t, c.args["data"].t, c.args["unpack_sizes"].t)),
                          raises=[Raises(BAD)], note="verified above on concrete property bytes"))
    out.append(FnContract(target=f"{RD}._decompress_lzma2", assumed=True,
                          params=[("self", p_unk()), ("data", p_ext("Blob")), ("properties", p_ext("CoderProps"))],
                          returns=lambda c: VExt("Blob", LZ2(c.args["properties"].t, c.args["data"].t)),
                          raises=[Raises(BAD)], note="verified above on concrete property bytes"))

    def ad_post(kind):
        def f(c):
            r, data = c.result, c.args["data"].t
            if not (isinstance(r, VExt) and r.sort == "Blob"):
                return z3.BoolVal(False)
            if kind == "copy":
                return r.t == data                       # the Copy coder is the identity
            if kind == "lzma":
                return r.t == LZ1(c.args["properties"].t, data, c.args["unpack_sizes"].t)
            return r.t == LZ2(c.args["properties"].t, data)
        return f

    KINDS = (("copy", b"\x00", True), ("lzma", b"\x03\x01\x01", True), ("lzma2", b"\x21", True),
             ("aes", b"\x06\xf1\x07\x01", False), ("deflate", b"\x04\x01\x08", False))

    def kind_of(c):
        cid = c.ex.py_const(c.args["coder_id"])
        return next((k for k, b_, _ok in KINDS if b_ == cid), None)

    def ad_clause(kind, ok):
        def f(c):
            if kind_of(c) != kind:
                return z3.BoolVal(True)               # another method id: this clause does not apply
            return ad_post(kind)(c) if ok else z3.BoolVal(False)
        return f

    out.append(FnContract(
        target=f"{RD}._apply_decoder",
        params=[("self", p_obj("SevenZipReader", {})), ("coder_id", p_alts(*[p_const(b_) for _k, b_, _ok in KINDS])), ("properties", p_ext("CoderProps")),
                ("data", p_ext("Blob")), ("unpack_sizes", p_ext("IntList"))],
        ensures=[(f"coder-{k}-" + ("decodes-with-its-own-decoder" if ok else "is-rejected"), internal(ad_clause(k, ok))) for k, _b, ok in KINDS],
        raises=[Raises(BAD, sub=True, label="unsupported / encrypted method or decoder failure", when=lambda c: z3.BoolVal(kind_of(c) != "copy"))],
        note="method id -> decoder: 00 Copy (identity), 030101 LZMA, 21 LZMA2; AES and unknown ids are rejected (BCJ not claimed)"))

    # ---- _apply_decoder as seen by _decompress_folder: `decode` is uninterpreted (Appendix B); ASSUMED
    out.append(FnContract(
        target=f"{RD}._apply_decoder", assumed=True,
        params=[("self", p_unk()), ("coder_id", p_ext("CoderId")), ("properties", p_ext("CoderProps")), ("data", p_ext("Blob")),
                ("unpack_sizes", p_ext("IntList"))],
        returns=lambda c: VExt("Blob", DEC(c.args["coder_id"].t, c.args["properties"].t, c.args["data"].t, c.args["unpack_sizes"].t)),
        raises=[Raises(BAD, label="decoder failure / unsupported method")],
        note="decode(coder, props, data, sizes): uninterpreted; copy = identity and lzma/lzma2 = liblzma are Trust (replayed natively)"))

    # ---- _decompress_folder
    def df_file(c):
        sf = c.args["source_file"]
        return sf if isinstance(sf, VExt) else c.entry.obj(c.args["self"].ref).data["_archive_file"]

    def df_sum(c):
        t = seq_sum(c.ex, c.entry, c.args["pack_sizes"])
        if t is None:
            raise ops.Unsupported("_decompress_folder: pack_sizes without a sum view")
        return t

    def df_returns(c):
        f = df_file(c).t
        fo = c.args["folder"].t
        pp = ops.int_term(c.args["pack_pos"])
        total = z3.If(df_sum(c) == 0, ALEN(f) - pp, df_sum(c))
        return VExt("Blob", CHAIN(fo, ASLICE(f, pp, total), NCOD(fo)))

    def df_inv(lc):
        x0 = blob_local(lc, lc.entry).t
        fo = top(lc, "folder").t
        if lc.extra.get("phase") in ("init", "assume"):
            lc.st.assume(chain_def(fo, x0, lc.i))
        return z3.And(blob_local(lc).t == CHAIN(fo, x0, lc.i), NCOD(fo) >= 0)

    out.append(FnContract(
        target=f"{RD}._decompress_folder",
        params=[("self", p_obj("SevenZipReader", {"_archive_file": p_ext("ArchiveFile")})), ("folder", p_ext("Folder")),
                ("pack_pos", p_int(0)), ("pack_sizes", p_intseq(z3.Function("pack_sizes_arg", I, I), z3.Int("pack_sizes_len"))),
                ("source_file", p_opt(p_ext("ArchiveFile")))],
        requires=lambda c: z3.And(ops.int_term(c.args["pack_pos"]) >= 0, df_sum(c) >= 0, NCOD(c.args["folder"].t) >= 0),
        returns=df_returns,
        raises=[Raises(BAD, label="no coders / decoder failure")],
        loops=role(lambda ex, st, it, node: True, "decoder-chain-last-coder-first", df_inv),
        note="decodes archive[pack_pos : pack_pos + sum(pack_sizes)] through the folder's coder chain, last coder first "
             "(empty / all-zero size list: everything from pack_pos to the end of the file -- the header case)"))

    # ---- _safe_join / _mkdirs (C09 proves _safe_join's confinement; here: WHEN it may refuse a member name -- a refusal aborts
    # the extraction of the whole archive, so a name may be refused only for being unsafe, never for what it merely contains)
    from contracts import C09 as _c09

    def sj_unsafe(c):
        """an UNSAFE member name (POSIX, in terms of the os.path primitives, which stay uninterpreted): empty names are never
        refused; a drive, an absolute name, a name whose normal form climbs ('..' or '../...'), or a name whose absolute
        join with the base is neither the base nor below it"""
        base, rel = c.args["base_dir"].t, c.args["relative_path"].t
        tail = _c09.TAIL(rel)
        sv = z3.StringVal
        nf = NORMPATH(tail)
        b = _c09.ABS(base)
        joined = z3.If(z3.PrefixOf(sv("/"), tail), tail, z3.If(z3.Or(z3.Length(b) == 0, z3.SuffixOf(sv("/"), b)), z3.Concat(b, tail), z3.Concat(b, sv("/"), tail)))
        t = _c09.ABS(joined)
        return z3.And(z3.Length(rel) > 0,
                      z3.Or(z3.Length(_c09.DRIVE(rel)) > 0, _c09.ISABS(rel), z3.PrefixOf(sv("/"), rel), z3.PrefixOf(sv("\\"), rel),
                            nf == sv(".."), z3.PrefixOf(sv("../"), nf),
                            z3.And(t != b, z3.Not(z3.PrefixOf(z3.Concat(b, sv("/")), t)))))

    out.append(FnContract(
        target=f"{SEVEN}::_safe_join", params=[("base_dir", p_str()), ("relative_path", p_str())],
        raises=[Raises(BAD, label="unsafe member name", when=sj_unsafe)],
        result_maker=lambda ex, st, ctx: VStr(z3.String(fresh_name("safe_path"))),
        note="a member name is refused only when it is unsafe: drive / absolute / climbing normal form / joined path outside the base"))
    out.append(FnContract(
        target=f"{SEVEN}::_safe_join", assumed=True, params=[("base_dir", p_str()), ("relative_path", p_str())],
        returns=lambda c: VStr(SJ(c.args["base_dir"].t, c.args["relative_path"].t)),
        raises=[Raises(BAD, label="unsafe member name")], note="verified by the C09 pack (confinement); here: a function of (base, name)"))
    out.append(FnContract(target=f"{SEVEN}::_mkdirs", params=[("path", p_str())], raises=[Raises(BAD, label="directory creation failed")]))

    # ---- _extract_files_from_folder: member j of folder k = decompressed[off_j : off_j + size_j]
    def ef_self():
        return p_obj("SevenZipReader", {"_folder_to_files": p_ext("FolderMap"), "_files": p_files()})

    def ef_requires(c):
        k = ops.int_term(c.args["folder_idx"])
        j = z3.Int("j!req")
        return z3.And(HASF(k), NF(k) >= 0,
                      z3.ForAll([j], z3.Implies(z3.And(j >= 0, j < NF(k)), z3.And(FIDX(k, j) >= 0, FIDX(k, j) < NFILES)),
                                patterns=[FIDX(k, j)]))

    def ef_inv(lc):
        k = ops.int_term(top(lc, "folder_idx"))
        dec = top(lc, "decompressed").t
        base = top(lc, "base_path").t
        i = lc.i
        if lc.extra.get("phase") in ("init", "assume"):
            lc.st.assume(off_def(k, i))
        conj = [ops.int_term(offset_local(lc)) == OFF(k, i), OFF(k, i) >= 0]
        if lc.extra.get("phase") == "preserve":
            # the iteration that just ended handled entry i-1 of the folder: a directory entry writes nothing,
            # any other entry is written once, to its own safe path, with its own slice of the folder output
            fi = FINFO(FIDX(k, i - 1))
            new = new_events(lc, "writes")
            ok = z3.BoolVal(False)
            if len(new) == 0:
                ok = ISDIR(fi)
            elif len(new) == 1:
                path, mode, data = new[0]
                if isinstance(path, VStr) and isinstance(data, VExt) and data.sort == "Blob" and isinstance(mode, VStr) and mode.const() == "wb":
                    ok = z3.And(z3.Not(ISDIR(fi)), path.t == SJ(base, FNAME(fi)),
                                data.t == BSLICE(dec, OFF(k, i - 1), OFF(k, i - 1) + USIZE(fi)))
            conj.append(ok)
        return z3.And(conj)

    out.append(FnContract(
        target=f"{RD}._extract_files_from_folder",
        params=[("self", ef_self()), ("base_path", p_str()), ("folder_idx", p_int(0)), ("decompressed", p_ext("Blob"))],
        requires=ef_requires,
        raises=[Raises(BAD, label="unsafe name / size beyond the folder output / file-system failure")],
        ensures=[completes("member-j-is-slice-off_j-size_j-of-the-folder-output")],
        loops=role(is_seq("int"), "member-j-is-slice-off_j-size_j-of-the-folder-output", ef_inv),
        frame=lambda ex, st, ctx: st.ghost.__setitem__("extracted", events(st, "extracted") + ((ctx.args["folder_idx"], ctx.args["decompressed"]),)),
        note="offset of entry j = sum of the sizes of the earlier non-directory entries of the folder"))

    # ---- extractall: folder k is decoded from ITS OWN packed stream
    ZL = zero_length_worklist()
    ZL_LABEL = "each-zero-length-file-is-created-empty-at-its-own-path"

    def ea_self():
        f = {"_folders": p_folders(), "_pack_sizes": p_intseq(PSZ, NPACK), "_pack_positions": p_list1(PACKPOS),
             "_header_offset": p_const(32), "_folder_to_files": p_ext("FolderMap"), "_files": p_files(),
             "_archive_file": p_ext("ArchiveFile")}
        if ZL:
            f[ZL] = Maker(lambda ex, st, name: [(NZ >= 0, VSeq(NZ, lambda j: VInt(ZIDX(j)), "int", tag=("zidx",)))], desc="indices of the zero-length files")
        return p_obj("SevenZipReader", f)

    def zl_inv(lc):
        conj = []
        if lc.extra.get("phase") == "preserve":
            fi = FINFO(ZIDX(lc.i - 1))
            base = top(lc, "path").t
            opens, writes = new_events(lc, "opens"), new_events(lc, "writes")
            ok = z3.BoolVal(False)
            if len(opens) == 1 and len(writes) == 0:
                pth, mode = opens[0]
                if isinstance(pth, VStr) and isinstance(mode, VStr) and mode.const() == "wb":
                    ok = pth.t == SJ(base, FNAME(fi))
            conj.append(ok)
        return z3.And(conj + [z3.BoolVal(True)])

    def ea_zero_length(c):
        """F25: entries with emptyStream + emptyFile are FILES of length 0 and must be extracted (created empty)"""
        if not ZL:
            c.note = "extractall only writes the members of folders: an entry without a stream is never created"
            return z3.BoolVal(False)
        return z3.BoolVal(bool(c.st.ghost.get(("done", ZL_LABEL))))

    def ea_archive(c_or_lc):
        st = c_or_lc.entry
        sf = top(c_or_lc, "source_file")
        return sf.t if isinstance(sf, VExt) else st.obj(top(c_or_lc, "self").ref).data["_archive_file"].t

    def ea_requires(c):
        j = z3.Int("j!req")
        t = z3.Int("t!req")
        return z3.And(
            NPACK == NFOLD, PACKPOS >= 32,
            z3.ForAll([t], z3.Implies(z3.And(t >= 0, t < NPACK), PSZ(t) > 0), patterns=[PSZ(t)]),
            z3.ForAll([t], z3.Implies(z3.And(t >= 0, t < NFOLD), NCOD(FOLD(t)) >= 0), patterns=[FOLD(t)]),
            z3.ForAll([t, j], z3.Implies(z3.And(HASF(t), j >= 0, j < NF(t)), z3.And(FIDX(t, j) >= 0, FIDX(t, j) < NFILES)),
                      patterns=[FIDX(t, j)]),
            z3.ForAll([t], z3.Implies(HASF(t), NF(t) >= 0), patterns=[NF(t)]),
            *([z3.ForAll([t], z3.Implies(z3.And(t >= 0, t < NZ), z3.And(ZIDX(t) >= 0, ZIDX(t) < NFILES)), patterns=[ZIDX(t)])] if ZL else []))

    def ea_hyps(c):
        return PS(NPACK) >= 0          # lemma prefix-sum-nonneg (induction), instantiated at the number of pack streams

    def ea_inv(lc):
        arch = ea_archive(lc)
        i = lc.i
        conj = []
        if lc.extra.get("phase") == "preserve":
            wt = getattr(lc.ex, "witness_terms", None)
            if isinstance(wt, dict):
                wt.setdefault("folder_idx", i - 1)
                wt.setdefault("sum_of_pack_sizes_before_folder", PS(i - 1))
                wt.setdefault("first_pack_size", PSZ(z3.IntVal(0)))
        n_new = len(events(lc.st, "extracted")) - len(events(lc.entry, "extracted"))
        if n_new:
            new = new_events(lc, "extracted")
            ok = z3.BoolVal(False)
            if len(new) == 1:
                kk, blob = new[0]
                if isinstance(kk, VInt) and isinstance(blob, VExt) and blob.sort == "Blob":
                    ok = z3.And(HASF(i - 1), ops.int_term(kk) == i - 1, blob.t == out_spec(arch, i - 1))
            conj.append(ok)
        elif lc.extra.get("phase") == "preserve":
            conj.append(z3.Not(HASF(i - 1)))
        if lc.extra.get("phase") in ("init", "assume"):
            lc.st.assume(ps_def(i))                      # definition of the prefix sum at 0 and at this folder index
        # a RUNNING position (an int the loop carries from folder to folder) has advanced by the packed sizes of the
        # folders passed so far: candidate invariant for every loop-carried int; a carried int of another kind fails its
        # preservation VC (-> unknown, the replayer decides), it is never assumed away
        try:
            carried = loop_carried_ints(lc)
        except Exception:  # noqa  (no recognisable loop node: no candidates)
            carried = {}
        for name, cur in carried.items():
            v0 = lc.entry.lookup(name)
            if isinstance(v0, VInt) and isinstance(cur, VInt):
                conj.append(ops.int_term(cur) == ops.int_term(v0) + PS(i))
        return z3.And(conj + [PS(i) >= 0])

    out.append(FnContract(
        target=f"{RD}.extractall",
        params=[("self", ea_self()), ("path", p_str()), ("source_file", p_opt(p_ext("ArchiveFile")))],
        requires=ea_requires, hyps=ea_hyps,
        raises=[Raises("ValueError", when=lambda c: z3.Length(c.args["path"].t) == 0, label="empty path"),
                Raises(BAD, label="directory creation / decoder / member extraction failed")],
        ensures=[completes("folder-k-decoded-from-its-own-pack-stream"), ("zero-length-files-are-created-empty", internal(ea_zero_length))],
        loops=merged(role(is_seq("tuple", "Folder", "int"), "folder-k-decoded-from-its-own-pack-stream", ea_inv),
                   role(is_seq(tag="zidx"), ZL_LABEL, zl_inv)),
        note="for every folder k that has files: the bytes handed to _extract_files_from_folder are "
             "decode_chain(folder k, archive[pack_pos + sum(pack_sizes[:k]) : +pack_sizes[k]])"))
    return out


# ======================================================= member loops (e), (f) ==
ZipFileS, ZipInfoS = ext_sort("ZipFile"), ext_sort("ZipInfo")
TarFileS, TarInfoS = ext_sort("TarFile"), ext_sort("TarInfo")
Extractor, ResultGen, Result = ext_sort("Extractor"), ext_sort("ResultGen"), ext_sort("Result")
EntryGen, MemberIO = ext_sort("EntryGen"), ext_sort("MemberIO")
ZN = z3.Function("zip_n", ZipFileS, I)
ZINFO = z3.Function("zip_info", ZipFileS, I, ZipInfoS)
ZISDIR = z3.Function("zipinfo_is_dir", ZipInfoS, B)
ZFLAGS = z3.Function("zipinfo_flag_bits", ZipInfoS, z3.BitVecSort(16))
ZNAME = z3.Function("zipinfo_filename", ZipInfoS, S)
ZSIZE = z3.Function("zipinfo_file_size", ZipInfoS, I)
ZREAD = z3.Function("zip_read", ZipFileS, ZipInfoS, Blob)           # zf.read(info): Trust = the member's bytes
TN = z3.Function("tar_n", TarFileS, I)
TMEM = z3.Function("tar_member", TarFileS, I, TarInfoS)
TISREG = z3.Function("tarinfo_isreg", TarInfoS, B)
TNAME = z3.Function("tarinfo_name", TarInfoS, S)
TSIZE = z3.Function("tarinfo_size", TarInfoS, I)
THASFILE = z3.Function("tar_extractfile_not_none", TarFileS, TarInfoS, B)
TREAD = z3.Function("tar_read", TarFileS, TarInfoS, Blob)           # tf.extractfile(m).read(): Trust
BASENAME = z3.Function("os_path_basename", S, S)
SKIP = z3.Function("should_skip_file", S, S, B)                     # _should_skip_file (content proved by C09)
MAXMEM = z3.Int("config_max_memory_size")
EXTR = z3.Function("get_extractor", S, Extractor)                   # router.get_extractor (C07)
MEMIO = z3.Function("BytesIO_of", Blob, MemberIO)
RUN = z3.Function("extractor_call", Extractor, MemberIO, S, ResultGen)
NRES = z3.Function("result_count", ResultGen, I)
RES = z3.Function("result_at", ResultGen, I, Result)
ENTRY = z3.Function("process_archive_entry", S, Blob, B, S, S, EntryGen)   # (filename, bytes, path is None, path, basename)
FSREAD = z3.Function("fs_read", S, Blob)                            # content of the file at a path
EXISTS = z3.Function("fs_exists", S, B)
N7 = z3.Int("szf_list_len")


def zkeep(zf, a):
    e = ZINFO(zf, a)
    return z3.And(z3.Not(ZISDIR(e)), z3.Not(SKIP(ZNAME(e), BASENAME(ZNAME(e)))))


def keep7(a):
    return keep7e(FINFO(a))


def keep7e(e):
    return z3.And(z3.Not(ISDIR(e)), z3.Not(SKIP(FNAME(e), BASENAME(FNAME(e)))), z3.Not(USIZE(e) > MAXMEM))


ZKEPT = z3.Function("zip_kept_before", ZipFileS, I, I)           # number of selected members among infolist()[:i] (used opaquely)
ZSEL = z3.Function("zip_selected_index", ZipFileS, I, I)
KEPT7 = z3.Function("szf_kept_before", I, I)                      # number of selected members among list()[:i] (used opaquely)
SEL7 = z3.Function("szf_selected_index", I, I)


def ap_terms(v):
    if isinstance(v, VStr):
        return z3.BoolVal(False), v.t
    return z3.BoolVal(True), z3.StringVal("")


def entry_term(fn, data, ap, bn):
    none, apt = ap_terms(ap)
    return ENTRY(fn, data, none, apt, bn)


def member_path(ap, fn):
    """`archive!/member` (the member name alone when no archive path is given)."""
    if isinstance(ap, VStr):
        return z3.If(z3.Length(ap.t) > 0, z3.Concat(ap.t, z3.StringVal("!/"), fn), fn)
    return fn


class MemberExecutor(C10Executor):
    """Adds ghost recording for the member loops: raised-exception counter, extractor dispatch, yields,
    list appends; iteration over an extractor's result generator."""

    def raise_in(self, st, exc):
        st.ghost["raised"] = st.ghost.get("raised", 0) + 1
        super().raise_in(st, exc)

    def s_Raise(self, s, st):
        outs = super().s_Raise(s, st)
        for o in outs:
            if o.kind == "raise":
                o.st.ghost["raised"] = o.st.ghost.get("raised", 0) + 1
        return outs

    def call(self, st, f, args, kwargs, node):
        if isinstance(f, VExt) and f.sort == "Extractor":
            st.ghost["dispatch"] = events(st, "dispatch") + ((f, tuple(args), dict(kwargs)),)
            self.exc_any(st.fork(), f"{self.loc(node)} extractor call")
            a0, pth = (args[0] if args else None), kwargs.get("path")
            if len(args) == 1 and isinstance(a0, VExt) and a0.sort == "MemberIO" and isinstance(pth, VStr) and set(kwargs) == {"path"}:
                return [(st, VExt("ResultGen", RUN(f.t, a0.t, pth.t)))]
            return [(st, VExt("ResultGen"))]
        return super().call(st, f, args, kwargs, node)

    def seq_view(self, st, it):
        if isinstance(it, VExt) and it.sort == "ResultGen":
            # a generator: next() may raise at any point (a corrupt member): exceptional path from the loop
            self.exc_any(st.fork(), "next(extractor results)")
            st.assume(NRES(it.t) >= 0)
            return NRES(it.t), (lambda i, g=it.t: VExt("Result", RES(g, i)))
        return super().seq_view(st, it)

    def on_yield(self, st, v, node):
        st.ghost["yields"] = events(st, "yields") + (v,)

    def on_yield_from(self, st, gen, node):
        if isinstance(gen, VExt) and gen.sort == "ResultGen":
            self.exc_any(st.fork(), "next(extractor results)")      # the delegated-to generator may fail at any point
            # `yield from extractor(...)` is the delegation form of `for r in extractor(...): yield r` (PY-GEN): the same obligation,
            # stated on the delegated-to generator = the result generator of THE dispatch
            lab = "yields-the-extractor-results-in-order"
            if self.contract is not None and any(isinstance(k, tuple) and k[0] == "role" and k[1] == lab for k in self.contract.loops):
                d = events(st, "dispatch")
                ok = z3.BoolVal(False)
                if len(d) == 1 and len(d[0][1]) == 1 and isinstance(d[0][2].get("path"), VStr) and isinstance(d[0][1][0], VExt):
                    ok = gen.t == RUN(d[0][0].t, d[0][1][0].t, d[0][2]["path"].t)
                self.add_vc("inv-init", lab, st.pc, z3.BoolVal(True), loc=self.loc(node))
                self.add_vc("inv-preserve", lab, st.pc, ok, loc=self.loc(node))
        st.ghost["yields"] = events(st, "yields") + (gen,)

    def list_method(self, st, obj, name, args, kwargs, node):
        if name == "append":
            st.ghost["appends"] = events(st, "appends") + ((obj.ref, args[0]),)
            o = st.obj(obj.ref)
            if o.data is None:
                return [(st, NONE)]
        return super().list_method(st, obj, name, args, kwargs, node)

    def b_open(self, st, args, kwargs, node):
        if self.contract is not None and self.contract.target.startswith(SEVEN):
            return super().b_open(st, args, kwargs, node)
        self.exc_any(st.fork(), f"{self.loc(node)} open")
        f = VExt("PyFile")
        st.ghost[("pyfile", f.t.get_id())] = (args[0], args[1] if len(args) > 1 else kwargs.get("mode"))
        return [(st, f)]

    def compare(self, st, op, a, b, node):
        if op in ("Eq", "NotEq"):
            for x, y in ((a, b), (b, a)):
                if isinstance(x, VSeq) and x.is_bytes and isinstance(y, VBytes):
                    t = z3.And([x.length == len(y.items)] + [self.as_byte(x.elem(z3.IntVal(i))).t == self.as_byte(yi).t
                                                              for i, yi in enumerate(y.items)])
                    return [(st, VBool(t if op == "Eq" else z3.Not(t)))]
        return super().compare(st, op, a, b, node)


def m_stream_seek(ex, st, obj, args, kwargs, node):
    if len(args) == 2 and isinstance(args[1], VInt) and args[1].const() == 2:
        st.assume(SLEN(obj.t) >= 0)
        st.ghost[common.pos_key(obj)] = SLEN(obj.t) + ops.int_term(args[0])
        return [(st, VInt(st.ghost[common.pos_key(obj)]))]
    return common.m_seek(ex, st, obj, args, kwargs, node)


def worklist_of(loop):
    """the local list a loop appends to (the unique `X.append(...)` receiver that is a plain name)"""
    names = {n.func.value.id for n in ast.walk(loop) if isinstance(n, ast.Call) and isinstance(n.func, ast.Attribute)
             and n.func.attr == "append" and isinstance(n.func.value, ast.Name)}
    if len(names) != 1:
        raise ops.Unsupported(f"selection loop: expected one appended-to list, found {sorted(names)}")
    return names.pop()


def with_passthrough(ex, st, cm, phase):
    if phase == "enter":
        return [(st, cm)]


def m_seq_startswith(ex, st, obj, args, kwargs, node):
    """bytes.startswith(prefix | tuple of prefixes) on a byte sequence of symbolic length"""
    if not (isinstance(obj, VSeq) and obj.is_bytes and len(args) in (1, 2)) or kwargs:
        return ex.havoc_call(st, "seq.startswith", args, node)
    cands = list(args[0].items) if isinstance(args[0], VTuple) else [args[0]]
    if not all(isinstance(c_, VBytes) for c_ in cands):
        return ex.havoc_call(st, "seq.startswith", args, node)
    # startswith(prefix, start) with a constant start >= 0: the prefix is compared at offset start; False when start > len
    off = args[1].const() if len(args) == 2 and isinstance(args[1], VInt) else (0 if len(args) == 1 else None)
    if not isinstance(off, int) or isinstance(off, bool) or off < 0:
        return ex.havoc_call(st, "seq.startswith", args, node)
    alts = [z3.And([obj.length >= off + len(c_.items)] + [ex.as_byte(obj.elem(z3.IntVal(off + i))).t == ex.as_byte(b).t for i, b in enumerate(c_.items)])
            for c_ in cands]
    return [(st, VBool(z3.Or(alts + [z3.BoolVal(False)])))]


PCOUNT = z3.Function("entries_resolving_to_path", S, I)
COUNTER7 = z3.Const("path_counter_object", ext_sort("PathCounts"))      # the collections.Counter form of the count (missing key -> 0, no KeyError)
NORMPATH = z3.Function("os_path_normpath", S, S)


def m_pathcounts_get(ex, st, obj, args, kwargs, node):
    k = args[0]
    return [(st, VInt(PCOUNT(k.t)))] if isinstance(k, VStr) else ex.havoc_call(st, "PathCounts.get", args, node)


NPARTS = z3.Function("str_split_count", S, S, I)
PART = z3.Function("str_split_part", S, S, I, S)


def m_str_split(ex, st, args, kwargs, node):
    """s.split(sep) with a constant non-empty separator (PY-STR-SPLIT, ASSUMED view): a list of n >= 1 pieces PART(s, sep, i),
    none of which contains sep; s starts with piece 0 (followed by sep when n > 1, the whole of s when n == 1) and ends with
    the last piece; n == 1 exactly when sep does not occur in s.  (Facts true of every split; not a complete axiomatisation:
    what does not follow from them is `unknown` and goes to the replayer.)"""
    sep = args[1].const() if len(args) == 2 and isinstance(args[1], VStr) else None
    if kwargs or not isinstance(args[0], VStr) or not isinstance(sep, str) or not sep:
        return ex.havoc_call(st, "str.split", args, node)
    t, sp = args[0].t, z3.StringVal(sep)
    n = NPARTS(t, sp)
    first, last = PART(t, sp, z3.IntVal(0)), PART(t, sp, n - 1)
    st.assume(z3.And(n >= 1, (n == 1) == z3.Not(z3.Contains(t, sp)), z3.Implies(n == 1, first == t),
                     z3.Implies(n > 1, z3.PrefixOf(z3.Concat(first, sp), t)), z3.Implies(n > 1, z3.SuffixOf(z3.Concat(sp, last), t)),
                     z3.Not(z3.Contains(first, sp)), z3.Not(z3.Contains(last, sp))))
    return [(st, VSeq(n, lambda i: VStr(PART(t, sp, i)), "str", tag=("split", t, sep)))]


def str_fn(name, F):
    """uninterpreted str -> str library function; anything else is an unmodelled call"""
    def m(ex, st, args, kwargs, node):
        if len(args) == 1 and isinstance(args[0], VStr) and not kwargs:
            return [(st, VStr(F(args[0].t)))]
        return ex.havoc_call(st, name, args, node)
    return m


def m_posix_join(ex, st, args, kwargs, node):
    """posixpath.join(a, b) (POSIX os.path.join): b when b is absolute, else a + '/' + b (no extra '/' when a is empty or ends in '/')"""
    if len(args) == 2 and all(isinstance(a, VStr) for a in args) and not kwargs:
        a, b = args[0].t, args[1].t
        glue = z3.If(z3.Or(z3.Length(a) == 0, z3.SuffixOf(z3.StringVal("/"), a)), z3.Concat(a, b), z3.Concat(a, z3.StringVal("/"), b))
        return [(st, VStr(z3.If(z3.PrefixOf(z3.StringVal("/"), b), b, glue)))]
    return ex.havoc_call(st, "posixpath.join", args, node)


def new_counter(ex, st, args, kwargs, node):
    """collections.Counter(<normalised path of every non-directory entry>): the occurrence count per path (PCOUNT), the same
    object the explicit counting pass builds; any other use of Counter is an unmodelled call"""
    v = args[0] if len(args) == 1 and not kwargs else None
    if isinstance(v, VSeq) and isinstance(v.tag, tuple) and v.tag and v.tag[0] == "genexp":
        j = z3.Int(fresh_name("j!cnt"))
        cond, elt = v.tag[1](j)
        if isinstance(elt, VStr) and z3.simplify(elt.t).eq(z3.simplify(NORMPATH(FNAME(FINFO(j))))) and \
                z3.simplify(cond).eq(z3.simplify(z3.Not(ISDIR(FINFO(j))))):
            return [(st, VExt("PathCounts", COUNTER7))]
    return ex.havoc_call(st, "collections.Counter", args, node)


def m_pathcounts_index(ex, st, obj, args, kwargs, node):
    return m_pathcounts_get(ex, st, obj, args, kwargs, node)


def tar_members_seq(o):
    return VSeq(TN(o.t), lambda i: VExt("TarInfo", TMEM(o.t, i)), "TarInfo", tag=("tarmembers", o.t))


def install_members(reg):
    reg.ext_models[("new", "collections.Counter")] = new_counter
    reg.method_models[("seq", "startswith")] = m_seq_startswith
    reg.method_models[("seq", "copy")] = lambda ex, st, obj, args, kwargs, node: ([(st, obj)] if not args and not kwargs and not obj.is_bytes
                                                                                  else ex.havoc_call(st, "seq.copy", args, node))
    reg.method_models[("PathCounts", "get")] = m_pathcounts_get
    reg.ext_models["os.path.normpath"] = str_fn("os.path.normpath", NORMPATH)
    reg.ext_models["str.split"] = m_str_split
    reg.method_models[("Stream7z", "seek")] = m_stream_seek
    reg.ext_models[("const", "os.SEEK_END")] = VInt(2)
    common.install_clock(reg)
    reg.module_consts[(ARCH, "_config")] = VExt("ArchiveConfig")
    reg.attr_models[("ArchiveConfig", "max_memory_size")] = lambda ex, st, o: VInt(MAXMEM)
    reg.ext_models["os.path.basename"] = str_fn("os.path.basename", BASENAME)
    reg.ext_models["posixpath.basename"] = str_fn("posixpath.basename", BASENAME)
    reg.ext_models["posixpath.join"] = m_posix_join
    reg.ext_models["os.path.join"] = m_posix_join
    reg.ext_models["io.BytesIO"] = lambda ex, st, args, kwargs, node: (
        [(st, VExt("MemberIO", MEMIO(args[0].t)))] if args and isinstance(args[0], VExt) and args[0].sort == "Blob"
        else ex.havoc_call(st, "io.BytesIO", args, node))
    # ---- zipfile (ASSUMED view)
    def new_zip(ex, st, args, kwargs, node):
        bad = st.fork()
        ex.exc_any(bad, "zipfile.ZipFile()")
        zf = VExt("ZipFile")
        st.assume(ZN(zf.t) >= 0)
        st.ghost["zip_source"] = args[0] if args else None
        st.ghost["zip_objects"] = st.ghost.get("zip_objects", ()) + (zf.t,)
        return [(st, zf)]
    reg.ext_models[("new", "zipfile.ZipFile")] = new_zip
    reg.ext_models[("with", "ZipFile")] = with_passthrough
    zip_infos = lambda o: VSeq(ZN(o.t), lambda i: VExt("ZipInfo", ZINFO(o.t, i)), "ZipInfo", tag=("zipinfos", o.t))      # noqa: E731
    reg.method_models[("ZipFile", "infolist")] = lambda ex, st, o, a, k, n: [(st, zip_infos(o))]
    reg.attr_models[("ZipFile", "filelist")] = lambda ex, st, o: zip_infos(o)          # the list infolist() returns (ASSUMED, zipfile source)
    reg.attr_models[("ZipInfo", "is_dir")] = lambda ex, st, o: VFunc("bound", o, "is_dir")
    reg.method_models[("ZipInfo", "is_dir")] = lambda ex, st, o, a, k, n: [(st, VBool(ZISDIR(o.t)))]
    reg.attr_models[("ZipInfo", "flag_bits")] = lambda ex, st, o: VInt(ZFLAGS(o.t))
    reg.attr_models[("ZipInfo", "filename")] = lambda ex, st, o: VStr(ZNAME(o.t))
    reg.attr_models[("ZipInfo", "file_size")] = lambda ex, st, o: VInt(ZSIZE(o.t))

    def zip_read(ex, st, obj, args, kwargs, node):
        """zf.read(info): ASSUMED to return the member's bytes, or to raise RuntimeError (encrypted member)."""
        bad = st.fork()
        bad.ghost["zip_read_refused"] = True
        ex.raise_in(bad, ex.mk_exc("RuntimeError"))
        a = args[0]
        if isinstance(a, VExt) and a.sort == "ZipInfo":
            return [(st, VExt("Blob", ZREAD(obj.t, a.t)))]
        return [(st, VExt("Blob"))]
    reg.method_models[("ZipFile", "read")] = zip_read
    # ---- tarfile (ASSUMED view)
    def tar_open(ex, st, args, kwargs, node):
        ex.exc_any(st.fork(), "tarfile.open()")
        tf = VExt("TarFile")
        st.assume(TN(tf.t) >= 0)
        st.ghost["tar_open"] = (kwargs.get("fileobj"), kwargs.get("mode"))
        return [(st, tf)]
    reg.ext_models["tarfile.open"] = tar_open
    reg.ext_models[("with", "TarFile")] = with_passthrough

    def tar_getmembers(ex, st, o, a, k, n):
        ex.exc_any(st.fork(), "TarFile.getmembers()")
        return [(st, tar_members_seq(o))]
    reg.method_models[("TarFile", "getmembers")] = tar_getmembers
    reg.attr_models[("TarInfo", "isreg")] = lambda ex, st, o: VFunc("bound", o, "isreg")
    reg.method_models[("TarInfo", "isreg")] = lambda ex, st, o, a, k, n: [(st, VBool(TISREG(o.t)))]
    reg.attr_models[("TarInfo", "name")] = lambda ex, st, o: VStr(TNAME(o.t))
    reg.attr_models[("TarInfo", "size")] = lambda ex, st, o: VInt(TSIZE(o.t))

    def tar_extractfile(ex, st, obj, args, kwargs, node):
        ex.exc_any(st.fork(), "TarFile.extractfile()")
        m = args[0]
        if not (isinstance(m, VExt) and m.sort == "TarInfo"):
            return [(st, VUnk("extractfile"))]
        none = st.fork().assume(z3.Not(THASFILE(obj.t, m.t)))
        st.assume(THASFILE(obj.t, m.t))
        f = VExt("TarMemberFile")
        st.ghost[("tarmember", f.t.get_id())] = (obj.t, m.t)
        return [(none, NONE), (st, f)]
    reg.method_models[("TarFile", "extractfile")] = tar_extractfile

    def tarmember_read(ex, st, obj, args, kwargs, node):
        ex.exc_any(st.fork(), "extractfile().read()")
        tm = st.ghost.get(("tarmember", obj.t.get_id()))
        return [(st, VExt("Blob", TREAD(*tm)) if tm else VExt("Blob"))]
    reg.method_models[("TarMemberFile", "read")] = tarmember_read
    # ---- SevenZipFile / temp dir / files (ASSUMED views)
    def new_7z(ex, st, args, kwargs, node):
        ex.exc_any(st.fork(), "SevenZipFile()")
        z = VExt("SevenZipFile")
        st.ghost["szf_source"] = args[0] if args else None
        return [(st, z)]
    reg.ext_models[("new", "SevenZipFile")] = new_7z
    reg.ext_models[("new", "sharepoint2text.parsing.extractors.util.sevenzip.SevenZipFile")] = new_7z
    reg.ext_models[("with", "SevenZipFile")] = with_passthrough

    def szf_needs_password(ex, st, o, a, k, n):
        ex.exc_any(st.fork(), "SevenZipFile.needs_password()")
        return [(st, VBool(z3.Bool(fresh_name("needs_password"))))]
    reg.method_models[("SevenZipFile", "needs_password")] = szf_needs_password

    def szf_list(ex, st, o, a, k, n):
        ex.exc_any(st.fork(), "SevenZipFile.list()")
        st.assume(N7 >= 0)
        return [(st, VSeq(N7, lambda i: VExt("FileInfo", FINFO(i)), "FileInfo"))]
    reg.method_models[("SevenZipFile", "list")] = szf_list

    def szf_extractall(ex, st, o, a, k, n):
        if len(a) + len(k) != 1 or (k and "path" not in k):
            # the model is extractall(path) = every member written below path; any further argument changes what is written
            ex.unsupported(n, "SevenZipFile.extractall with arguments other than the target path")
        ex.exc_any(st.fork(), "SevenZipFile.extractall()")
        st.ghost["extractall"] = events(st, "extractall") + ((k.get("path", a[0] if a else None)),)
        return [(st, NONE)]
    reg.method_models[("SevenZipFile", "extractall")] = szf_extractall

    def tempdir(ex, st, args, kwargs, node):
        ex.exc_any(st.fork(), "tempfile.TemporaryDirectory()")
        return [(st, VExt("TempDir"))]
    reg.ext_models["tempfile.TemporaryDirectory"] = tempdir
    reg.ext_models[("new", "tempfile.TemporaryDirectory")] = tempdir

    def with_tempdir(ex, st, cm, phase):
        if phase == "enter":
            t = VStr(z3.String(fresh_name("temp_dir")))
            st.ghost["temp_dir"] = t
            return [(st, t)]
    reg.ext_models[("with", "TempDir")] = with_tempdir

    def os_exists(ex, st, args, kwargs, node):
        ex.exc_any(st.fork(), "os.path.exists")
        return [(st, VBool(EXISTS(args[0].t)) if isinstance(args[0], VStr) else VBool(z3.Bool(fresh_name("exists"))))]
    reg.ext_models["os.path.exists"] = os_exists
    reg.ext_models[("with", "PyFile")] = with_passthrough

    def pyfile_read(ex, st, obj, args, kwargs, node):
        ex.exc_any(st.fork(), "file.read()")
        path, mode = st.ghost.get(("pyfile", obj.t.get_id()), (None, None))
        if isinstance(path, VStr) and isinstance(mode, VStr) and mode.const() == "rb" and not args:
            return [(st, VExt("Blob", FSREAD(path.t)))]
        return [(st, VExt("Blob"))]
    reg.method_models[("PyFile", "read")] = pyfile_read


def item_fields(ex):
    """field names of the work items of this module: those of its one 3-field named-tuple class, None = plain tuples"""
    cands = [f for f in (ex._namedtuple_fields(c) for c in list(ex.module.classes) + list(ex.module.assigns)) if f is not None and len(f) == 3] \
        if hasattr(ex, "_namedtuple_fields") else []
    return [f for f, _d in cands[0]] if len(cands) == 1 else None


def same_form(ex, v):
    """the value a selection loop appended has the form every consumer of the work list is verified against (work_item):
    a plain tuple, or an instance of the module's named-tuple class -- a plain tuple has no named fields, and vice versa"""
    f = item_fields(ex)
    return (isinstance(v, VNamed) and list(v.fields) == f) if f else not isinstance(v, VNamed)


def work_item(ex, items, fields=None):
    """a work item as the code builds it: a plain 3-tuple, or an instance of the module's 3-field NamedTuple when the selection
    loop appended such instances (recorded from the append event) / when the module defines exactly one"""
    if fields is None:
        fields = item_fields(ex)
    return VNamed(items, fields) if fields else VTuple(items)


def p_worklist(prefix, first_sort):
    """an arbitrary list of (handle, filename, basename) work items"""
    n = z3.Int(f"{prefix}_len")
    h = z3.Function(f"{prefix}_item", I, ext_sort(first_sort))
    fn = z3.Function(f"{prefix}_filename", I, S)
    bn = z3.Function(f"{prefix}_basename", I, S)
    return Maker(lambda ex, st, name: [(n >= 0, VSeq(n, lambda i: work_item(ex, [VExt(first_sort, h(i)), VStr(fn(i)), VStr(bn(i))]), "tuple"))],
                 desc="list[(handle, filename, basename)]"), (n, h, fn, bn)


def sel_axiom(SEL, RANK, keep, n):
    """SEL enumerates the kept indices in increasing order: SEL(RANK(a)) = a for every kept a (definition)."""
    a = z3.Int("a!sel")
    return z3.ForAll([a], z3.Implies(z3.And(a >= 0, a < n, keep(a)), SEL(RANK(a)) == a), patterns=[RANK(a)])


def member_contracts(reg_models=None):
    out = []
    reg_models = reg_models if reg_models is not None else {}
    arch = loader.module(ARCH)
    max_entry = eval(compile(ast.Expression(arch.assigns["MAX_ARCHIVE_FILE_SIZE"]), "x", "eval"), {})

    # ---- assumed helpers (proved elsewhere)
    # ---- the skip rule itself ("supported visible members"): hidden, macOS resource forks, unsupported types, NESTED ARCHIVES = the
    # base name ENDS (case-insensitively) in an archive extension.  Verified here; the member loops use it through the uninterpreted
    # SKIP (second registration below, the one call sites see).
    NESTED = (".zip", ".tar", ".tar.gz", ".tgz", ".tar.bz2", ".tbz2", ".tar.xz", ".txz", ".7z")
    SUPB = z3.Function("is_supported_file_cached", S, B)
    LOWERF = z3.Function("str_lower", S, S)
    reg_models["str.lower"] = lambda ex, st, args, kwargs, node: [(st, VStr(LOWERF(args[0].t)))]

    def skip_spec(c):
        f, b = c.args["filename"].t, c.args["basename"].t
        return VBool(z3.Or([z3.PrefixOf(z3.StringVal("."), b), z3.PrefixOf(z3.StringVal("__MACOSX/"), f), z3.Not(SUPB(b))] +
                           [z3.SuffixOf(z3.StringVal(e), LOWERF(b)) for e in NESTED]))

    out.append(FnContract(target=f"{ARCH}::_is_supported_file_cached", assumed=True, params=[("filename", p_str())],
                          returns=lambda c: VBool(SUPB(c.args["filename"].t)), note="lru_cache wrapper of router.is_supported_file (C07)"))
    out.append(FnContract(target=f"{ARCH}::_should_skip_file", params=[("filename", p_str()), ("basename", p_str())],
                          returns=skip_spec, raises=[],
                          note="skip <=> hidden | __MACOSX/ | unsupported | base name ends (lower-cased) in a nested-archive extension"))
    out.append(FnContract(target=f"{ARCH}::_should_skip_file", assumed=True, params=[("filename", p_str()), ("basename", p_str())],
                          returns=lambda c: VBool(SKIP(c.args["filename"].t, c.args["basename"].t)),
                          note="hidden / unsupported / nested-archive members (definition proved by the C09 pack)"))
    out.append(FnContract(target=f"{ARCH}::_get_file_extractor_cached", assumed=True, params=[("filename", p_str())],
                          returns=lambda c: VExt("Extractor", EXTR(c.args["filename"].t)),
                          raises=[Raises("Exception", sub=True, label="no extractor for this name")],
                          note="lru_cache wrapper of router.get_extractor (C07); a function of the base name"))

    # ---- _process_archive_entry: one dispatch, right extractor / bytes / path; everything it yields, in order; raises nothing
    def pe_inv(lc):
        conj = []
        if lc.extra.get("phase") == "preserve":
            ys = new_events(lc, "yields")
            d = events(lc.st, "dispatch")
            ok = z3.BoolVal(False)
            if len(ys) == 1 and len(d) == 1 and isinstance(ys[0], VExt) and ys[0].sort == "Result":
                g = lc.seq.t if isinstance(lc.seq, VExt) else None
                if g is not None:
                    ok = ys[0].t == RES(g, lc.i - 1)
            conj.append(ok)
        if lc.extra.get("phase") == "exit":
            lc.st.ghost["results_exhausted"] = True
        return z3.And(conj + [z3.BoolVal(True)])

    def pe_dispatch_ok(c):
        fn, data, ap, bn = c.args["filename"].t, c.args["file_data"].t, c.args["archive_path"], c.args["basename"].t
        d = events(c.st, "dispatch")
        if len(d) == 0:
            return z3.BoolVal(True)
        if len(d) != 1:
            return z3.BoolVal(False)
        f, args, kw = d[0]
        if not (len(args) == 1 and isinstance(args[0], VExt) and args[0].sort == "MemberIO" and set(kw) == {"path"} and isinstance(kw["path"], VStr)):
            return z3.BoolVal(False)
        return z3.And(f.t == EXTR(bn), args[0].t == MEMIO(data), kw["path"].t == member_path(ap, fn))

    def pe_complete(c):
        """no exception swallowed: the member is dispatched (unless above the entry limit) and its results are exhausted."""
        data = c.args["file_data"].t
        d = events(c.st, "dispatch")
        if c.st.ghost.get("raised", 0):
            return z3.BoolVal(True)
        big = BLEN(data) > max_entry
        if len(d) == 0:
            return big
        if c.st.ghost.get("results_exhausted"):
            return z3.Not(big)
        # `yield from extractor(...)`: the whole result generator of THE dispatch is delegated to
        f, args, kw = d[0]
        whole = [y for y in events(c.st, "yields") if isinstance(y, VExt) and y.sort == "ResultGen"]
        if len(d) == 1 and len(whole) == 1 and len(events(c.st, "yields")) == 1 and len(args) == 1 and isinstance(kw.get("path"), VStr):
            return z3.And(z3.Not(big), whole[0].t == RUN(f.t, args[0].t, kw["path"].t))
        return z3.BoolVal(False)

    out.append(FnContract(
        target=f"{ARCH}::_process_archive_entry",
        params=[("filename", p_str()), ("file_data", p_ext("Blob")), ("archive_path", p_opt(p_str())), ("basename", p_str())],
        generator=True, raises=[],
        ensures=[("one-dispatch-extractor-by-basename-member-bytes-archive!/member-path", internal(pe_dispatch_ok)),
                 ("member-dispatched-and-all-its-results-yielded-unless-it-fails", internal(pe_complete))],
        loops=role(lambda ex, st, it, node: isinstance(it, VExt) and it.sort == "ResultGen", "yields-the-extractor-results-in-order", pe_inv),
        result_maker=lambda ex, st, ctx: VExt("EntryGen", entry_term(ctx.args["filename"].t, ctx.args["file_data"].t,
                                                                     ctx.args["archive_path"], ctx.args["basename"].t)),
        note="a member failure is swallowed here (affects only itself); results = extractor(BytesIO(bytes), path='archive!/member')"))

    # ---- ZIP
    def zip_zf(lc):
        tag = getattr(lc.seq, "tag", None)
        if isinstance(tag, tuple) and len(tag) == 2 and tag[0] in ("zipinfos", "worklist"):
            return tag[1]
        raise ops.Unsupported("zip loop: the iterated sequence does not come from a ZipFile")


    def zip_sel_inv(lc):
        zf = zip_zf(lc)
        i = lc.i
        conj = []
        wl = worklist_of(cur_loop(lc))
        ref = lc.entry.lookup(wl).ref
        if lc.extra.get("phase") == "preserve":
            e = ZINFO(zf, i - 1)
            new = [v for (r, v) in new_events(lc, "appends") if r == ref]
            ok = z3.BoolVal(False)
            if len(new) == 0:
                ok = z3.Not(zkeep(zf, i - 1))
            elif len(new) == 1 and isinstance(new[0], VTuple) and len(new[0].items) == 3:
                h, fn, bn = new[0].items
                if isinstance(h, VExt) and h.sort == "ZipInfo" and isinstance(fn, VStr) and isinstance(bn, VStr) and same_form(lc.ex, new[0]):
                    ok = z3.And(zkeep(zf, i - 1), h.t == e, fn.t == ZNAME(e), bn.t == BASENAME(ZNAME(e)))
            conj.append(ok)
        if lc.extra.get("phase") == "exit":
            # PY-LIST-ORDER: the list is the sequence of appended values in loop order = the kept members, in container order
            n = ZKEPT(zf, ZN(zf))
            lc.st.assume(sel_axiom(lambda j: ZSEL(zf, j), lambda a: ZKEPT(zf, a), lambda a: zkeep(zf, a), ZN(zf)))
            ex_ = lc.ex
            lc.st.bind(wl, VSeq(n, lambda j: work_item(ex_, [VExt("ZipInfo", ZINFO(zf, ZSEL(zf, j))), VStr(ZNAME(ZINFO(zf, ZSEL(zf, j)))),
                                                             VStr(BASENAME(ZNAME(ZINFO(zf, ZSEL(zf, j)))))]), "tuple", tag=("worklist", zf)))
        return z3.And(conj + [z3.BoolVal(True)])

    def zip_disp_inv(lc):
        zf = zip_zf(lc)
        conj = []
        if lc.extra.get("phase") == "preserve":
            j = lc.i - 1
            e = ZINFO(zf, ZSEL(zf, j))
            ap = top(lc, "archive_path")
            ys = new_events(lc, "yields")
            ok = z3.BoolVal(False)
            if len(ys) == 0:
                ok = ZSIZE(e) > MAXMEM
            elif len(ys) == 1 and isinstance(ys[0], VExt) and ys[0].sort == "EntryGen":
                ok = z3.And(z3.Not(ZSIZE(e) > MAXMEM),
                            ys[0].t == entry_term(ZNAME(e), ZREAD(zf, e), ap, BASENAME(ZNAME(e))))
            conj.append(ok)
        return z3.And(conj + [z3.BoolVal(True)])

    ENC = "ExtractionFileEncryptedError"

    def zip_encrypted_when(c):
        """APPNOTE 4.4.4: general purpose bit 0 set = the member is encrypted (strong encryption, bit 6, implies bit 0); every
        other bit (deflate option bits 1-2, data descriptor 3, UTF-8 names 11, ...) says nothing about readability.  The whole
        archive may be refused as encrypted only if some listed entry carries bit 0, or if zipfile itself refuses a member at
        read time (RuntimeError: the ASSUMED behaviour of ZipFile.read on an encrypted member)."""
        if c.st.ghost.get("zip_read_refused"):
            return z3.BoolVal(True)
        zfs = c.st.ghost.get("zip_objects", ())
        if not zfs:
            return z3.BoolVal(False)
        j = z3.Int("j!enc")
        return z3.Or([z3.Exists([j], z3.And(j >= 0, j < ZN(zf), z3.Extract(0, 0, ZFLAGS(ZINFO(zf, j))) == 1)) for zf in zfs])

    out.append(FnContract(
        target=f"{ARCH}::_extract_from_zip_optimized",
        params=[("file_like", p_ext("Stream7z")), ("archive_path", p_opt(p_str()))],
        generator=True,
        ensures=[completes("selects-the-visible-supported-members-in-infolist-order", "each-selected-member-dispatched-with-its-own-bytes-name-basename"), ("container-opened-on-the-given-bytes", internal(lambda c: z3.BoolVal(c.st.ghost.get("zip_source") is c.args["file_like"])))],
        raises=[Raises(ENC, label="an entry is encrypted", when=zip_encrypted_when), Raises("Exception", sub=True, label="the container could not be opened",
                                                                  when=lambda c: z3.BoolVal(c.exc is not None and c.exc.attrs.get("site") == "zipfile.ZipFile()")),
                Raises("ExtractionFailedError", label="BadZipFile from the constructor")],
        loops=merged(role(is_seq("ZipInfo"), "selects-the-visible-supported-members-in-infolist-order", zip_sel_inv),
                   role(is_seq(tag="worklist"), "each-selected-member-dispatched-with-its-own-bytes-name-basename", zip_disp_inv)),
        frame=lambda ex, st, ctx: st.ghost.__setitem__("routes", events(st, "routes") + (("zip", ctx.args["file_like"], ctx.args["archive_path"], None),)),
        result_maker=lambda ex, st, ctx: VExt("MemberGen"),
        note="members: non-directory, not skipped, <= max_memory_size; order = zf.infolist(); bytes = zf.read(info)"))

    # ---- TAR
    def tar_tf(lc):
        tag = getattr(lc.seq, "tag", None)
        if isinstance(tag, tuple) and len(tag) == 2 and tag[0] == "tarmembers":
            return tag[1]
        raise ops.Unsupported("tar loop: the iterated sequence does not come from a TarFile")

    def tar_inv(lc):
        tf = tar_tf(lc)
        conj = []
        if lc.extra.get("phase") == "preserve":
            m = TMEM(tf, lc.i - 1)
            ap = top(lc, "archive_path")
            keep = z3.And(TISREG(m), z3.Not(SKIP(TNAME(m), BASENAME(TNAME(m)))), z3.Not(TSIZE(m) > MAXMEM), THASFILE(tf, m))
            ys = new_events(lc, "yields")
            failed = lc.st.ghost.get("raised", 0) > lc.entry.ghost.get("raised", 0)
            ok = z3.BoolVal(False)
            if len(ys) == 0:
                ok = z3.BoolVal(True) if failed else z3.Not(keep)     # a member whose read failed affects only itself
            elif len(ys) == 1 and isinstance(ys[0], VExt) and ys[0].sort == "EntryGen":
                ok = z3.And(keep, ys[0].t == entry_term(TNAME(m), TREAD(tf, m), ap, BASENAME(TNAME(m))))
            conj.append(ok)
        return z3.And(conj + [z3.BoolVal(True)])

    def tar_opened_ok(c):
        t = c.st.ghost.get("tar_open")
        if t is None:
            return z3.BoolVal(False)
        fo, mode = t
        return z3.And(z3.BoolVal(fo is c.args["file_like"]), z3.BoolVal(isinstance(mode, VStr)) if not isinstance(mode, VStr)
                      else mode.t == c.args["mode"].t)

    out.append(FnContract(
        target=f"{ARCH}::_extract_from_tar_optimized",
        params=[("file_like", p_ext("Stream7z")), ("archive_path", p_opt(p_str())), ("mode", p_str())],
        generator=True,
        ensures=[completes("each-visible-supported-regular-member-dispatched-in-getmembers-order"), ("container-opened-on-the-given-bytes-with-the-given-mode", internal(tar_opened_ok))],
        raises=[Raises("Exception", sub=True, label="the container could not be opened / listed",
                       when=lambda c: z3.BoolVal(c.exc is not None and c.exc.attrs.get("site") in ("tarfile.open()", "TarFile.getmembers()"))),
                Raises("ExtractionFailedError", label="TarError")],
        loops=role(is_seq("TarInfo"), "each-visible-supported-regular-member-dispatched-in-getmembers-order", tar_inv),
        frame=lambda ex, st, ctx: st.ghost.__setitem__("routes", events(st, "routes") + (("tar", ctx.args["file_like"], ctx.args["archive_path"], ctx.args.get("mode")),)),
        result_maker=lambda ex, st, ctx: VExt("MemberGen"),
        note="members: regular, not skipped, <= max_memory_size; order = tf.getmembers(); bytes = tf.extractfile(m).read(); "
             "a failing member read is skipped (affects only itself)"))

    # ---- 7z: sequential processing of the extracted files
    wl_maker, (WN, WH, WFN, WBN) = p_worklist("work", "FileInfo")

    def seq7_inv(lc):
        conj = []
        if lc.extra.get("phase") == "preserve":
            j = lc.i - 1
            temp = top(lc, "temp_dir").t
            ap = top(lc, "archive_path")
            pth = SJ(temp, WFN(j))
            ys = new_events(lc, "yields")
            failed = lc.st.ghost.get("raised", 0) > lc.entry.ghost.get("raised", 0)
            ok = z3.BoolVal(False)
            if len(ys) == 0:
                ok = z3.BoolVal(True) if failed else z3.Not(EXISTS(pth))
            elif len(ys) == 1 and isinstance(ys[0], VExt) and ys[0].sort == "EntryGen":
                ok = z3.And(EXISTS(pth), ys[0].t == entry_term(WFN(j), FSREAD(pth), ap, WBN(j)))
            conj.append(ok)
        return z3.And(conj + [z3.BoolVal(True)])

    def seq7_result(ex, st, ctx):
        st.ghost["seq7"] = events(st, "seq7") + ((ctx.args["files_to_process"], ctx.args["temp_dir"], ctx.args["archive_path"]),)
        return VExt("MemberGen")

    out.append(FnContract(
        target=f"{ARCH}::_process_7z_files_sequential",
        params=[("files_to_process", wl_maker), ("temp_dir", p_str()), ("archive_path", p_opt(p_str()))],
        generator=True, raises=[],
        ensures=[completes("each-work-item-dispatched-with-the-bytes-extracted-under-its-own-name")],
        loops=role(is_seq("tuple"), "each-work-item-dispatched-with-the-bytes-extracted-under-its-own-name", seq7_inv),
        result_maker=seq7_result,
        note="work item (info, name, base) -> entry(name, content of safe_join(temp_dir, name), archive_path, base); "
             "a missing / unreadable file affects only itself"))

    # ---- 7z: selection + extraction into a private temp dir + sequential processing

    def distinct_paths():
        """writers' invariant (assumption 'members are distinct names'): no two non-directory entries resolve to one path"""
        t = z3.Int("t!dp")
        return z3.ForAll([t], z3.Implies(z3.And(t >= 0, t < N7, z3.Not(ISDIR(FINFO(t)))), PCOUNT(NORMPATH(FNAME(FINFO(t)))) == 1),
                         patterns=[FINFO(t)])

    def count7_inv(lc):
        """a pass that counts the entries per normalised path into a dict: by the meaning of counting (PY semantics of
        d[k] = d.get(k, 0) + 1 over the whole list) the dict is the occurrence count PCOUNT; introduced at the loop exit"""
        if lc.extra.get("phase") == "exit":
            loop = cur_loop(lc)
            names = {n.value.id for n in ast.walk(loop) if isinstance(n, ast.Subscript) and isinstance(n.ctx, ast.Store) and isinstance(n.value, ast.Name)}
            if len(names) != 1:
                raise ops.Unsupported(f"7z path-count pass: expected one dict being filled, found {sorted(names)}")
            lc.st.bind(names.pop(), VExt("PathCounts"))
        return z3.BoolVal(True)

    def sel7_inv(lc):
        i = lc.i
        conj = []
        wl = worklist_of(cur_loop(lc))
        ref = lc.entry.lookup(wl).ref
        direct = not (isinstance(lc.seq.tag, tuple) and lc.seq.tag and lc.seq.tag[0] == "filtered")      # iterating szf.list() itself
        if not direct and lc.extra.get("phase") == "init":
            # a pre-filtered view is what the selection runs over: the filter must not drop a member that has to be selected
            # (the view is the subsequence of szf.list() whose elements satisfy the filter condition, PY-LIST-ORDER)
            base, jv, c0 = lc.seq.tag[2:5] if len(lc.seq.tag) == 5 else (None, None, None)
            a = z3.Int("a!view")
            be = base.elem(a) if isinstance(base, VSeq) else None
            if not (isinstance(be, VExt) and be.sort == "FileInfo" and z3.simplify(be.t).eq(FINFO(a)) and z3.simplify(base.length).eq(N7)):
                raise ops.Unsupported("7z selection loop: pre-filtered view of something that is not szf.list() itself")
            conj.append(z3.ForAll([a], z3.Implies(z3.And(a >= 0, a < N7, keep7(a)), z3.substitute(c0, (jv, a))), patterns=[FINFO(a)]))
        if lc.extra.get("phase") == "preserve":
            ev = lc.seq.elem(i - 1)                      # the entry this iteration looked at (also through a pre-filtered view)
            if not (isinstance(ev, VExt) and ev.sort == "FileInfo"):
                raise ops.Unsupported("7z selection loop: not iterating FileInfo entries")
            e = ev.t
            new = [v for (r, v) in new_events(lc, "appends") if r == ref]
            ok = z3.BoolVal(False)
            if len(new) == 0:
                ok = z3.Not(keep7e(e))
            elif len(new) == 1 and isinstance(new[0], VTuple) and len(new[0].items) == 3:
                h, fn, bn = new[0].items
                if isinstance(h, VExt) and h.sort == "FileInfo" and isinstance(fn, VStr) and isinstance(bn, VStr) and same_form(lc.ex, new[0]):
                    ok = z3.And(keep7e(e), h.t == e, fn.t == FNAME(e), bn.t == BASENAME(FNAME(e)))
            conj.append(ok)
        if lc.extra.get("phase") == "exit":
            ex_ = lc.ex
            if direct:
                lc.st.assume(sel_axiom(SEL7, KEPT7, keep7, N7))
                sel, cnt, src = SEL7, KEPT7(N7), (lambda k: FINFO(k))
            else:
                # selection over an already filtered view: the kept elements of THAT view, in its order (PY-LIST-ORDER)
                sel, cnt = z3.Function(fresh_name("selected_of_view"), I, I), z3.Int(fresh_name("selected_count"))
                seq = lc.seq
                lc.st.assume(cnt >= 0)
                src = (lambda k: seq.elem(k).t)
            v = VSeq(cnt, lambda j: work_item(ex_, [VExt("FileInfo", src(sel(j))), VStr(FNAME(src(sel(j)))),
                                                    VStr(BASENAME(FNAME(src(sel(j)))))]), "tuple", tag=("worklist7",))
            lc.st.bind(wl, v)
            lc.st.ghost["worklist7"] = v
        return z3.And(conj + [z3.BoolVal(True)])

    def z7_post(c):
        """on normal return: the archive was extracted once into the private temp dir, and exactly the selected members
        (in list() order) were handed to the sequential processor together with that directory and the archive path."""
        g = c.st.ghost
        ex_, sq, ys = events(c.st, "extractall"), events(c.st, "seq7"), events(c.st, "yields")
        temp = g.get("temp_dir")
        if not (len(ex_) == 1 and len(sq) == 1 and len(ys) == 1 and temp is not None):
            return z3.BoolVal(False)
        wl, td, ap = sq[0]
        same_ap = (ap is c.args["archive_path"]) or (isinstance(ap, VStr) and isinstance(c.args["archive_path"], VStr) and ap.t.eq(c.args["archive_path"].t))
        return z3.And(z3.BoolVal(wl is g.get("worklist7")), z3.BoolVal(isinstance(ex_[0], VStr) and isinstance(td, VStr)),
                      ex_[0].t == temp.t if isinstance(ex_[0], VStr) else z3.BoolVal(False),
                      td.t == temp.t if isinstance(td, VStr) else z3.BoolVal(False), z3.BoolVal(bool(same_ap)),
                      z3.BoolVal(g.get("szf_source") is c.args["file_like"]))

    out.append(FnContract(
        target=f"{ARCH}::_extract_from_7z_optimized",
        params=[("file_like", p_ext("Stream7z")), ("archive_path", p_opt(p_str()))],
        generator=True,
        ensures=[completes("selects-the-visible-supported-members-in-list-order"), ("selected-members-extracted-to-a-private-dir-and-processed-in-list-order", internal(z7_post))],
        raises=[Raises("ExtractionError", sub=True, label="too large / encrypted / extraction failed / invalid archive"),
                Raises("Exception", sub=True, label="container / temp dir could not be opened",
                       when=lambda c: z3.BoolVal(c.exc is not None and "site" in c.exc.attrs))],
        hyps=lambda c: distinct_paths(),          # input assumption (distinct member paths), not a caller obligation
        loops=merged(role(both(is_seq("FileInfo"), body_calls("append")), "selects-the-visible-supported-members-in-list-order", sel7_inv),
                     role(both(is_seq("FileInfo"), lambda ex, st, it, node: not body_calls("append")(ex, st, it, node)),
                          "counts-the-entries-per-normalised-path", count7_inv)),
        frame=lambda ex, st, ctx: st.ghost.__setitem__("routes", events(st, "routes") + (("7z", ctx.args["file_like"], ctx.args["archive_path"], None),)),
        result_maker=lambda ex, st, ctx: VExt("MemberGen"),
        note="members: non-directory, not skipped, <= max_memory_size; order = szf.list()"))
    return out


# ====================================================== _build_file_list (b) ==
# Header view (FilesInfo + SubStreamsInfo), index functions of the file number / folder number:
ES = z3.Function("empty_stream", I, B)             # kEmptyStream bit of file i
EF = z3.Function("empty_file", I, B)               # kEmptyFile bit (meaningful when ES): 1 = zero-length FILE, 0 = directory
NAME = z3.Function("name_of_file", I, S)
ATTR = z3.Function("attributes_of_file", I, z3.BitVecSort(32))
FSZ = z3.Function("substream_size_flat", I, I)     # sizes of the sub-streams, folder after folder (SubStreamsInfo)
NFS = z3.Int("num_substream_sizes")
NS = z3.Function("folder_num_streams", Folder, I)
MF = z3.Int("num_folders_b")
NFL = z3.Int("num_files_b")


def NSK(k):
    return NS(FOLD(k))


def STREAM(i):
    return z3.Not(ES(i))


# primitive-recursive spec functions, uninterpreted + defining equations instantiated where needed (see NUMPOS: automatic
# unfolding of RecFunctions over symbolic counts timed out under load)
RANK = z3.Function("streams_before_file", I, I)              # number of stream-bearing files among files [0, i)
CUM = z3.Function("streams_before_folder", I, I)             # sum of num_streams of folders [0, k)


def rank_def(i):
    return z3.And(RANK(z3.IntVal(0)) == 0, z3.Implies(i >= 0, RANK(i + 1) == RANK(i) + z3.If(STREAM(i), 1, 0)))


def cum_def(k):
    return z3.And(CUM(z3.IntVal(0)) == 0, z3.Implies(k >= 0, CUM(k + 1) == CUM(k) + NSK(k)))


class VHandle(VExt):
    """an element of a list built earlier in the same function (PY-LIST-ORDER): carries its index"""
    __slots__ = ("idx", "fields")

    def __init__(self, sort, idx, fields):
        super().__init__(sort, z3.Const(fresh_name(sort), ext_sort(sort)))
        self.idx, self.fields = idx, fields


def subst_index(term, i_const, j):
    """term[i := j]; the term may mention no other loop-local (fresh) constant"""
    stack, seen = [term], set()
    while stack:
        x = stack.pop()
        if x.get_id() in seen:
            continue
        seen.add(x.get_id())
        if z3.is_const(x) and x.decl().kind() == z3.Z3_OP_UNINTERPRETED and "!" in x.decl().name() and not x.eq(i_const):
            raise ops.Unsupported(f"captured field value depends on a loop-local value {x.decl().name()}")
        stack.extend(x.children())
    return z3.substitute(term, (i_const, j))


def build_contracts(reg):
    out = []

    def m_setdefault(ex, st, obj, args, kwargs, node):
        h = VExt("FolderList")
        st.ghost[("folderlist", h.t.get_id())] = args[0]
        return [(st, h)]

    def m_fl_append(ex, st, obj, args, kwargs, node):
        k = st.ghost.get(("folderlist", obj.t.get_id()))
        st.ghost["maps"] = events(st, "maps") + ((k, args[0]),)
        return [(st, NONE)]

    reg.method_models[("FolderMap", "setdefault")] = m_setdefault
    reg.method_models[("FolderList", "append")] = m_fl_append
    reg.attr_models[("Folder", "num_streams")] = lambda ex, st, o: VInt(NS(o.t))
    reg.attr_models[("BuiltFile", "is_directory")] = lambda ex, st, o: o.fields["is_directory"]

    def set_built(ex, st, base, attr, v, node):
        st.ghost["setattrs"] = events(st, "setattrs") + ((base.idx, attr, v),)
        return [st]
    reg.ext_models[("setattr", "BuiltFile")] = set_built

    ZLB = zero_length_worklist()

    def b_self():
        def empty(ex, st, name):
            return VRef(st.alloc(HeapObj("list", [], fresh=False), ex.refs))
        extra = {ZLB: Maker(empty, desc="[] (as left by __init__)")} if ZLB else {}
        return p_obj("SevenZipReader", dict(extra, **{
            "_file_sizes": p_intseq(FSZ, NFS), "_files": Maker(empty, desc="[] (as left by __init__)"),
            "_folders": Maker(lambda ex, st, name: [(MF >= 0, VSeq(MF, lambda k: VExt("Folder", FOLD(k)), "Folder"))], desc="list[Folder]"),
            "_folder_to_files": p_ext("FolderMap")}))

    ROLES = {
        "self": b_self(), "num_files": p_int(0),
        "empty_streams": Maker(lambda ex, st, name: VSeq(NFL, lambda i: VBool(ES(i)), "bool"), desc="list[bool] (kEmptyStream)"),
        "empty_files": Maker(lambda ex, st, name: VSeq(NFL, lambda i: VBool(EF(i)), "bool"), desc="list[bool] (kEmptyFile, per file)"),
        "names": Maker(lambda ex, st, name: VSeq(NFL, lambda i: VStr(NAME(i)), "str"), desc="list[str]"),
        "attributes": Maker(lambda ex, st, name: VSeq(NFL, lambda i: VInt(ATTR(i)), "int"), desc="list[uint32]"),
    }

    def b_params():
        """parameters by ROLE, read from the real signature (the header vectors the function is given; `empty_files` is optional)"""
        fnode = loader.module(SEVEN).functions.get("SevenZipReader._build_file_list")
        names = [a.arg for a in fnode.args.args] if fnode is not None else ["self", "num_files", "empty_streams", "names", "attributes"]
        return [(n, ROLES.get(n, p_unk())) for n in names]

    def b_requires(c):
        t = z3.Int("t!req")
        n = ops.int_term(c.args["num_files"])
        return z3.And(
            n == NFL, NFL >= 0, NFS >= 0,
            # writers' invariants (7-Zip, py7zr; format description): a directory entry has no stream; every folder
            # holds at least one sub-stream; SubStreamsInfo lists one size per stream-bearing file
            z3.ForAll([t], z3.Implies(z3.And(t >= 0, t < NFL, (ATTR(t) & z3.BitVecVal(0x10, 32)) != 0), z3.And(ES(t), z3.Not(EF(t)))), patterns=[ATTR(t)]),
            z3.ForAll([t], z3.Implies(z3.And(t >= 0, t < NFL, EF(t)), ES(t)), patterns=[EF(t)]),      # kEmptyFile is defined on emptyStream entries only
            z3.ForAll([t], z3.Implies(z3.And(t >= 0, t < MF), NSK(t) >= 1), patterns=[FOLD(t)]),
            RANK(NFL) <= NFS)

    def files_ref(lc):
        return lc.entry.obj(top(lc, "self").ref).data["_files"]

    def size_index_local(lc):
        ints = loop_carried_ints(lc)
        if len(ints) != 1:
            raise ops.Unsupported(f"_build_file_list: expected one running sub-stream index, found {sorted(ints)}")
        return ops.int_term(next(iter(ints.values())))

    cap = {}

    def files_inv(lc):
        i = lc.i
        if lc.extra.get("phase") in ("init", "assume"):
            lc.st.assume(rank_def(i))                    # definition of RANK at 0 and at this index
        conj = [size_index_local(lc) == RANK(i), RANK(i) >= 0]
        if lc.extra.get("phase") == "assume":
            lc.st.assume(rank_mono_at(i + 1, NFL))      # lemma rank-monotone (induction, lemmas()), instantiated at this index
        if lc.extra.get("phase") == "preserve":
            j = i - 1
            fr = files_ref(lc)
            new = [v for (r, v) in new_events(lc, "appends") if isinstance(fr, VRef) and r == fr.ref]
            ok = z3.BoolVal(False)
            if len(new) == 1 and isinstance(new[0], VRef) and lc.st.obj(new[0].ref).cls == "FileInfo":
                d = lc.st.obj(new[0].ref).data
                fn, us, isd, at, fx = d.get("filename"), d.get("uncompressed"), d.get("is_directory"), d.get("attributes"), d.get("folder_index")
                if isinstance(fn, VStr) and isinstance(us, VInt) and isinstance(isd, VBool) and isinstance(at, VInt) and isinstance(fx, VInt):
                    ok = z3.And(fn.t == NAME(j), ops.eq_term(at, VInt(ATTR(j))),
                                ops.int_term(us) == z3.If(STREAM(j), FSZ(RANK(j)), 0),
                                z3.Implies(STREAM(j), z3.Not(isd.t)), ops.int_term(fx) == 0)
                    # recorded finding F25 (separate obligation): per the format, an entry is a directory iff it has no
                    # stream AND is not flagged kEmptyFile
                    lc.ex.add_vc("ensures", "empty-file-is-not-a-directory", lc.st.pc, isd.t == z3.And(ES(j), z3.Not(EF(j))),
                                 note="FileInfo.is_directory must be emptyStream AND NOT emptyFile (7zFormat.txt, FilesInfo)", loc="")
                    if ZLB:
                        # the worklist of zero-length files (what extractall creates): file j is put on it iff emptyStream AND emptyFile
                        zr = lc.entry.obj(top(lc, "self").ref).data[ZLB]
                        zl = [v for (r, v) in new_events(lc, "appends") if isinstance(zr, VRef) and r == zr.ref]
                        zok = z3.BoolVal(False)
                        if len(zl) == 0:
                            zok = z3.Not(z3.And(ES(j), EF(j)))
                        elif len(zl) == 1 and isinstance(zl[0], VInt):
                            zok = z3.And(ES(j), EF(j), ops.int_term(zl[0]) == j)
                        lc.ex.add_vc("ensures", "zero-length-files-are-queued-for-extraction", lc.st.pc, zok, loc="")
                    i_c = i.arg(0) if z3.is_add(i) else None
                    if i_c is None or not z3.is_const(i_c):
                        raise ops.Unsupported("loop index shape")
                    cap.setdefault("isdir", []).append((i_c, isd.t))
            conj.append(ok)
        if lc.extra.get("phase") == "exit":
            # PY-LIST-ORDER: self._files is now [file 0, ..., file N-1] as appended; field values as recorded above
            caps = cap.get("isdir", [])
            if not caps:
                raise ops.Unsupported("_build_file_list: no FileInfo append recorded")
            i_c, t = caps[0]
            forms = [subst_index(tt, ic, z3.Int("j!canon")) for ic, tt in caps]
            if any(not f.eq(forms[0]) for f in forms):
                raise ops.Unsupported("is_directory computed differently on different paths")
            v = VSeq(NFL, lambda j: VHandle("BuiltFile", j, {"is_directory": VBool(subst_index(t, i_c, j))}), "BuiltFile")
            lc.st.wobj(top(lc, "self").ref).data["_files"] = v
        return z3.And(conj)

    def map_inv(lc):
        i = lc.i
        ints = loop_carried_ints(lc)
        zeroed = {t.id for n in ast.walk(cur_loop(lc)) if isinstance(n, ast.Assign) and isinstance(n.value, ast.Constant) and n.value.value == 0
                  for t in n.targets if isinstance(t, ast.Name)} & set(ints)
        if len(ints) != 2 or len(zeroed) != 1:
            raise ops.Unsupported(f"_build_file_list: folder cursor not recognised (loop-carried ints {sorted(ints)}, reset to 0: {sorted(zeroed)})")
        fif = ints[next(iter(zeroed))]                      # position inside the current folder: the one reset to 0
        fidx = next(v for k, v in ints.items() if k not in zeroed)
        k, j = ops.int_term(fidx), ops.int_term(fif)
        r = RANK(i)
        if lc.extra.get("phase") in ("init", "assume"):
            lc.st.assume(z3.And(rank_def(i), cum_def(k)))       # definitions of RANK / CUM at 0, at this file and at the current folder
        conj = [0 <= k, k <= MF,
                z3.Implies(k < MF, z3.And(CUM(k) + j == r, 0 <= j, j < NSK(k))),
                z3.Implies(k == MF, r >= CUM(MF))]
        if lc.extra.get("phase") == "preserve":
            f = i - 1
            rf = RANK(f)
            maps, sets = new_events(lc, "maps"), new_events(lc, "setattrs")
            mapped = z3.And(STREAM(f), rf < CUM(MF))
            ok = z3.BoolVal(False)
            if len(maps) == 0 and len(sets) == 0:
                ok = z3.Not(mapped)
            elif len(maps) == 1 and len(sets) == 1:
                (mk, mi), (si, attr, sv) = maps[0], sets[0]
                if isinstance(mk, VInt) and isinstance(mi, VInt) and isinstance(sv, VInt) and attr == "folder_index":
                    kk = ops.int_term(mk)
                    ok = z3.And(STREAM(f), ops.int_term(mi) == f, si == f, ops.int_term(sv) == kk,
                                0 <= kk, kk < MF, CUM(kk) <= rf, rf < CUM(kk) + NSK(kk))
            conj.append(ok)
        return z3.And(conj)

    out.append(FnContract(
        target=f"{RD}._build_file_list",
        params=b_params(),
        requires=b_requires, raises=[], modifies=("self",),
        ensures=[completes("file-i-gets-its-name-attributes-and-the-size-of-its-sub-stream",
                           "file-with-r-th-stream-goes-to-the-folder-k-with-cum(k)<=r<cum(k+1)")],
        loops=merged(role(both(is_seq("int"), body_calls("FileInfo")), "file-i-gets-its-name-attributes-and-the-size-of-its-sub-stream", files_inv),
                   role(both(is_seq("tuple", "BuiltFile", "int"), lambda ex, st, it, node: not body_calls("FileInfo")(ex, st, it, node)), "file-with-r-th-stream-goes-to-the-folder-k-with-cum(k)<=r<cum(k+1)", map_inv)),
        note="files without a stream are skipped, in header order; the r-th stream-bearing file is sub-stream j = r - cum(k) of the "
             "unique folder k with cum(k) <= r < cum(k) + num_streams(k); position j in _folder_to_files[k] follows from append order"))
    return out


def rank_mono_at(a, b):
    """lemma rank-monotone: 0 <= a <= b  =>  RANK(a) <= RANK(b)   (proved by induction on b in lemmas())"""
    return z3.Implies(z3.And(0 <= a, a <= b), RANK(a) <= RANK(b))


# ==================================================== header parsers (BOUNDED) ==
def p_reader_cases(extra, conds):
    """one reader object, several alternatives distinguished by a condition on the stream at the entry position"""
    base = p_reader(extra)

    def mk(ex, st, name):
        (c0, v), = base.make(ex, st, name)
        s_ = st.obj(v.ref).data["_stream"]
        pos = common.bytesio_pos(st, s_)
        return [(z3.And([c for c in (c0, cond(s_.t, pos)) if c is not None]), v) for cond in conds]
    return Maker(mk, desc=f"SevenZipReader ({len(conds)} bounded cases)")


def p_empty_list():
    return Maker(lambda ex, st, name: VRef(st.alloc(HeapObj("list", [], fresh=False), ex.refs)), desc="[]")


def bits_spec(s, p, n):
    return [z3.Extract(7 - (i % 8), 7 - (i % 8), SB(s, z3.simplify(p + i // 8))) == 1 for i in range(n)]


def digests_spec(s, q, n):
    """7z Digests over n streams at q -> [(cond, position after the section)]"""
    out = [(SB(s, q) != bv(0), q + 1 + 4 * n)]
    bits = bits_spec(s, q + 1, n)
    import itertools as _it
    for assign in _it.product((False, True), repeat=n):
        c = z3.And([SB(s, q) == bv(0)] + [b if a else z3.Not(b) for a, b in zip(assign, bits)])
        out.append((c, q + 1 + (n + 7) // 8 + 4 * sum(assign)))
    return out


def spec_pack_info(s, p):
    """PackInfo ::= 0x06 packPos:NUMBER numPackStreams:NUMBER [0x09 size:NUMBER * n] [0x0A Digests(n)] 0x00   (7zFormat.txt)
    for ANY n -> [(cond, ('none', p) | ('ok', packPos, n, size_at(j) | None, end) | ('bad', end))]
    Digests(n) ::= allDefined:BYTE [BitVector(n) if allDefined == 0] CRC:UINT32 * (number of defined)"""
    cases = [(SB(s, p) != bv(6), ("none", p))]
    first = SB(s, p) == bv(6)
    q1 = p + 1
    pp = NUMV(s, q1)
    q2 = q1 + NUML(s, q1)
    n = z3.BV2Int(NUMV(s, q2), False)
    q3 = q2 + NUML(s, q2)
    t0 = SB(s, q3)
    for has_size in (True, False):
        if has_size:
            c1 = t0 == bv(9)
            size_at = (lambda j, q=q3 + 1: NUMV(s, NUMPOS(s, q, j)))
            qs = NUMPOS(s, q3 + 1, n)
            t1, q4 = SB(s, qs), qs + 1
        else:
            c1, size_at, t1, q4 = t0 != bv(9), None, t0, q3 + 1
        alld = SB(s, q4) != bv(0)
        qc = q4 + 1 + z3.If(alld, 0, (n + 7) / 8) + 4 * DCNT(s, q4 + 1, alld, n)
        for c2, t2, q5 in ((t1 != bv(0x0A), t1, q4), (t1 == bv(0x0A), SB(s, qc), qc + 1)):
            cases.append((z3.And(first, c1, c2, t2 == bv(0)), ("ok", pp, n, size_at, q5)))
            cases.append((z3.And(first, c1, c2, t2 != bv(0)), ("bad", q5)))
    return cases


def numpos_mono_at(s, q, a, b):
    """lemma: 0 <= a <= b => NUMPOS(s, q, a) <= NUMPOS(s, q, b)   (every NUMBER takes >= 1 byte; induction on b in lemmas())"""
    return z3.Implies(z3.And(0 <= a, a <= b), NUMPOS(s, q, a) <= NUMPOS(s, q, b))


def dcnt_mono_at(s, p, ad, a, b):
    """lemma: 0 <= a <= b => 0 <= DCNT(a) <= DCNT(b)"""
    return z3.Implies(z3.And(0 <= a, a <= b), z3.And(0 <= DCNT(s, p, ad, a), DCNT(s, p, ad, a) <= DCNT(s, p, ad, b)))


def parser_contracts():
    out = []
    def S(c):
        return stream_of(c).t

    # ---- _parse_pack_info: ANY number of pack streams (comprehension and digest loop carry invariants)
    SZ_LABEL = "size-j-is-the-j-th-NUMBER-after-the-0x09-marker"
    CRC_LABEL = "one-uint32-skipped-per-defined-digest"

    def stream_v(lc):
        return lc.entry.obj(top(lc, "self").ref).data["_stream"]

    def havoc_stream(ex, st):
        common.havoc_pos(ex, st, st.obj(top(ex, "self").ref).data["_stream"])

    def sz_inv(lc):
        stream = stream_v(lc)
        s_, q0 = stream.t, common.bytesio_pos(lc.entry, stream)
        i = lc.i
        N = lc.seq.length
        conj = [common.bytesio_pos(lc.st, stream) == NUMPOS(s_, q0, i)]
        if lc.extra.get("phase") in ("init", "assume"):
            lc.st.assume(numpos_def(s_, q0, i))                      # definition of NUMPOS at 0 and at this index
        if lc.extra.get("phase") == "assume":
            lc.st.assume(numpos_mono_at(s_, q0, i + 1, N))          # lemma numbers-end-monotone, at this index
        if lc.extra.get("phase") == "preserve":
            if "elt" in lc.extra:                                    # comprehension summarised directly
                new = [lc.extra["elt"]]
            else:                                                    # loop (or comprehension executed as a loop): the appended value
                ref = lc.entry.lookup(worklist_of(cur_loop(lc))).ref
                if lc.entry.obj(ref).data != []:
                    raise ops.Unsupported("_parse_pack_info: the size list is not empty before the loop")
                new = [v for (rf, v) in new_events(lc, "appends") if rf == ref]
            ok = z3.BoolVal(False)
            if len(new) == 1 and isinstance(new[0], VInt):
                ok = ops.eq_term(new[0], VInt(NUMV(s_, NUMPOS(s_, q0, i - 1))))
            conj.append(ok)
        if lc.extra.get("phase") == "exit" and "elt" not in lc.extra and lc.ex._loop_nodes:
            lc.st.bind(worklist_of(cur_loop(lc)), sz_result(lc))      # PY-LIST-ORDER
        return z3.And(conj)

    def sz_result(lc):
        stream = stream_v(lc)
        s_, q0 = stream.t, common.bytesio_pos(lc.entry, stream)
        return VSeq(lc.i, lambda j: VInt(NUMV(s_, NUMPOS(s_, q0, j))), "int", tag=("numbers", s_, q0))

    def crc_inv(lc):
        stream = stream_v(lc)
        s_, c0 = stream.t, common.bytesio_pos(lc.entry, stream)
        tag = getattr(lc.seq, "tag", None)
        if not (isinstance(tag, tuple) and tag and tag[0] == "bitvector"):
            raise ops.Unsupported("_parse_pack_info: digest loop not over a BitVector")
        _t, vp, alld = tag
        i, N = lc.i, lc.seq.length
        if lc.extra.get("phase") in ("init", "assume"):
            lc.st.assume(dcnt_def(s_, vp, alld, i))                  # definition of DCNT at 0 and at this index
        if lc.extra.get("phase") == "assume":
            lc.st.assume(dcnt_mono_at(s_, vp, alld, i + 1, N))       # lemma digests-defined-monotone, at this index
        return common.bytesio_pos(lc.st, stream) == c0 + 4 * DCNT(s_, vp, alld, i)

    def pk_post(c):
        res = c.result
        d = c.st.obj(c.args["self"].ref).data
        goals = []
        for cond, oc in spec_pack_info(S(c), pos0(c)):
            if oc[0] == "none":
                g = z3.And(z3.BoolVal(res is NONE), pos1(c) == oc[1])
            elif oc[0] == "bad":
                g = z3.BoolVal(False)
            else:
                _ok, pp, n, size_at, end = oc
                g = z3.BoolVal(False)
                if isinstance(res, VTuple) and len(res.items) == 2 and isinstance(res.items[0], VInt):
                    lst, ps = res.items[1], d["_pack_sizes"]
                    pl = c.ex.concrete_items(c.st, d["_pack_positions"]) if isinstance(d["_pack_positions"], VRef) else None
                    want_abs = VInt(z3.ZeroExt(8, pp) + z3.BitVecVal(32, 72))
                    j = z3.Int(fresh_name("j!sz"))

                    def sizes_ok(v):
                        if size_at is None:
                            items = c.ex.concrete_items(c.st, v) if isinstance(v, VRef) else None
                            return z3.BoolVal(items == [])
                        if not isinstance(v, VSeq):
                            return z3.BoolVal(False)
                        return z3.And(v.length == n, z3.Implies(z3.And(j >= 0, j < n), ops.eq_term(v.elem(j), VInt(size_at(j)))))
                    if pl is not None and len(pl) == 1:
                        g = z3.And(ops.eq_term(res.items[0], want_abs), ops.eq_term(pl[0], want_abs), pos1(c) == end, end <= SLEN(S(c)),
                                   sizes_ok(lst), sizes_ok(ps))
            goals.append(z3.Implies(cond, g))
        return z3.And(goals)

    def pk_raise(c):
        L = SLEN(S(c))
        alts = [pos0(c) + 1 > L]
        for cond, oc in spec_pack_info(S(c), pos0(c)):
            if oc[0] == "bad":
                alts.append(cond)
            elif oc[0] == "ok":
                alts.append(z3.And(cond, oc[4] > L))
        return z3.Or(alts)

    def pk_hyps(c):
        """instances of the monotonicity lemmas at the section ends (proved by induction in lemmas())"""
        s_, p = S(c), pos0(c)
        q1 = p + 1
        q2 = q1 + NUML(s_, q1)
        n = z3.BV2Int(NUMV(s_, q2), False)
        q3 = q2 + NUML(s_, q2)
        hs = [numpos_mono_at(s_, q3 + 1, z3.IntVal(0), n), numpos_def(s_, q3 + 1, z3.IntVal(0))]
        for q4 in (NUMPOS(s_, q3 + 1, n) + 1, q3 + 1):
            hs.append(dcnt_mono_at(s_, q4 + 1, SB(s_, q4) != bv(0), z3.IntVal(0), n))
            hs.append(dcnt_def(s_, q4 + 1, SB(s_, q4) != bv(0), z3.IntVal(0)))
        return z3.And(hs)

    out.append(FnContract(
        target=f"{RD}._parse_pack_info",
        params=[("self", p_reader({"_header_offset": p_const(32), "_pack_positions": p_empty_list(), "_pack_sizes": p_empty_list()}))],
        requires=req_stream, hyps=pk_hyps, modifies=("self",),
        ensures=[("result-fields-and-position-equal-the-PackInfo-grammar", pk_post)],
        raises=[Raises(BAD, when=pk_raise, label="bad end marker / short stream")],
        loops=merged(role(both(is_seq("int"), body_calls("_read_number")), SZ_LABEL, sz_inv, havoc=(havoc_stream,)),
                     role(is_seq(tag="bitvector"), CRC_LABEL, crc_inv, havoc=(havoc_stream,))),
        note="PackInfo grammar of 7zFormat.txt for any numPackStreams; pack position made absolute by the 32-byte signature header"))

    # ---- _parse_substreams_info (BOUNDED shapes)
    SHAPES = [(), (1,), (2,), (1, 1), (2, 1), (1, 2)]

    def p_folder_objs(m):
        def mk(ex, st, name):
            items = []
            for k in range(m):
                us = VRef(st.alloc(HeapObj("list", [VInt(z3.BitVec(f"unpack_size_{k}", 64))], fresh=False), ex.refs))
                items.append(VRef(st.alloc(HeapObj("obj", {"coders": VUnk("coders"), "unpack_sizes": us, "crc": NONE, "num_streams": VInt(1)},
                                                   "Folder", fresh=False), ex.refs)))
            return VRef(st.alloc(HeapObj("list", items, fresh=False), ex.refs))
        return Maker(mk, desc=f"[{m} Folder objects, one coder output size each, no folder CRC]")

    def ss_shape_cond(shape):
        """alternative: the stream encodes this shape (NumUnpackStream present with these counts, or absent = all 1)"""
        def cond(s, pos):
            present = SB(s, pos) == bv(0x0D)
            q = pos + 1
            eqs = []
            for n in shape:
                eqs.append(NUMV(s, q) == bv(n, 64))
                q = q + NUML(s, q)
            absent_ok = z3.BoolVal(all(n == 1 for n in shape))
            return z3.If(present, z3.And(eqs + [z3.BoolVal(True)]), absent_ok)
        return cond

    def spec_substreams(s, p, shape, unpack):
        """SubStreamsInfo ::= [0x0D n_k:NUMBER per folder] [0x09 (n_k - 1) sizes per folder] [0x0A Digests(sum n_k)] 0x00
        -> [(cond, ('ok', [n_k], [[sizes of folder k]], end) | ('bad', end))]; the last size of a folder is its unpack size minus the others"""
        cases = []
        for present in ((True, False) if all(n == 1 for n in shape) else (True,)):
            c0 = SB(s, p) == bv(0x0D) if present else SB(s, p) != bv(0x0D)
            q = p + 1
            if present:
                for _n in shape:
                    q = q + NUML(s, q)
                t0, q0 = SB(s, q), q + 1
            else:
                t0, q0 = SB(s, p), p + 1
            for has_size in (True, False):
                if has_size:
                    c1, qq, per = t0 == bv(9), q0, []
                    for k, n in enumerate(shape):
                        ex_ = []
                        for _ in range(n - 1):
                            ex_.append(z3.BV2Int(NUMV(s, qq), False))
                            qq = qq + NUML(s, qq)
                        per.append(ex_ + [z3.BV2Int(unpack[k], False) - sum(ex_, z3.IntVal(0))])
                    t1, q1 = SB(s, qq), qq + 1
                else:
                    if any(n != 1 for n in shape):
                        # the format omits the Size section only when every folder has exactly one sub-stream
                        c1, per, t1, q1 = t0 != bv(9), None, t0, q0
                    else:
                        c1, per, t1, q1 = t0 != bv(9), [[z3.BV2Int(unpack[k], False)] for k in range(len(shape))], t0, q0
                total = sum(shape)
                tails = [(t1 != bv(0x0A), t1, q1)] + [(z3.And(t1 == bv(0x0A), dc), SB(s, dq), dq + 1) for dc, dq in digests_spec(s, q1, total)]
                for c2, t2, q2 in tails:
                    cases.append((z3.And(c0, c1, c2, t2 == bv(0)), ("ok", list(shape), per, q2)))
                    cases.append((z3.And(c0, c1, c2, t2 != bv(0)), ("bad", q2)))
        return cases

    def ss_bind(c):
        s_, p = S(c), pos0(c)
        for shape in SHAPES:
            folders = c.ex.concrete_items(c.entry, c.entry.obj(c.args["self"].ref).data["_folders"])
            if len(folders) != len(shape):
                continue
            if not c.ex.feasible(c.st.pc, z3.Not(ss_shape_cond(shape)(s_, p))):
                c.entry.ghost["bounded_shape"] = shape
                c.st.ghost["bounded_shape"] = shape
                break
        return req_stream(c)

    def ss_cases(c):
        shape = c.entry.ghost.get("bounded_shape")
        folders = c.ex.concrete_items(c.entry, c.entry.obj(c.args["self"].ref).data["_folders"])
        unpack = [c.entry.obj(c.entry.obj(f.ref).data["unpack_sizes"].ref).data[0].t for f in folders]
        return spec_substreams(S(c), pos0(c), shape, unpack), folders

    def ss_post(c):
        cases, folders = ss_cases(c)
        d = c.st.obj(c.args["self"].ref).data
        fs = c.ex.concrete_items(c.st, d["_file_sizes"]) if isinstance(d["_file_sizes"], VRef) else None
        goals = []
        for cond, oc in cases:
            if oc[0] == "bad":
                goals.append(z3.Not(cond))
                continue
            _ok, ns, per, end = oc
            if per is None:
                continue       # Size section missing although some folder has several sub-streams: malformed, unconstrained
            flat = [x for sizes in per for x in sizes]
            positive = z3.And([x > 0 for x in flat] + [z3.BoolVal(True)])     # writers' invariant: stream-bearing files are not empty
            g = z3.BoolVal(False)
            if fs is not None and len(fs) == len(flat):
                g = z3.And([pos1(c) == end, end <= SLEN(S(c))] + [ops.int_term(a) == b for a, b in zip(fs, flat)] +
                           [ops.int_term(c.st.obj(f.ref).data["num_streams"]) == n for f, n in zip(folders, ns)])
            elif fs is not None:
                g = z3.Not(positive)      # a different number of sizes is only admissible outside the writers' invariant
            goals.append(z3.Implies(z3.And(cond, positive), g))
        return z3.And(goals + [z3.BoolVal(True)])

    def ss_raise(c):
        cases, _f = ss_cases(c)
        L = SLEN(S(c))
        alts = [pos0(c) + 1 > L]
        for cond, oc in cases:
            alts.append(cond if oc[0] == "bad" else z3.And(cond, oc[3] > L))
        return z3.Or(alts)

    def ss_self():
        def mk(ex, st, name):
            out_ = []
            for shape in SHAPES:
                m = p_reader_cases({"_folders": p_folder_objs(len(shape)), "_file_sizes": p_empty_list()}, [ss_shape_cond(shape)])
                out_.extend(m.make(ex, st, name))
            return out_
        return Maker(mk, desc=f"SevenZipReader with 0..2 folders, sub-stream counts {SHAPES}")

    out.append(FnContract(
        target=f"{RD}._parse_substreams_info", params=[("self", ss_self())],
        requires=ss_bind, modifies=("self",),
        ensures=[("num_streams-and-flat-size-list-equal-the-SubStreamsInfo-grammar", ss_post)],
        raises=[Raises(BAD, when=ss_raise, label="bad end marker / short stream")],
        bounded=f"folder / sub-stream shapes {SHAPES} (one coder output size per folder, no folder CRC); every stream byte symbolic",
        note="the last size of a folder is its unpack size minus the explicit ones; sizes assumed positive (writers' invariant)"))
    # ---- _parse_folder / _parse_unpack_info (BOUNDED shapes, simple coders)
    def seq_eq(a, b):
        """bytes value a (VSeq | VBytes) equals the spec sequence b = (length term, elem fn): goal position only"""
        j = z3.Int(fresh_name("j!seq"))
        if isinstance(a, VSeq):
            return z3.And(a.length == b[0], z3.Implies(z3.And(j >= 0, j < b[0]), a.elem(j).t == b[1](j)))
        if isinstance(a, VBytes):
            return z3.And([b[0] == len(a.items)] + [x.t == b[1](z3.IntVal(i)) for i, x in enumerate(a.items)])
        return z3.BoolVal(False)

    def spec_folder(s, q, ncoders, has_props):
        """Folder ::= NumCoders { flags id[flags & 0xF] [0x20: PropertiesSize Properties] } (NumCoders-1) x (InIndex OutIndex)
        simple coders only (flag 0x10 clear): one packed stream, no PackedStreams list.
        -> (cond, [(id_len, id_elem, props | None)], end)"""
        cond = [NUMV(s, q) == bv(ncoders, 64)]
        q = q + NUML(s, q)
        coders = []
        for i in range(ncoders):
            fl = SB(s, q)
            cond.append(z3.Extract(4, 4, fl) == 0)
            cond.append((z3.Extract(5, 5, fl) == 1) if has_props[i] else (z3.Extract(5, 5, fl) == 0))
            idlen = z3.BV2Int(z3.Extract(3, 0, fl), False)
            idpos = q + 1
            q = idpos + idlen
            props = None
            if has_props[i]:
                plen = z3.BV2Int(NUMV(s, q), False)
                ppos = q + NUML(s, q)
                props = (plen, (lambda j, ppos=ppos: SB(s, ppos + j)))
                q = ppos + plen
            coders.append((idlen, (lambda j, idpos=idpos: SB(s, idpos + j)), props))
        for _ in range(ncoders - 1):
            q = q + NUML(s, q)
            q = q + NUML(s, q)
        return z3.And(cond), coders, q

    def folder_matches(c, st, fobj, coders_spec):
        d = st.obj(fobj.ref).data
        cl = c.ex.concrete_items(st, d["coders"]) if isinstance(d.get("coders"), VRef) else None
        if cl is None or len(cl) != len(coders_spec):
            return z3.BoolVal(False)
        gs = []
        for item, (idlen, idel, props) in zip(cl, coders_spec):
            if not (isinstance(item, VTuple) and len(item.items) == 2):
                return z3.BoolVal(False)
            gs.append(seq_eq(item.items[0], (idlen, idel)))
            if props is None:
                gs.append(z3.BoolVal(item.items[1] is NONE))
            else:
                gs.append(seq_eq(item.items[1], props))
        return z3.And(gs + [z3.BoolVal(True)])

    FSHAPES = [(1, (False,)), (1, (True,)), (2, (False, False)), (2, (True, False)), (2, (False, True)), (2, (True, True))]

    def pf_bind(c):
        s_, p = S(c), pos0(c)
        for (n, hp) in FSHAPES:
            cond, _cs, _e = spec_folder(s_, p, n, hp)
            if not c.ex.feasible(c.st.pc, z3.Not(cond)):
                c.entry.ghost["bounded_fshape"] = (n, hp)
                break
        return req_stream(c)

    def pf_post(c):
        n, hp = c.entry.ghost["bounded_fshape"]
        _cond, cs, end = spec_folder(S(c), pos0(c), n, hp)
        r = c.result
        if not (isinstance(r, VRef) and c.st.obj(r.ref).cls == "Folder"):
            return z3.BoolVal(False)
        us = c.ex.concrete_items(c.st, c.st.obj(r.ref).data["unpack_sizes"])
        return z3.And(folder_matches(c, c.st, r, cs), pos1(c) == end, end <= SLEN(S(c)), z3.BoolVal(us == []))

    def pf_raise(c):
        n, hp = c.entry.ghost["bounded_fshape"]
        _cond, _cs, end = spec_folder(S(c), pos0(c), n, hp)
        return end > SLEN(S(c))

    out.append(FnContract(
        target=f"{RD}._parse_folder",
        params=[("self", p_reader_cases({}, [(lambda s, pos, n=n, hp=hp: spec_folder(s, pos, n, hp)[0]) for (n, hp) in FSHAPES]))],
        requires=pf_bind, inline=True,
        ensures=[("coders-and-position-equal-the-Folder-grammar", pf_post)],
        raises=[Raises(BAD, when=pf_raise, label="short stream")],
        bounded="1..2 simple coders (flag 0x10 clear) with / without properties; ids, property bytes and every NUMBER symbolic",
        note="callers inline the body (inline=True); complex coders (BCJ2: several in/out streams) are outside this reader's support"))

    USHAPES = [(), (1,), (2,)]

    def spec_unpack(s, p, shape):
        """UnpackInfo ::= 0x07 0x0B NumFolders External=0 Folder* 0x0C UnpackSize:NUMBER per coder output [0x0A Digests(NumFolders)] 0x00
        -> [(cond, ('none', p) | ('ok', [coder specs per folder], [[sizes]], [crc | None per folder], end) | ('bad', end))]"""
        import itertools as _it
        cases = [(SB(s, p) != bv(7), ("none", p))]
        head = [SB(s, p) == bv(7)]
        cases.append((z3.And(head + [SB(s, p + 1) != bv(0x0B)]), ("bad", p + 2)))
        head.append(SB(s, p + 1) == bv(0x0B))
        q = p + 2
        head.append(NUMV(s, q) == bv(len(shape), 64))
        q = q + NUML(s, q)
        cases.append((z3.And(head + [SB(s, q) != bv(0)]), ("bad", q + 1)))
        head.append(SB(s, q) == bv(0))
        q0 = q + 1
        for hps in _it.product(*[list(_it.product((False, True), repeat=n)) for n in shape]):
            conds, folders, q = list(head), [], q0
            for n, hp in zip(shape, hps):
                cf, cs, q = spec_folder(s, q, n, hp)
                conds.append(cf)
                folders.append(cs)
            cases.append((z3.And(conds + [SB(s, q) != bv(0x0C)]), ("bad", q + 1)))
            conds.append(SB(s, q) == bv(0x0C))
            q = q + 1
            sizes = []
            for n in shape:
                row = []
                for _ in range(n):
                    row.append(NUMV(s, q))
                    q = q + NUML(s, q)
                sizes.append(row)
            t1, q1 = SB(s, q), q + 1
            m = len(shape)
            tails = [(t1 != bv(0x0A), [None] * m, t1, q1)]
            # digests: allDefined != 0 -> m crcs; else bit vector
            crcs_all = [le(s, q1 + 1 + 4 * k, 4) for k in range(m)]
            tails.append((z3.And(t1 == bv(0x0A), SB(s, q1) != bv(0)), crcs_all, SB(s, q1 + 1 + 4 * m), q1 + 1 + 4 * m + 1))
            bits = bits_spec(s, q1 + 1, m)
            for assign in _it.product((False, True), repeat=m):
                cpos = q1 + 1 + (m + 7) // 8
                crcs = []
                for a in assign:
                    if a:
                        crcs.append(le(s, cpos, 4))
                        cpos = cpos + 4
                    else:
                        crcs.append(None)
                cc = z3.And([t1 == bv(0x0A), SB(s, q1) == bv(0)] + [b if a else z3.Not(b) for a, b in zip(assign, bits)])
                tails.append((cc, crcs, SB(s, cpos), cpos + 1))
            for c2, crcs, t2, q2 in tails:
                cases.append((z3.And(conds + [c2, t2 == bv(0)]), ("ok", folders, sizes, crcs, q2)))
                cases.append((z3.And(conds + [c2, t2 != bv(0)]), ("bad", q2)))
        return cases

    def ushape_cond(shape):
        """at most one folder in the bounded scope: its position does not depend on other folders"""
        def cond(s, pos):
            q = pos + 2
            cs = [NUMV(s, q) == bv(len(shape), 64)]
            q = q + NUML(s, q) + 1
            for n in shape[:1]:
                cs.append(NUMV(s, q) == bv(n, 64))
            return z3.Implies(z3.And(SB(s, pos) == bv(7), SB(s, pos + 1) == bv(0x0B)), z3.And(cs))
        return cond

    def pu_bind(c):
        s_, p = S(c), pos0(c)
        for shape in USHAPES:
            if not c.ex.feasible(c.st.pc, z3.Not(ushape_cond(shape)(s_, p))):
                c.entry.ghost["bounded_ushape"] = shape
                c.st.ghost["bounded_ushape"] = shape
                break
        return req_stream(c)

    def pu_post(c):
        shape = c.entry.ghost["bounded_ushape"]
        res = c.result
        d = c.st.obj(c.args["self"].ref).data
        goals = []
        for cond, oc in spec_unpack(S(c), pos0(c), shape):
            if oc[0] == "none":
                items = c.ex.concrete_items(c.st, res) if isinstance(res, VRef) else None
                g = z3.And(z3.BoolVal(items == []), pos1(c) == oc[1])
            elif oc[0] == "bad":
                g = z3.BoolVal(False)
            else:
                _ok, folders, sizes, crcs, end = oc
                items = c.ex.concrete_items(c.st, res) if isinstance(res, VRef) else None
                g = z3.BoolVal(False)
                if items is not None and len(items) == len(folders) and isinstance(d.get("_folders"), VRef) and d["_folders"].ref == res.ref:
                    gs = [pos1(c) == end, end <= SLEN(S(c))]
                    for f, cs, row, crc in zip(items, folders, sizes, crcs):
                        fd = c.st.obj(f.ref).data
                        gs.append(folder_matches(c, c.st, f, cs))
                        us = c.ex.concrete_items(c.st, fd["unpack_sizes"])
                        gs.append(z3.BoolVal(us is not None and len(us) == len(row)))
                        if us is not None and len(us) == len(row):
                            gs.extend(ops.eq_term(a, VInt(b)) for a, b in zip(us, row))
                        if crc is None:
                            gs.append(z3.BoolVal(fd["crc"] is NONE))
                        else:
                            gs.append(ops.eq_term(fd["crc"], VInt(crc)) if isinstance(fd["crc"], VInt) else z3.BoolVal(False))
                    g = z3.And(gs)
            goals.append(z3.Implies(cond, g))
        return z3.And(goals)

    def pu_raise(c):
        shape = c.entry.ghost["bounded_ushape"]
        L = SLEN(S(c))
        alts = [pos0(c) + 1 > L]
        allc = []
        for cond, oc in spec_unpack(S(c), pos0(c), shape):
            allc.append(cond)
            if oc[0] == "bad":
                alts.append(cond)
            elif oc[0] == "ok":
                alts.append(z3.And(cond, oc[4] > L))
        # no case of the simple-coder grammar applies (a coder with flag 0x10): outside the scope of this bounded check
        alts.append(z3.Not(z3.Or(allc)))
        return z3.Or(alts)

    out.append(FnContract(
        target=f"{RD}._parse_unpack_info",
        params=[("self", p_reader_cases({"_folders": p_empty_list()}, [ushape_cond(sh) for sh in USHAPES]))],
        requires=pu_bind, modifies=("self",),
        ensures=[("folders-coders-sizes-crcs-and-position-equal-the-UnpackInfo-grammar", pu_post)],
        raises=[Raises(BAD, when=pu_raise, label="bad marker / external folders / short stream")],
        bounded=f"coder counts per folder {USHAPES} (simple coders, with / without properties, all digest layouts); every stream byte symbolic",
        note="UnpackInfo grammar of 7zFormat.txt for simple coder chains"))
    return out


# ====================================================== header dispatchers (round 7) ==
# StreamsInfo ::= [PackInfo(0x06 ..)] [UnpackInfo(0x07 ..)] [0x08 SubStreamsInfo] 0x00
# Header      ::= [0x02 ArchiveProperties] [0x03 StreamsInfo] [0x04 StreamsInfo] [0x05 FilesInfo] 0x00          (7zFormat.txt)
# end header  ::= [0x17 EncodedHeader -> the rest is read from the decoded stream] (0x01 Header | 0x00)
# The dispatchers are verified against this grammar over ANY stream: which section parser runs, at which stream position (the
# PackInfo / UnpackInfo parsers re-read their id byte, the SubStreamsInfo / FilesInfo / StreamsInfo / Header parsers start after
# it), in which order, where the stream stands afterwards and exactly when the section is refused.  A section parser is seen
# through a CALL-SITE VIEW: it is recorded as a ghost event (name, stream, position), leaves the stream at `end_of_<name>(s, p)`
# and refuses exactly when `<name>_refuses(s, p)` -- both uninterpreted: every deterministic parser satisfies the view, so the
# verified contract of _parse_pack_info (position = end of the PackInfo grammar) implies it.
SUB_END, SUB_FAIL = {}, {}
ENCS = z3.Function("decoded_header_stream", Stream, I, Stream)       # the stream _parse_encoded_header installs (Trust: decode)
SUB_FIELDS = ("_pack_positions", "_pack_sizes", "_folders", "_file_sizes", "_files", "_folder_to_files", "_empty_file_indices")


def sub_end(name):
    if name not in SUB_END:
        SUB_END[name] = z3.Function(f"end_of{name}", Stream, I, I)
        SUB_FAIL[name] = z3.Function(f"{name.lstrip('_')}_refuses", Stream, I, B)
    return SUB_END[name], SUB_FAIL[name]


def sub_frame(name, new_stream=False):
    def frame(ex, st, ctx):
        s = stream_of(ctx, st)
        p = common.bytesio_pos(st, s)
        st.ghost["subparsers"] = st.ghost.get("subparsers", ()) + ((name, s.t, p),)
        w = st.wobj(ctx.args["self"].ref)
        w.data = dict(w.data)
        for k in SUB_FIELDS:
            if k in w.data:
                w.data[k] = VUnk(k)
        if new_stream:
            ns = VExt("Stream7z", ENCS(s.t, p))
            w.data["_stream"] = ns
            st.ghost[common.pos_key(ns)] = z3.IntVal(0)
            st.assume(SLEN(ns.t) >= 0)
        else:
            common.havoc_pos(ex, st, s)
    return frame


PEEKS = {"_parse_pack_info": 6, "_parse_unpack_info": 7}      # parsers that read their own id byte and step back when it is not theirs


def peek_facts(name, s, p):
    """PackInfo / UnpackInfo parsers called where the next byte is not their id: a no-op (stream left where it was) unless not even that
    byte can be read -- the `none` case of the verified PackInfo contract (and of the BOUNDED UnpackInfo one)"""
    END, FAIL = sub_end(name)
    L = SLEN(s)
    return z3.And(z3.Implies(p + 1 > L, FAIL(s, p)),
                  z3.Implies(z3.And(p + 1 <= L, SB(s, p) != bv(PEEKS[name])), z3.And(z3.Not(FAIL(s, p)), END(s, p) == p)))


def sub_view(name, new_stream=False, note=""):
    END, FAIL = sub_end(name)

    def S0(c):
        return stream_of(c).t
    hy = (lambda c: peek_facts(name, S0(c), pos0(c))) if name in PEEKS else None
    ens = [("returns-only-if-the-section-is-accepted", lambda c: z3.Not(FAIL(S0(c), pos0(c))))]
    if not new_stream:
        ens.append(("stream-left-at-the-end-of-the-section", lambda c: pos1(c) == END(S0(c), pos0(c))))
    return FnContract(target=f"{RD}.{name}", assumed=True, params=[("self", p_reader())], requires=req_stream, frame=sub_frame(name, new_stream),
                      hyps=hy, ensures=ens, raises=[Raises(BAD, sub=True, when=lambda c: FAIL(S0(c), pos0(c)))],
                      result_maker=lambda ex, st, ctx: VUnk(f"{name}-result"),
                      note=note or "call-site view: ghost event (name, stream, position); end position / refusal are functions of (stream, position)")


def trace_goal(slots, evs):
    """the recorded section-parser calls `evs` are exactly the slots whose condition holds, in slot order, each at its stream position;
    besides them only no-op calls: a PackInfo / UnpackInfo parser asked at a byte that is not its id (it steps back)"""
    import itertools as _it
    alts = []
    for m in range(min(len(slots), len(evs)) + 1):
        for chosen in _it.combinations(range(len(evs)), m):
            for idxs in _it.combinations(range(len(slots)), m):
                if any(slots[i][0] != evs[j][0] for j, i in zip(chosen, idxs)):
                    continue
                if any(evs[j][0] not in PEEKS for j in range(len(evs)) if j not in chosen):
                    continue
                g = [SB(evs[j][1], evs[j][2]) != bv(PEEKS[evs[j][0]]) for j in range(len(evs)) if j not in chosen]
                for i, (_n, called, s_, p_) in enumerate(slots):
                    if i in idxs:
                        ev = evs[chosen[idxs.index(i)]]
                        g += [called, ev[1] == s_, ev[2] == p_]
                    else:
                        g.append(z3.Not(called))
                alts.append(z3.And(g + [z3.BoolVal(True)]))
    return z3.Or(alts) if alts else z3.BoolVal(False)


def spec_streams_info(s, p):
    """-> (slots [(parser, called, stream, position)], end position, refused)"""
    L = SLEN(s)
    t, a, fails, slots = SB(s, p), p + 1, [p + 1 > L], []
    for name, tagv, rereads in (("_parse_pack_info", 6, True), ("_parse_unpack_info", 7, True), ("_parse_substreams_info", 8, False)):
        END, FAIL = sub_end(name)
        c, at = t == bv(tagv), (a - 1 if rereads else a)
        slots.append((name, c, s, at))
        e = END(s, at)
        fails += [z3.And(c, FAIL(s, at)), z3.And(c, e + 1 > L)]
        t, a = z3.If(c, SB(s, e), t), z3.If(c, e + 1, a)
    fails.append(t != bv(0))
    return slots, a, z3.Or(fails)


# ArchiveProperties ::= 0x02 { id:BYTE != 0  size:NUMBER  data:BYTE[size] }* 0x00 -- a chain of unknown length: where it ends and
# whether a read falls short on the way are primitive-recursive in the position (uninterpreted + instantiated definitions, like NUMPOS)
PLEND = z3.Function("property_list_end", Stream, I, I)            # position after the 0x00 that ends the list starting at q
PLBAD = z3.Function("property_list_short", Stream, I, B)          # some read of the list starting at q falls off the stream


def pl_def(s, q):
    L = SLEN(s)
    sz = z3.BV2Int(NUMV(s, q + 1), False)
    nxt = q + 1 + NUML(s, q + 1) + sz
    return z3.And(PLEND(s, q) == z3.If(SB(s, q) == bv(0), q + 1, PLEND(s, nxt)),
                  PLBAD(s, q) == z3.If(q + 1 > L, z3.BoolVal(True), z3.If(SB(s, q) == bv(0), z3.BoolVal(False),
                                       z3.If(z3.Or(q + 1 + NUML(s, q + 1) > L, z3.And(sz > 0, nxt > L)), z3.BoolVal(True), PLBAD(s, nxt)))))


def spec_main_header(s, p):
    """Header ::= [0x02 ArchiveProperties] [0x03 StreamsInfo] [0x04 StreamsInfo] [0x05 FilesInfo] 0x00"""
    L = SLEN(s)
    t, a, fails, slots = SB(s, p), p + 1, [p + 1 > L], []
    c_ap, e_ap = t == bv(2), PLEND(s, p + 1)
    fails += [z3.And(c_ap, PLBAD(s, p + 1)), z3.And(c_ap, e_ap + 1 > L)]
    t, a = z3.If(c_ap, SB(s, e_ap), t), z3.If(c_ap, e_ap + 1, a)
    FEND, FFAIL = sub_end("_parse_files_info")
    sections = (("_parse_streams_info", 3, lambda q: spec_streams_info(s, q)[1], lambda q: spec_streams_info(s, q)[2]),
                ("_parse_streams_info", 4, lambda q: spec_streams_info(s, q)[1], lambda q: spec_streams_info(s, q)[2]),
                ("_parse_files_info", 5, lambda q: FEND(s, q), lambda q: FFAIL(s, q)))
    for name, tagv, endf, failf in sections:
        c = t == bv(tagv)
        slots.append((name, c, s, a))
        e = endf(a)
        fails += [z3.And(c, failf(a)), z3.And(c, e + 1 > L)]
        t, a = z3.If(c, SB(s, e), t), z3.If(c, e + 1, a)
    fails.append(t != bv(0))
    return slots, a, z3.Or(fails)


def spec_end_header(s, p):
    """-> (slots, final stream, end position, refused)"""
    L = SLEN(s)
    t, fails = SB(s, p), [p + 1 > L]
    _EE, EFAIL = sub_end("_parse_encoded_header")
    MEND, MFAIL = sub_end("_parse_main_header")
    c_enc = t == bv(0x17)
    s2 = ENCS(s, p + 1)
    slots = [("_parse_encoded_header", c_enc, s, p + 1)]
    fails += [z3.And(c_enc, EFAIL(s, p + 1)), z3.And(c_enc, 1 > SLEN(s2))]
    t2, sx, a = z3.If(c_enc, SB(s2, 0), t), z3.If(c_enc, s2, s), z3.If(c_enc, z3.IntVal(1), p + 1)
    c_mh = t2 == bv(1)
    slots.append(("_parse_main_header", c_mh, sx, a))
    fails += [z3.And(c_mh, MFAIL(sx, a)), z3.And(z3.Not(c_mh), t2 != bv(0))]
    return slots, sx, z3.If(c_mh, MEND(sx, a), a), z3.Or(fails)


CRCF = z3.Function("crc32_of_stream_bytes", Stream, I, I, z3.BitVecSort(32))     # zlib.crc32(s[lo : lo + n]): uninterpreted (Trust: zlib)
SUBS = z3.Function("stream_over_bytes", Stream, I, I, Stream)                    # io.BytesIO(s[lo : lo + n]): a stream over exactly those bytes


def stream_bytes_of(v):
    return v.tag[1:] if isinstance(v, VSeq) and isinstance(v.tag, tuple) and len(v.tag) == 4 and v.tag[0] == "stream-bytes" else None


def install_header(reg):
    """ASSUMED models used by _parse_header: zlib.crc32 over bytes read from a stream = an uninterpreted function of (stream, offset,
    length); io.BytesIO over such bytes = a stream of that length at position 0 (named by where its bytes come from)"""
    prev_bio = reg.ext_models.get("io.BytesIO")

    def m_crc32(ex, st, args, kwargs, node):
        sb = stream_bytes_of(args[0]) if len(args) == 1 and not kwargs else None
        if sb is None:
            return ex.havoc_call(st, "zlib.crc32", args, node)
        return [(st, VInt(CRCF(*sb)))]

    def m_bytesio(ex, st, args, kwargs, node):
        sb = stream_bytes_of(args[0]) if len(args) == 1 and not kwargs else None
        if sb is None:
            return prev_bio(ex, st, args, kwargs, node) if prev_bio is not None else ex.havoc_call(st, "io.BytesIO", args, node)
        ns = VExt("Stream7z", SUBS(*sb))
        st.ghost[common.pos_key(ns)] = z3.IntVal(0)
        st.assume(SLEN(ns.t) == sb[2])
        return [(st, ns)]
    reg.ext_models["zlib.crc32"] = m_crc32
    reg.ext_models["io.BytesIO"] = m_bytesio


def spec_start_header(s):
    """SignatureHeader ::= '7z' BC AF 27 1C  Major=0 Minor<=4  StartHeaderCRC:UINT32  NextHeaderOffset:UINT64 NextHeaderSize:UINT64
    NextHeaderCRC:UINT32 (7zFormat.txt; 32 bytes; StartHeaderCRC covers bytes 12..31; the next header = the `size` bytes at 32 + offset,
    inside the file (vacuous for size 0), covered by NextHeaderCRC)  -> (stream of the next header, refused)"""
    L = SLEN(s)
    off, size = z3.BV2Int(le(s, z3.IntVal(12), 8), False), z3.BV2Int(le(s, z3.IntVal(20), 8), False)
    hs = SUBS(s, 32 + off, size)
    _E, EHFAIL = sub_end("_parse_end_header")
    bad = [L < 32, z3.Or([SB(s, z3.IntVal(i)) != bv(b_) for i, b_ in enumerate(b"7z\xbc\xaf\x27\x1c")]),
           SB(s, z3.IntVal(6)) != bv(0), z3.UGT(SB(s, z3.IntVal(7)), bv(4)),
           CRCF(s, z3.IntVal(12), z3.IntVal(20)) != le(s, z3.IntVal(8), 4),
           z3.And(size > 0, 32 + off + size > L), CRCF(s, 32 + off, size) != le(s, z3.IntVal(28), 4), EHFAIL(hs, z3.IntVal(0))]
    return hs, z3.Or(bad)


def dispatch_contracts():
    out = []

    def S0(c):
        return stream_of(c).t

    def new_subs(c):
        return c.st.ghost.get("subparsers", ())[len(c.entry.ghost.get("subparsers", ())):]

    # call-site views of the section parsers (their own contracts, where they have one, are verified on their bodies above)
    out.append(sub_view("_parse_pack_info", note="call-site view implied by the verified PackInfo contract above (position = end of the grammar, "
                                                 "refusal = bad marker / short stream are functions of stream and position)"))
    out.append(sub_view("_parse_unpack_info", note="call-site view; the function itself: BOUNDED contract (thorough tier) + native scope"))
    out.append(sub_view("_parse_substreams_info", note="call-site view; the function itself: BOUNDED contract (thorough tier) + native scope"))
    out.append(sub_view("_parse_files_info", note="call-site view; the function itself: BOUNDED native function-level obligation"))
    out.append(sub_view("_parse_encoded_header", new_stream=True,
                        note="call-site view: installs the decoded header as the new stream at position 0 (decode: Trust); not under contract itself"))

    def si(c):
        return spec_streams_info(S0(c), pos0(c))
    out.append(FnContract(
        target=f"{RD}._parse_streams_info", params=[("self", p_reader())], requires=req_stream, frame=sub_frame("_parse_streams_info"),
        modifies=("self",),
        ensures=[("section-parsers-run-at-their-sections-in-grammar-order", internal(lambda c: trace_goal(si(c)[0], new_subs(c)))),
                 ("stream-left-after-the-END-marker", lambda c: pos1(c) == si(c)[1]),
                 ("returns-only-if-the-StreamsInfo-grammar-accepts", lambda c: z3.Not(si(c)[2]))],
        raises=[Raises(BAD, sub=True, when=lambda c: si(c)[2], label="a section refused / bad end marker / short stream")],
        note="StreamsInfo grammar of 7zFormat.txt over any stream; PackInfo / UnpackInfo parsers re-read their id byte"))

    def mh(c):
        return spec_main_header(S0(c), pos0(c))

    def ap_stream(x, st):
        return st.obj(top(x, "self").ref).data["_stream"]

    def ap_inv(lc):
        """the archive-property list that starts at the current property ends where the one at the loop entry ends (and falls short iff
        that one does): definitions of PLEND / PLBAD instantiated at the current property.  Two loop forms: `while True: id = read; if id
        == END: break; ...` (the head stands AT a property) and the rotated `id = read; while id != END: ...; id = read` (the head stands one
        byte after the property's id, which the loop test reads from a loop-carried local)"""
        s_ = ap_stream(lc, lc.entry).t
        p0, p1 = common.bytesio_pos(lc.entry, ap_stream(lc, lc.entry)), common.bytesio_pos(lc.st, ap_stream(lc, lc.st))
        carried = loop_carried_ints(lc)
        tested = [carried[x.id] for x in ast.walk(cur_loop(lc).test) if isinstance(x, ast.Name) and x.id in carried]
        d = 1 if tested else 0
        q0, q = p0 - d, p1 - d
        lc.st.assume(pl_def(s_, q))
        if d:       # the rotated form reads the next id inside the body: definition at the next property as well
            lc.st.assume(pl_def(s_, q + 1 + NUML(s_, q + 1) + z3.BV2Int(NUMV(s_, q + 1), False)))
        conj = [ap_stream(lc, lc.st).t == s_, PLEND(s_, q) == PLEND(s_, q0), PLBAD(s_, q) == PLBAD(s_, q0)]
        if d:
            conj += [q >= 0, p1 <= SLEN(s_)] + [ops.eq_term(v, VInt(SB(s_, q))) for v in tested]
        return z3.And(conj)

    def ap_havoc(ex, st):
        common.havoc_pos(ex, st, ap_stream(ex, st))

    out.append(FnContract(
        target=f"{RD}._parse_main_header", params=[("self", p_reader())],
        requires=req_stream, frame=sub_frame("_parse_main_header"), modifies=("self",),
        hyps=lambda c: z3.BoolVal(True) if c.at_call_site else pl_def(S0(c), pos0(c) + 1),      # definition of PLEND / PLBAD at the first property
        loops=role(both(lambda ex, st, it, node: isinstance(node, ast.While), body_calls("_read_number")),
                   "archive-property-list-from-here-ends-where-the-list-ends", ap_inv, havoc=(ap_havoc,)),
        ensures=[("streams-info-and-files-info-parsed-at-their-sections-in-grammar-order", internal(lambda c: trace_goal(mh(c)[0], new_subs(c)))),
                 ("stream-left-after-the-END-marker", lambda c: pos1(c) == mh(c)[1]),
                 ("returns-only-if-the-Header-grammar-accepts", lambda c: z3.Not(mh(c)[2]))],
        raises=[Raises(BAD, sub=True, when=lambda c: mh(c)[2], label="a section refused / bad end marker / short stream")],
        note="Header grammar of 7zFormat.txt incl. an ArchiveProperties list of any length (loop invariant over the property chain)"))
    out.append(sub_view("_parse_main_header", note="call-site view for _parse_end_header; implied by the verified Header contract above"))

    def eh(c):
        return spec_end_header(S0(c), pos0(c))
    out.append(FnContract(
        target=f"{RD}._parse_end_header", params=[("self", p_reader())], requires=req_stream, modifies=("self",),
        frame=sub_frame("_parse_end_header"),
        ensures=[("encoded-header-decoded-first-then-the-Header-parsed-from-the-resulting-stream",
                  internal(lambda c: trace_goal(eh(c)[0], new_subs(c)))),
                 ("stream-and-position-after-the-header", internal(lambda c: z3.And(stream_of(c, c.st).t == eh(c)[1], pos1(c) == eh(c)[2]))),
                 ("returns-only-if-the-end-header-grammar-accepts", internal(lambda c: z3.Not(eh(c)[3])))],
        raises=[Raises(BAD, sub=True, when=lambda c: eh(c)[3], label="a section refused / unexpected property id / short stream")],
        note="end header: [0x17 EncodedHeader] then 0x01 Header or 0x00 (empty archive); after an encoded header the id is read from the decoded stream"))
    out.append(sub_view("_parse_end_header", note="call-site view for _parse_header; implied by the verified end-header contract above (refusal is a "
                                                  "function of stream and position)"))

    # ---- _parse_header: the 32-byte signature header of the archive file, then the end header parsed from its own stream
    def ph_arch(c):
        return c.entry.obj(c.args["self"].ref).data["_archive_file"].t

    def ph_frame(ex, st, ctx):
        """at a call site (SevenZipReader.__init__): the call is recorded with the archive file it reads; the fields the parsers fill are unknown"""
        d = st.obj(ctx.args["self"].ref).data
        st.ghost["subparsers"] = st.ghost.get("subparsers", ()) + (("_parse_header", d["_archive_file"].t, dict(d)),)
        w = st.wobj(ctx.args["self"].ref)
        w.data = {k: (VUnk(k) if k in SUB_FIELDS or k in ("_stream", "_header_offset") else v) for k, v in d.items()}

    def ph_post(c):
        hs, _bad = spec_start_header(ph_arch(c))
        evs = new_subs(c)
        d = c.st.obj(c.args["self"].ref).data
        ho = d.get("_header_offset")
        af = d.get("_archive_file")
        return z3.And(z3.BoolVal(len(evs) == 1 and evs[0][0] == "_parse_end_header"),
                      af.t == ph_arch(c) if isinstance(af, VExt) else z3.BoolVal(False),          # still reads the same archive file
                      *( [evs[0][1] == hs, evs[0][2] == 0] if len(evs) == 1 else []),
                      ops.eq_term(ho, VInt(32)) if isinstance(ho, VInt) else z3.BoolVal(False))

    out.append(FnContract(
        target=f"{RD}._parse_header",
        params=[("self", p_obj("SevenZipReader", {"_archive_file": p_ext("Stream7z"), "_stream": p_ext("Stream7z"), "_header_offset": p_unk()}))],
        requires=lambda c: SLEN(ph_arch(c)) >= 0, modifies=("self",), frame=ph_frame,
        ensures=[("end-header-parsed-from-a-stream-over-the-next-header-bytes-and-header-offset-32", internal(ph_post)),
                 ("returns-only-if-signature-version-and-both-CRCs-match", internal(lambda c: z3.Not(spec_start_header(ph_arch(c))[1])))],
        raises=[Raises(BAD, sub=True, when=lambda c: spec_start_header(ph_arch(c))[1],
                       label="bad signature / version / CRC, truncated file, or the end header refused")],
        note="SignatureHeader of 7zFormat.txt over any archive file; zlib.crc32 uninterpreted; pack positions are relative to byte 32"))

    # ---- SevenZipReader.__init__: empty state, then the header of THIS file parsed
    def ri_post(c):
        evs = new_subs(c)
        if len(evs) != 1 or evs[0][0] != "_parse_header":
            return z3.BoolVal(False)
        _n, arch, d = evs[0]
        empties = all(isinstance(d.get(k), VRef) and c.ex.concrete_items(c.st, d[k]) == [] for k in SUB_FIELDS if k != "_folder_to_files")
        f2f = d.get("_folder_to_files")
        empty_map = isinstance(f2f, (VDictC, VRef)) and (f2f.items == [] if isinstance(f2f, VDictC) else c.st.obj(f2f.ref).data in ({}, []))
        return z3.And(arch == c.args["file"].t, z3.BoolVal(bool(empties)), z3.BoolVal(bool(empty_map)),
                      z3.BoolVal(isinstance(d.get("_archive_file"), VExt) and isinstance(d.get("_stream"), VExt)), d["_stream"].t == arch,
                      d["_archive_file"].t == c.args["file"].t)

    def ri_frame(ex, st, ctx):
        """at a call site (SevenZipFile.__enter__): a reader on `file` whose header has been parsed; what the parsers filled in is unknown"""
        f = ctx.args["file"]
        st.ghost["subparsers"] = st.ghost.get("subparsers", ()) + (("reader-init", f.t, None),)
        w = st.wobj(ctx.args["self"].ref)
        w.data = dict({k: VUnk(k) for k in SUB_FIELDS + ("_stream", "_header_offset")}, _archive_file=f)

    out.append(FnContract(
        target=f"{RD}.__init__", params=[("self", p_obj("SevenZipReader", {})), ("file", p_ext("Stream7z"))],
        requires=lambda c: SLEN(c.args["file"].t) >= 0, modifies=("self",), frame=ri_frame,
        ensures=[("state-empty-then-the-header-of-this-file-parsed-once", internal(ri_post))],
        raises=[Raises(BAD, sub=True, when=lambda c: spec_start_header(c.args["file"].t)[1], label="the header is refused")],
        note="file objects are streams with read() (the hasattr guard is for foreign objects: outside this contract)"))

    # ---- SevenZipFile.__enter__: the reader is built on the facade's own file (so `source_file=self._file` and the reader's own
    # `_archive_file` name the same bytes: see facade_contracts)
    def en_post(c):
        evs = new_subs(c)
        me = c.args["self"]
        rd = c.st.obj(me.ref).data.get("_reader")
        fl = c.entry.obj(me.ref).data["_file"]
        if len(evs) != 1 or evs[0][0] != "reader-init" or not isinstance(rd, VRef) or c.st.obj(rd.ref).cls != "SevenZipReader":
            return z3.BoolVal(False)
        af = c.st.obj(rd.ref).data.get("_archive_file")
        return z3.And(z3.BoolVal(isinstance(c.result, VRef) and c.result.ref == me.ref), evs[0][1] == fl.t,
                      af.t == fl.t if isinstance(af, VExt) else z3.BoolVal(False))

    out.append(FnContract(
        target=f"{SEVEN}::SevenZipFile.__enter__",
        params=[("self", p_obj("SevenZipFile", {"_file": p_ext("Stream7z"), "_password": p_unk(), "_reader": p_const(None)}))],
        requires=lambda c: SLEN(c.entry.obj(c.args["self"].ref).data["_file"].t) >= 0, modifies=("self",),
        ensures=[("returns-itself-with-a-reader-built-on-its-own-file", internal(en_post))],
        raises=[Raises(BAD, sub=True, when=lambda c: spec_start_header(c.entry.obj(c.args["self"].ref).data["_file"].t)[1], label="the header is refused")],
        note="the reader is constructed under the contract of SevenZipReader.__init__ (verified above)"))
    out.extend(facade_contracts())
    return out


# ---- SevenZipFile: the facade archive_extractor talks to (its ASSUMED model there: needs_password / list / extractall of ONE reader)
READER_REFUSES = z3.Function("reader_extractall_refuses", S, B)


def facade_contracts():
    """SevenZipFile.list / needs_password / extractall delegate to the reader built on the SAME file: each calls the reader method of
    its name exactly once, extractall with the caller's path and `source_file` = the file the facade was opened on (the bytes the layout
    contracts of SevenZipReader.extractall speak about), and hands the reader's result back; Bad7zFile when not opened.  The reader methods
    are seen through call-site views that record the call (SevenZipReader.extractall itself is verified in layout_contracts)."""
    out = []

    def view(meth, params, raises):
        def rm(ex, st, ctx):
            r = NONE if meth == "extractall" else VExt("ReaderResult")
            st.ghost["reader_calls"] = st.ghost.get("reader_calls", ()) + ((meth, dict(ctx.args), r),)
            return r
        return FnContract(target=f"{RD}.{meth}", assumed=True, params=[("self", p_unk())] + params, result_maker=rm, raises=raises,
                          note="call-site view for the SevenZipFile facade: the call is recorded (receiver, arguments, result)")
    # SevenZipReader.list itself: the file list, every entry, in header order (verified; the view below is what the facade sees)
    def rl_post(c):
        r = c.result
        j = z3.Int(fresh_name("j!list"))
        if isinstance(r, VSeq):
            e = r.elem(j)
            return z3.And(r.length == NFILES, z3.Implies(z3.And(j >= 0, j < NFILES), e.t == FINFO(j) if isinstance(e, VExt) and e.sort == "FileInfo" else z3.BoolVal(False)))
        items = c.ex.concrete_items(c.st, r) if isinstance(r, VRef) else None
        if items is None:
            return z3.BoolVal(False)
        return z3.And([NFILES == len(items)] + [x.t == FINFO(z3.IntVal(i)) if isinstance(x, VExt) and x.sort == "FileInfo" else z3.BoolVal(False)
                                                for i, x in enumerate(items)])

    out.append(FnContract(
        target=f"{RD}.list", params=[("self", p_obj("SevenZipReader", {"_files": p_files()}))],
        ensures=[("every-entry-of-the-file-list-in-header-order", internal(rl_post))], raises=[],
        note="list() is what archive_extractor's member loop iterates (through SevenZipFile.list): all entries, header order; a copy of a "
             "sequence value is that sequence (lists built by the parsers are introduced as sequences: PY-LIST-ORDER)"))
    out.append(view("list", [], []))
    out.append(view("needs_password", [], []))
    sf_maker = p_opt(p_ext("ArchiveFile"))
    try:        # a call that omits source_file gets the default of the REAL signature (only when that is the literal None)
        fn = loader.module(SEVEN).functions.get("SevenZipReader.extractall")
        names = [a.arg for a in fn.args.args]
        dflt = dict(zip(names[len(names) - len(fn.args.defaults):], fn.args.defaults)).get("source_file")
        if isinstance(dflt, ast.Constant) and dflt.value is None:
            sf_maker.default = lambda ex, st: NONE
    except Exception:  # noqa  no default: such a call is out of subset
        pass
    out.append(view("extractall", [("path", p_str()), ("source_file", sf_maker)],
                    [Raises("ValueError", when=lambda c: z3.Length(c.args["path"].t) == 0, label="empty path (verified on the reader)"),
                     Raises(BAD, sub=True, when=lambda c: READER_REFUSES(c.args["path"].t), label="extraction failed")]))

    def facade():
        return p_obj("SevenZipFile", {"_file": p_ext("ArchiveFile"), "_password": p_unk(),
                                      "_reader": p_alts(p_const(None), p_obj("SevenZipReader", {}))})

    def reader_of(c):
        return c.entry.obj(c.args["self"].ref).data["_reader"]

    def delegates(meth):
        def f(c):
            calls = c.st.ghost.get("reader_calls", ())[len(c.entry.ghost.get("reader_calls", ())):]
            rd = reader_of(c)
            if len(calls) != 1 or calls[0][0] != meth or not isinstance(rd, VRef):
                return z3.BoolVal(False)
            _m, a, r = calls[0]
            goal = [z3.BoolVal(isinstance(a.get("self"), VRef) and a["self"].ref == rd.ref)]
            if meth == "extractall":
                sf, fl = a.get("source_file"), c.entry.obj(c.args["self"].ref).data["_file"]
                goal.append(ops.eq_term(a["path"], c.args["path"]) if isinstance(a.get("path"), VStr) else z3.BoolVal(False))
                # the reader reads from `source_file`, or from the file it was built on when that is None (SevenZipFile.__enter__ builds
                # it on the facade's own file: not under contract, covered by the native scope): both name the same bytes
                goal.append(sf.t == fl.t if isinstance(sf, VExt) and sf.sort == "ArchiveFile" else z3.BoolVal(sf is NONE or sf is None))
                goal.append(z3.BoolVal(c.result is NONE))
            else:
                goal.append(z3.BoolVal(isinstance(c.result, VExt) and c.result is r))
            return z3.And(goal)
        return f

    def fi_post(c):
        d = c.st.obj(c.args["self"].ref).data
        fl = d.get("_file")
        return z3.And(z3.BoolVal(d.get("_reader") is NONE), fl.t == c.args["file"].t if isinstance(fl, VExt) else z3.BoolVal(False),
                      c.args["mode"].t == z3.StringVal("r"))

    out.append(FnContract(
        target=f"{SEVEN}::SevenZipFile.__init__",
        params=[("self", p_obj("SevenZipFile", {})), ("file", p_ext("ArchiveFile")), ("mode", p_alts(p_const("r"), p_str())), ("password", p_unk())],
        modifies=("self",),
        ensures=[("not-opened-yet-on-the-given-file-read-mode-only", internal(fi_post))],
        raises=[Raises(BAD, sub=True, when=lambda c: c.args["mode"].t != z3.StringVal("r"), label="a mode other than 'r'")],
        note="construction does not touch the file; the reader is built by __enter__"))

    def fx_post(c):
        d = c.st.obj(c.args["self"].ref).data
        r = c.result
        falsy = r is NONE or (isinstance(r, VBool) and r.const() is False)
        return z3.And(z3.BoolVal(d.get("_reader") is NONE), z3.BoolVal(bool(falsy)))

    out.append(FnContract(
        target=f"{SEVEN}::SevenZipFile.__exit__",
        params=[("self", facade()), ("exc_type", p_unk()), ("exc_val", p_unk()), ("exc_tb", p_unk())], modifies=("self",),
        ensures=[("reader-dropped-and-a-falsy-result-so-an-exception-of-the-body-propagates", internal(fx_post))], raises=[], total=True,
        note="PEP 343: a falsy __exit__ result re-raises the body's exception (a member failure must not be swallowed with the archive)"))

    for meth, extra in (("list", []), ("needs_password", []), ("extractall", [("path", p_str())])):
        rs = [Raises(BAD, sub=True, label="archive not opened" + (" / extraction failed" if extra else ""),
                     when=(lambda c: z3.Or(z3.BoolVal(reader_of(c) is NONE), READER_REFUSES(c.args["path"].t))) if extra
                     else (lambda c: z3.BoolVal(reader_of(c) is NONE)))]
        if extra:
            rs.append(Raises("ValueError", when=lambda c: z3.Length(c.args["path"].t) == 0, label="empty path (from the reader)"))
        out.append(FnContract(
            target=f"{SEVEN}::SevenZipFile.{meth}", params=[("self", facade())] + extra,
            ensures=[(f"reader-{meth}-called-once-on-the-opened-reader" + ("-with-the-path-and-no-other-file-than-its-own" if extra else "-and-its-result-returned"),
                      internal(delegates(meth))),
                     ("returns-only-if-opened", internal(lambda c: z3.BoolVal(reader_of(c) is not NONE)))],
            raises=rs, note="facade of the own 7z reader (py7zr-compatible surface)"))
    return out


# ============================================================ detection (f) ==
# published magic numbers (PKWARE APPNOTE 4.3.7 / 4.3.16, 7zFormat.txt, RFC 1952, bzip2 "BZh", xz file format 2.1.1.1,
# POSIX ustar header: "ustar" at offset 257)
SIGS = (("zip", b"PK\x03\x04"), ("zip", b"PK\x05\x06"), ("7z", b"7z\xbc\xaf\x27\x1c"), ("tar.gz", b"\x1f\x8b"),
        ("tar.bz2", b"BZh"), ("tar.xz", b"\xfd7zXZ\x00"))
TAR_MODE = {"tar": ("r:", "r:tar"), "tar.gz": ("r:gz",), "tar.bz2": ("r:bz2",), "tar.xz": ("r:xz",)}
TYPES = ("zip", "7z", "tar", "tar.gz", "tar.bz2", "tar.xz")


def hdr(c):
    """(n, H): the first min(512, len) bytes of the input"""
    s_ = c.args["file_like"].t
    L = SLEN(s_)
    return z3.If(L < 512, L, z3.IntVal(512)), (lambda i: SB(s_, z3.IntVal(i) if isinstance(i, int) else i))


def sig_at(n, H, magic, off=0):
    return z3.And([n >= off + len(magic)] + [H(off + i) == bv(b) for i, b in enumerate(magic)])


def res_is(c, t):
    r = c.result
    if t is None:
        return z3.BoolVal(r is NONE)
    return r.t == z3.StringVal(t) if isinstance(r, VStr) else z3.BoolVal(False)


def detect_contracts():
    out = []

    def clause(t, magic):
        return (f"{t}-signature-{magic.hex()}-detected-as-{t}", lambda c: z3.Implies(sig_at(*hdr(c), magic), res_is(c, t)))

    def is_plain_tar(c):
        n, H = hdr(c)
        return z3.And(sig_at(n, H, b"ustar", 257), H(0) != bv(0))      # ustar header whose name field is not empty

    def collides(c):
        """F26: the first member's name starts with another format's magic (the code tests only 2 bytes of bzip2's)"""
        n, H = hdr(c)
        return z3.Or([sig_at(n, H, m) for _t, m in SIGS if m != b"BZh"] + [sig_at(n, H, b"BZ")])

    ens = [clause(t, m) for t, m in SIGS]
    ens.append(("plain-tar-detected-as-tar", lambda c: z3.Implies(is_plain_tar(c), res_is(c, "tar"))))
    ens.append(("plain-tar-detected-as-tar.outside-F26", lambda c: z3.Implies(z3.And(is_plain_tar(c), z3.Not(collides(c))), res_is(c, "tar"))))
    ens.append(("empty-tar-two-zero-blocks-detected-as-tar",
                lambda c: z3.Implies(z3.And([SLEN(c.args["file_like"].t) >= 1024] + [hdr(c)[1](i) == bv(0) for i in range(512)]), res_is(c, "tar"))))
    ens.append(("None-only-if-no-published-signature-matches",
                lambda c: z3.Implies(res_is(c, None), z3.Not(z3.Or([sig_at(*hdr(c), m) for _t, m in SIGS] + [sig_at(*hdr(c), b"ustar", 257)])))))
    def known_type(c):
        if c.at_call_site:
            c.st.ghost["detected_type"] = c.result
        return z3.Or([res_is(c, None)] + [res_is(c, t) for t in TYPES])

    ens.append(("result-is-None-or-a-known-type", known_type))
    ens.append(("position-rewound", lambda c: common.bytesio_pos(c.st, c.args["file_like"]) == 0))

    def det_result(ex, st, ctx):
        st.ghost["detected"] = True
        alts = [(None, NONE)] + [(None, VStr(t)) for t in TYPES]
        return alts

    out.append(FnContract(
        target=f"{ARCH}::_detect_archive_type_optimized", params=[("file_like", p_ext("Stream7z"))],
        requires=lambda c: SLEN(c.args["file_like"].t) >= 0,
        ensures=ens, raises=[], result_maker=det_result,
        frame=lambda ex, st, ctx: st.ghost.__setitem__(common.pos_key(ctx.args["file_like"]), z3.IntVal(0)),
        note="symbolic over the first 512 bytes and the length of the input"))

    # ---- read_archive: type -> member loop (and tar mode)
    def ra_post(c):
        r = events(c.st, "routes")
        ys = events(c.st, "yields")
        det = c.st.ghost.get("detected_type")
        if len(r) != 1 or len(ys) != 1 or not isinstance(det, VStr):
            return z3.BoolVal(False)
        kind, fl, ap, mode = r[0]
        t = det.const()
        same = fl is c.args["file_like"] and (ap is c.args["path"] or (isinstance(ap, VStr) and isinstance(c.args["path"], VStr) and ap.t.eq(c.args["path"].t)))
        if not same:
            return z3.BoolVal(False)
        if t in ("zip", "7z"):
            return z3.BoolVal(kind == t)
        if t in TAR_MODE:
            return z3.And(z3.BoolVal(kind == "tar" and isinstance(mode, VStr)), z3.Or([mode.t == z3.StringVal(m) for m in TAR_MODE[t]]))
        return z3.BoolVal(False)

    out.append(FnContract(
        target=f"{ARCH}::read_archive", params=[("file_like", p_ext("Stream7z")), ("path", p_opt(p_str()))],
        requires=lambda c: SLEN(c.args["file_like"].t) >= 0,
        generator=True,
        ensures=[("detected-type-routed-to-its-member-loop-with-the-documented-tar-mode", ra_post)],
        raises=[Raises("ExtractionError", sub=True, label="undetected / unsupported / failing container")],
        note="zip -> zip loop, 7z -> 7z loop, tar / tar.gz / tar.bz2 / tar.xz -> tar loop with mode r:(tar) / r:gz / r:bz2 / r:xz"))
    return out


def table_check(repo, tier):
    """MAGIC_SIGNATURES: every entry is a published magic number mapped to its format, length = len(magic)."""
    m = loader.module(ARCH, repo)
    try:
        tab = m.literal("MAGIC_SIGNATURES")
        tar_off, tar_magic = m.literal("TAR_MAGIC_OFFSET"), m.literal("TAR_MAGIC")
    except Exception as e:  # noqa
        return {"obligations": [], "undecided": [{"obligation": "C10/archive_extractor.py::MAGIC_SIGNATURES", "why": f"not literal: {e}"}]}
    published = {b"PK\x03\x04": "zip", b"PK\x05\x06": "zip", b"7z\xbc\xaf\x27\x1c": "7z", b"\x1f\x8b": "tar.gz", b"BZ": "tar.bz2", b"BZh": "tar.bz2",
                 b"\xfd7zXZ\x00": "tar.xz"}
    bad = [e for e in tab if not (len(e) == 3 and published.get(e[0]) == e[1] and e[2] == len(e[0]))]
    need = {"zip", "7z", "tar.gz", "tar.bz2", "tar.xz"} - {e[1] for e in tab}
    obls = [ground_obligation("C10/archive_extractor.py::MAGIC_SIGNATURES/module-invariant#entries-are-published-magic-numbers-of-their-format",
                              not bad and not need and b"PK\x03\x04" in [e[0] for e in tab], f"bad entries {bad[:3]}, missing {sorted(need)}", ARCH, definite=False,
                              kind="module-invariant", backend="ground"),
            ground_obligation("C10/archive_extractor.py::TAR_MAGIC/module-invariant#ustar-at-257", tar_off == 257 and tar_magic == b"ustar",
                              f"{tar_off} {tar_magic!r}", ARCH, kind="module-invariant", backend="ground", definite=False)]
    return {"obligations": obls}


_SHAPE_ERRORS = (AttributeError, KeyError, TypeError, IndexError, ValueError, AssertionError, z3.Z3Exception)


def guarded(fn, what):
    """a contract clause is pack code evaluated on values produced from the (possibly changed) source: a Python exception in it
    means "this shape is not recognised" -> Unsupported (the function is reported OUT-OF-SUBSET / unknown, the native replayer decides)"""
    if fn is None:
        return None

    def g(*a, **k):
        try:
            return fn(*a, **k)
        except _SHAPE_ERRORS as e:
            raise ops.Unsupported(f"{what}: shape not recognised ({type(e).__name__}: {str(e)[:120]})")
    return g


FUNCTIONAL = ("._read_bytes", "._read_uint8", "._read_uint32", "._read_uint64", "._read_number", "._read_boolean_vector",
              "._decompress_folder", "._parse_pack_info", "._seek_back_one")


def add_optional_params(c):
    """trailing parameters of the REAL signature that the contract does not mention and whose default is a literal: the contract
    speaks about the calls that omit them, so the body is verified with the default value; a call that passes one is outside the
    contract (C10Executor.apply_contract: unknown).  Anything else (no literal default, not trailing) stays unbound = out of subset."""
    c.optional_extra = ()
    try:
        rel, qual = c.target.split("::")
        fnode = loader.module(rel).functions.get(qual)
        if fnode is None or getattr(c, "closure", None):
            return
        a = fnode.args
        sig = [x.arg for x in a.posonlyargs + a.args]
        have = [n for (n, _m) in c.params]
        if sig[:len(have)] != have:
            return
        dflt = dict(zip(sig[len(sig) - len(a.defaults):], a.defaults))
        tail = [(x.arg, dflt.get(x.arg)) for x in (a.posonlyargs + a.args)[len(have):]] + list(zip([x.arg for x in a.kwonlyargs], a.kw_defaults))
        if not tail or not all(isinstance(d, ast.Constant) and isinstance(d.value, (type(None), bool, int, str)) for _n, d in tail):
            return
        c.params = list(c.params) + [(n, p_const(d.value)) for n, d in tail]
        c.optional_extra = tuple(n for n, _d in tail)
    except Exception:  # noqa  never let the signature scan break the check: the function is then verified as before
        c.optional_extra = ()


def guard_contract(c):
    c.functional = c.target.endswith(FUNCTIONAL)
    add_optional_params(c)
    orig_hyps = c.hyps

    def hyps(cx):
        if not cx.at_call_site:            # the function under contract itself: remember its argument values for loop invariants
            cx.ex.top_args = dict(cx.args)
        return orig_hyps(cx) if orig_hyps is not None else z3.BoolVal(True)
    c.hyps = hyps
    for attr in ("requires", "hyps", "returns", "result_maker", "frame", "yields"):
        setattr(c, attr, guarded(getattr(c, attr, None), f"{c.target.split('::')[-1]}.{attr}"))
    c.ensures = [(lab, guarded(fn, f"ensures#{lab}")) for (lab, fn) in c.ensures]
    c.final = {k: guarded(fn, f"final#{k}") for k, fn in c.final.items()}
    for r in c.raises:
        r.when = guarded(r.when, "raises.when")
    for key, sp in list(c.loops.items()):
        sp.inv = guarded(sp.inv, f"loop invariant {sp.label}")
        if getattr(sp, "result", None) is not None:
            sp.result = guarded(sp.result, f"comprehension result {sp.label}")
        sp.havoc = tuple(guarded(h, f"loop havoc {sp.label}") if callable(h) else h for h in sp.havoc)
    return c


def contracts(reg):
    install_stream(reg)
    install_layout(reg)
    install_members(reg)
    install_header(reg)
    out = []
    out.extend(byte_contracts())
    out.extend(layout_contracts(reg))
    out.extend(parser_contracts())
    out.extend(dispatch_contracts())
    out.extend(build_contracts(reg))
    out.extend(member_contracts(reg.ext_models))
    out.extend(detect_contracts())
    return [guard_contract(c) for c in out]


OPTIONAL_ROLES = {"counts-the-entries-per-normalised-path"}


def _missing_locked_as_unknown(c, rep):
    """an obligation recorded in the lock that the (changed) function no longer generates -- a loop whose role was not
    recognised, a clause attached to a statement that disappeared -- is neither proved nor refuted: `unknown`"""
    import json
    import os
    import sys
    if rep.error or rep.out_of_subset or getattr(c, "bounded", "") or "--update-lock" in sys.argv:
        return
    try:
        lock = json.load(open(os.path.join(os.path.dirname(os.path.dirname(os.path.abspath(__file__))), "obligations.lock.json"))).get("C10", {})
    except (OSError, ValueError):
        return
    rel, qual = c.target.split("::")
    prefix = f"C10/{rel.split('/')[-1]}::{qual}/"
    have = {o["id"] for o in rep.obligations}
    for oid in sorted(lock):
        aux = oid[len(prefix):].split("#")[0] in ("inv-init", "inv-preserve", "unwind")
        if aux and getattr(c, "functional", False):
            continue        # the contract fixes the whole result (returns / grammar clause): how the code loops is not part of it
        if aux and oid.split("#")[-1] in OPTIONAL_ROLES:
            continue        # an auxiliary pass whose result is introduced abstractly: it may be written without a loop
        if oid.startswith(prefix) and oid not in have and "/call-pre#" not in oid and not oid.endswith(".BOUNDED"):
            rep.obligations.append({"id": oid, "kind": oid[len(prefix):].split("#")[0], "status": "unknown", "vcs": 0, "seconds": 0.0, "backends": {},
                                    "witness": None, "reason": "locked obligation not generated from the changed code (loop role / statement not recognised)", "loc": ""})


def post_report(c, rep):
    """Round-3 policy: a refutation at the SMT level is NOT reported as a violation by itself.  Invariant-preservation VCs start from
    a havocked state, clauses return False for shapes they do not recognise, loop cuts / EXC-ANY over-approximate: none of these is a
    definite counterexample.  Every refuted obligation is handed to the native replayer as `unknown` (pyvc/check.py REPLAY_UNKNOWN):
    it becomes a VIOLATION exactly when replay/C10.py reproduces a failing input on the real code, otherwise it is UNDECIDED."""
    _missing_locked_as_unknown(c, rep)
    for o in rep.obligations:
        if o.get("status") == "refuted":
            o["status"] = "unknown"
            o["reason"] = ("counter-model at the SMT level, not a definite counterexample by itself (" + (o.get("reason") or "no note") + ")")[:400]


REPLAY_UNKNOWN = True


def lemmas():
    out = []
    # known answers for the NUMBER spec (guards the spec transcription itself)
    kat = [(b"\x00", 0, 1), (b"\x7f", 127, 1), (b"\x80\x80", 128, 2), (b"\xbf\xff", 0x3FFF, 2), (b"\xc0\x00\x40", 0x4000, 3),
           (b"\xfe" + bytes(range(1, 8)), int.from_bytes(bytes(range(1, 8)), "little"), 8),
           (b"\xff" + bytes(range(1, 9)), int.from_bytes(bytes(range(1, 9)), "little"), 9),
           (b"\xe1\x02\x03\x04", (1 << 24) + 0x040302, 4)]
    s = z3.Const("s!kat", Stream)
    for i, (data, v, n) in enumerate(kat):
        hyp = [SB(s, z3.IntVal(j)) == bv(b) for j, b in enumerate(data + b"\x00" * 9)]
        out.append((f"C10/spec::7z-NUMBER/lemma#known-answer.{i}", hyp,
                    z3.And(NUMV(s, z3.IntVal(0)) == bv(v, 64), NUML(s, z3.IntVal(0)) == n, z3.BoolVal(number_python(data) == (v, n)))))
    # induction schemas (the induction variable b, the other variable a arbitrary but fixed)
    a, b = z3.Int("a!lemma"), z3.Int("b!lemma")
    out.append(("C10/spec::7z-layout/lemma#rank-monotone.base", [rank_def(b)], rank_mono_at(a, z3.IntVal(0))))
    out.append(("C10/spec::7z-layout/lemma#rank-monotone.step", [b >= 0, rank_def(b), rank_mono_at(a, b)], rank_mono_at(a, b + 1)))
    sl, ql, pl, adl = z3.Const("s!lemma", Stream), z3.Int("q!lemma"), z3.Int("p!lemma"), z3.Bool("ad!lemma")
    out.append(("C10/spec::7z-header/lemma#numbers-end-monotone.base", [numpos_def(sl, ql, b)], numpos_mono_at(sl, ql, a, z3.IntVal(0))))
    out.append(("C10/spec::7z-header/lemma#numbers-end-monotone.step", [b >= 0, numpos_def(sl, ql, b), numpos_mono_at(sl, ql, a, b)],
                numpos_mono_at(sl, ql, a, b + 1)))
    out.append(("C10/spec::7z-header/lemma#digests-defined-monotone.base", [dcnt_def(sl, pl, adl, b)], dcnt_mono_at(sl, pl, adl, a, z3.IntVal(0))))
    out.append(("C10/spec::7z-header/lemma#digests-defined-monotone.step", [b >= 0, dcnt_def(sl, pl, adl, b), dcnt_mono_at(sl, pl, adl, a, b), dcnt_mono_at(sl, pl, adl, b, b)],
                dcnt_mono_at(sl, pl, adl, a, b + 1)))
    out.append(("C10/spec::7z-layout/lemma#pack-prefix-sum-nonneg.base", [ps_def(b)], PS(z3.IntVal(0)) >= 0))
    out.append(("C10/spec::7z-layout/lemma#pack-prefix-sum-nonneg.step", [b >= 0, ps_def(b), PS(b) >= 0, PSZ(b) > 0], PS(b + 1) >= 0))
    return out


def _native_obligation(repo, oid, bound):
    """BOUNDED stand-in (DESIGN 2.8) for the functions that are not (or only boundedly) under contract -- _parse_header,
    _parse_main_header, _parse_streams_info, _parse_files_info, SevenZipFile, lzma glue: the native differential scope of
    replay/C10.py (reference writers x layouts x member sets: read_archive == direct extraction per member; SevenZipReader
    lists / extracts every member's own bytes; byte readers == format spec) is run on the real code.  A mismatch is a concrete
    failing input (violation); finding nothing proves nothing (`bounded-ok`, never counted as discharged)."""
    import json
    import os
    import subprocess
    req = {"property": "C10", "obligation": oid, "repo": repo}
    try:
        p = subprocess.run(["/venv/bin/python", os.path.join(os.path.dirname(os.path.dirname(os.path.abspath(__file__))), "replay", "run.py")],
                           input=json.dumps(req), capture_output=True, text=True, timeout=900, env=dict(os.environ, VERIF_REPO=repo))
        lines = [l for l in p.stdout.splitlines() if l.startswith("{")]
        res = json.loads(lines[-1]) if lines else {"error": (p.stderr or p.stdout)[-500:]}
    except Exception as e:  # noqa
        res = {"error": str(e)}
    if "error" in res or "crashed" in str(res.get("note", "")):
        return {"obligations": [], "undecided": [{"obligation": oid, "why": "native scope could not run: " + str(res.get("error", res.get("note")))[:300]}]}
    ok = not res.get("reproduced")
    o = ground_obligation(oid, ok, "" if ok else f"{res.get('target')}: {json.dumps(res.get('inputs'), default=repr)[:300]} -> {str(res.get('observed'))[:300]}",
                          "replay/C10.py", kind="bounded", backend="native-replay")
    o["bounded"] = True
    o["bound"] = bound
    return {"obligations": [o]}


def native_scope(repo, tier):
    """BOUNDED stand-in for everything on the property's path that is not (or only boundedly) under contract: see _native_obligation"""
    return _native_obligation(repo, "C10/replay::native-scope/bounded#read_archive-equals-direct-extraction-per-member.BOUNDED",
                              "zipfile stored/deflated, tarfile plain/gz/bz2/xz in pax/gnu/ustar format, own 7z writer copy/LZMA/LZMA2 x solid / blocks / folder per file; "
                              "20 member sets (0..130 members, directories, zero-length, hidden, unsupported, nested, corrupt, dotted / non-ASCII / long names); "
                              "one 9.7 MB solid LZMA2 folder with a 32 MiB dictionary")


def native_files_info(repo, tier):
    """_parse_files_info is not symbolically under contract (names are decoded through a growing bytearray): its executable contract --
    the vectors handed to _build_file_list equal the FilesInfo grammar -- is run natively on generated sections (BOUNDED)"""
    return _native_obligation(repo, "C10/sevenzip.py::SevenZipReader._parse_files_info/bounded#vectors-handed-to-_build_file_list-equal-the-FilesInfo-grammar.BOUNDED",
                              "every ordered pair of 10 interesting UTF-16 code units in names; 1..20 entries with mixed EmptyStream / EmptyFile bits; "
                              "property orders; unknown properties skipped by size")


def native_files_info_attributes(repo, tier):
    """the attribute words of the FilesInfo section (the directory bit 0x10 is read from them) are handed to _build_file_list as stored:
    executable clause of the same function-level contract, run natively (BOUNDED); fails today: recorded finding F31"""
    return _native_obligation(repo, F31_OID, "1 / 3 / 9 entries, all attributes defined, files and directories mixed")


F31_OID = "C10/sevenzip.py::SevenZipReader._parse_files_info/bounded#attributes-handed-to-_build_file_list-equal-the-FilesInfo-grammar.BOUNDED"


def known_findings(kf, violations, repo, tier):
    """Recorded genuine defects (known_findings.json): each witness is replayed natively; a finding that still fails
    prints KNOWN-FINDING and covers exactly its own obligation id (every other refuted obligation stays a violation)."""
    import json
    import os
    import subprocess
    out = []
    vio_ids = {v["id"] for v in violations}
    for f in kf:
        req = {"property": "C10", "obligation": f["obligation"], "known_finding": f["id"], "witness": f.get("witness"), "repo": repo}
        try:
            p = subprocess.run(["/venv/bin/python", os.path.join(os.path.dirname(os.path.dirname(os.path.abspath(__file__))), "replay", "run.py")],
                               input=json.dumps(req), capture_output=True, text=True, timeout=600, env=dict(os.environ, VERIF_REPO=repo))
            lines = [l for l in p.stdout.splitlines() if l.startswith("{")]
            res = json.loads(lines[-1]) if lines else {"reproduced": False}
        except Exception as e:  # noqa
            res = {"reproduced": False, "note": str(e)}
        still = bool(res.get("reproduced"))
        covers = [o for o in f.get("covers", [f["obligation"]]) if o in vio_ids] if still else []
        out.append({"finding": f["id"], "still_fails": still, "line": f"{f['id']}: {f['what']}", "covers": covers,
                    "exclusion": f.get("exclusion"), "proved_outside_exclusion": f.get("proved_outside"),
                    "witness_replay": res.get("observed", res.get("note", ""))})
    return out


EXECUTOR = MemberExecutor
EXECUTOR_KW = {}
EXTRA = [table_check, native_scope, native_files_info, native_files_info_attributes]
TRUSTED = [
    "decode (copy = identity, LZMA / LZMA2 via liblzma) is uninterpreted: _apply_decoder is an assumed contract; its results are "
    "compared natively by replay/C10.py for copy / LZMA / LZMA2 folders",
    "zipfile.ZipFile.read(info) and tarfile extractfile(member).read() return the member's bytes; infolist()/getmembers() present the "
    "container's members in container order (archives produced by reference writers: container-level corruption such as a bad "
    "CRC is outside the quantifier -- observed natively: a ZIP member with a bad CRC aborts the archive after the earlier members)",
    "the member extractors (router.get_extractor) are uninterpreted: 'identical to direct extraction' = same extractor, same bytes, same path",
    "file system: a file written under the private temp dir is read back with the bytes written (member names distinct, no symlinks)",
    "7z NUMBER / BitVector / PackInfo / SubStreamsInfo / folder-layout specification transcribed from 7zFormat.txt in contracts/C10.py "
    "(NUMBER guarded by known-answer lemmas each run)",
]
ASSUMED_MODELS = [
    "io.BytesIO.read/seek/tell on the header stream and on the archive file (bytes [pos, min(pos+n, len)), position advanced; SEEK_END = length)",
    "struct.unpack('<B'/'<H'/'<I'/'<Q'): little-endian unsigned", "builtin sum over an int sequence view = difference of prefix sums",
    "open(path, 'wb') / file.write / os.makedirs raise only the OSError family; os.path.dirname / basename uninterpreted",
    "zipfile.ZipFile (constructor, infolist, read, context manager), ZipInfo.is_dir()/flag_bits/filename/file_size",
    "tarfile.open, TarFile.getmembers/extractfile, TarInfo.isreg()/name/size", "SevenZipFile (needs_password, list, extractall) as seen from archive_extractor",
    "tempfile.TemporaryDirectory (fresh private path)", "os.path.exists", "time.perf_counter",
    "sevenzip._safe_join at its call sites (verified here for WHEN it refuses a name, by C09 for confinement), archive_extractor._should_skip_file (C09), "
    "_get_file_extractor_cached (C07/C15), SevenZipReader._apply_decoder (Trust)",
    "os.path.splitdrive / isabs / abspath / normpath uninterpreted (C09's models), POSIX os.sep / os.pardir / os.curdir",
    "str.split(sep): n >= 1 pieces without sep, s starts with piece 0 (+ sep when n > 1) and ends with the last piece, n == 1 iff sep not in s",
    "ZipFile.read raises RuntimeError on an encrypted member (ghost flag zip_read_refused); APPNOTE 4.4.4: general purpose bit 0 = encrypted",
    "int-valued enum members compare / hash / print as their ints (PY-INTENUM); with-statement over a plain module class = PEP 343 expansion",
    "zlib.crc32 over bytes read from a stream: uninterpreted function of (stream, offset, length); io.BytesIO over such bytes: a stream of "
    "that length at position 0; hasattr(x, name) is True for an abstract object the pack models with a method of that name",
]
ASSUMPTIONS = [
    "PY-INT with exact bit-vector encoding", "PY-GEN", "EXC-ANY for un-modelled library calls", "logger calls dropped (PY-LOG)",
    "PY-LIST-ORDER: a list built by `append` inside a loop is, after the loop, the sequence of appended values in iteration order (the "
    "engine has no symbolic-length mutable lists): per-iteration obligations state WHAT is appended in iteration i; the list used by the "
    "following loop is introduced as that sequence (worklists of the ZIP / 7z member loops, self._files and _folder_to_files[k] in "
    "_build_file_list, where position j in _folder_to_files[k] = number of earlier appends to k = r - cum(k))",
    "writers' invariants (7-Zip / py7zr / the 7z format description), preconditions of the 7z layout contracts: every coder chain this "
    "reader supports consumes ONE packed stream (first(k) = k, numPackStreams = numFolders); pack sizes > 0; every folder has >= 1 "
    "sub-stream; a stream-bearing file has size > 0 (zero-length files are emptyStream entries); a directory attribute implies emptyStream; "
    "SubStreamsInfo lists one size per stream-bearing file; the PackInfo section is present when folders exist",
    "the end-to-end statement (read_archive == direct extraction per member, in order) is the COMPOSITION of the layer contracts "
    "(a)-(f); the composition itself is argued in the pack's docstring, not discharged by the solver",
    "a ZIP/TAR/7z member above max_memory_size / MAX_ARCHIVE_FILE_SIZE is skipped (C12's limits); members are distinct names: no two "
    "non-directory 7z entries resolve to one normalised path (the per-path counting pass of _extract_from_7z_optimized is introduced as the "
    "occurrence count PCOUNT, which is 1 for every member under this assumption)",
    "_parse_files_info / _parse_encoded_header / _skip_substreams_info are NOT under contract (filter comprehension, index stores into "
    "symbolic-length lists, UTF-16 decoding: outside the engine's subset): their stand-in is the BOUNDED native-scope obligation "
    "(replay/C10.py on the real code at every run) and, for _parse_files_info, the BOUNDED native function-level obligation",
    "call-site VIEWS used while the header dispatchers are verified (reported as assumed contracts): _parse_pack_info, _parse_main_header, "
    "_parse_end_header, SevenZipReader.extractall views are IMPLIED by the verified contracts of these functions (end position / refusal "
    "are functions of stream and position; the PackInfo `none` case); _parse_unpack_info / _parse_substreams_info views rest on their "
    "BOUNDED (thorough tier) contracts; _parse_files_info / _parse_encoded_header / SevenZipReader.list / needs_password views only say "
    "`deterministic in (stream, position)` resp. `the call is recorded`: these functions are not verified",
    "ArchiveProperties chain: PLEND / PLBAD (where the property list ends, whether a read falls short) are primitive-recursive spec "
    "functions used through instances of their defining equations at the loop head (like NUMPOS / DCNT)",
    "NUMPOS / DCNT (positions after i NUMBERs, defined digests among the first i) are primitive-recursive spec functions used through "
    "instances of their defining equations and two monotonicity lemmas proved by induction",
]
BOUNDED = []
QUICK_SKIP_BOUNDED = True   # the five BOUNDED header-parser enumerations (60-110 s each) run in the thorough tier only
