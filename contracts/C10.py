"""C10 -- archive members come out as themselves: right bytes, name, order.

Specification sources (never the code): the 7z format description (7zFormat.txt of
the 7-Zip SDK) for NUMBER, bit vectors, PackInfo / UnpackInfo / SubStreamsInfo /
FilesInfo and the folder / sub-stream layout (DESIGN Appendix B "7z layout"); the
property statement for the member loops (archive order, `archive!/member` path,
extractor chosen by the member's base name, a failing member affects only itself);
the published magic numbers of ZIP / 7z / gzip / bzip2 / xz / ustar.

Layers (each is a set of obligations generated from the real source):
 (a) byte-level readers of sevenzip.py over an abstract byte stream with a ghost
     position: _read_bytes/_read_uint8/32/64, _read_number (= 7z NUMBER, bit-vectors),
     _read_boolean_vector (BOUNDED counts);
 (b) _build_file_list: file -> (folder, sub-stream) map equals the spec;
 (c) extractall/_decompress_folder: the bytes handed to the decoder chain of folder k
     are archive[in_off(k) : in_off(k)+in_len(k)];
 (d) _extract_files_from_folder: member j of a folder is out(k)[off_j : off_j+size_j];
 (e) member loops of archive_extractor.py: selection in container order, one dispatch
     per selected member with the member's own bytes, name and `archive!/member` path;
 (f) magic-byte table -> archive type -> tar mode.
The end-to-end statement is the composition of these layers; `decode` (lzma), zipfile
and tarfile member reads and the member extractors are uninterpreted (Trust).
"""
import ast

import z3

from pyvc import loader, ops
from pyvc.contracts import FnContract, LoopSpec, Raises
from pyvc.flow import ground_obligation
from pyvc.state import HeapObj
from pyvc.symex import Executor
from pyvc.values import (NONE, VBool, VBytes, VExc, VExt, VFunc, VInt, VRef, VSeq, VStr, VTuple, VUnk,
                         ext_sort, fresh_name)
from pyvc.verify import Maker, p_bool, p_bv, p_const, p_ext, p_int, p_obj, p_opt, p_str, p_unk
from contracts import common

SEVEN = "sharepoint2text/parsing/extractors/util/sevenzip.py"
ARCH = "sharepoint2text/parsing/extractors/archive_extractor.py"
RD = f"{SEVEN}::SevenZipReader"
I, B = z3.IntSort(), z3.BoolSort()
BV8, BV64 = z3.BitVecSort(8), z3.BitVecSort(64)
BAD = "Bad7zFile"


def bv(x, w=8):
    return z3.BitVecVal(x, w)


# =============================================================== byte stream ==
# An abstract finite byte string with a ghost read position (contracts/common.py).
Stream = ext_sort("Stream7z")
SB = z3.Function("stream_byte", Stream, I, BV8)      # content
SLEN = z3.Function("stream_len", Stream, I)          # length


def m_stream_read(ex, st, obj, args, kwargs, node):
    """io.BytesIO.read(n): ASSUMED -- returns bytes [pos, min(pos+n, len)) and advances by that many."""
    s = obj.t
    pos, L = common.bytesio_pos(st, obj), SLEN(s)
    n = args[0] if args else VInt(-1)
    if not isinstance(n, VInt):
        return ex.havoc_call(st, "Stream.read", args, node)
    rest = z3.If(pos < L, L - pos, z3.IntVal(0))
    c = n.const()
    out = []
    if c is not None and 0 <= c <= 16:
        full = st.fork()
        if ex.feasible(full.pc, pos + c <= L):
            full.assume(pos + c <= L)
            full.ghost[common.pos_key(obj)] = pos + c
            out.append((full, VBytes([VInt(SB(s, z3.simplify(pos + i))) for i in range(c)])))
        if ex.feasible(st.pc, pos + c > L):
            st.assume(pos + c > L)
            st.ghost[common.pos_key(obj)] = pos + rest
            out.append((st, VSeq(rest, lambda i, pos=pos: VInt(SB(s, pos + i)), "byte", True)))
        return out
    nt = ops.int_term(n)
    ln = z3.If(z3.Or(nt < 0, nt > rest), rest, nt)
    st.ghost[common.pos_key(obj)] = pos + ln
    return [(st, VSeq(ln, lambda i, pos=pos: VInt(SB(s, pos + i)), "byte", True))]


def m_struct_unpack(ex, st, args, kwargs, node):
    """struct.unpack('<B'|'<H'|'<I'|'<Q', b): ASSUMED little-endian unsigned; struct.error on a size mismatch."""
    fmt = args[0].const() if isinstance(args[0], VStr) else None
    sizes = {"<B": 1, "<H": 2, "<I": 4, "<Q": 8}
    data = args[1] if len(args) > 1 else None
    if fmt in sizes and isinstance(data, VBytes):
        if len(data.items) != sizes[fmt]:
            ex.raise_in(st, ex.mk_exc("struct.error"))
            return []
        bs = [ex.as_byte(x).t for x in data.items]
        t = bs[0] if len(bs) == 1 else z3.Concat(*reversed(bs))
        return [(st, VTuple([VInt(t)]))]
    return ex.havoc_call(st, "struct.unpack", args, node)


def install_stream(reg):
    reg.ext_models[("havoc", "Stream7z")] = common.havoc_pos
    reg.method_models[("Stream7z", "read")] = m_stream_read
    reg.method_models[("Stream7z", "tell")] = common.m_tell
    reg.method_models[("Stream7z", "seek")] = common.m_seek
    reg.ext_models["struct.unpack"] = m_struct_unpack


# ---------------------------------------------------- 7z NUMBER (format spec) --
#   first byte     extra bytes   value
#   0xxxxxxx                     xxxxxxx
#   10xxxxxx       y[1]          (xxxxxx << 8)  + y
#   110xxxxx       y[2]          (xxxxx  << 16) + y          y little-endian
#   ...
#   1111110x       y[6]          (x << 48) + y
#   11111110       y[7]          y
#   11111111       y[8]          y
def lead_ones(b0):
    """number of leading 1-bits of a byte (Int term)."""
    acc = z3.IntVal(8)
    for k, lim in reversed(list(enumerate((0x80, 0xC0, 0xE0, 0xF0, 0xF8, 0xFC, 0xFE, 0xFF)))):
        acc = z3.If(z3.ULT(b0, bv(lim)), z3.IntVal(k), acc)
    return acc


def number_value(b0, ys):
    """value of the NUMBER whose first byte is b0 and whose following bytes are ys[0..7] (BV64)."""
    cases = []
    for k in range(9):
        low = bv(0, 64)
        for i in range(k):
            low = low | (z3.ZeroExt(56, ys[i]) << (8 * i))
        if k < 7:
            high = z3.ZeroExt(56, b0 & bv(0xFF >> (k + 1))) << (8 * k)
            low = low | high
        cases.append(low)
    k = lead_ones(b0)
    acc = cases[8]
    for j in range(7, -1, -1):
        acc = z3.If(k == j, cases[j], acc)
    return acc


NUMV = z3.RecFunction("number_at", Stream, I, BV64)        # value of the NUMBER encoded at offset p
NUML = z3.RecFunction("number_len_at", Stream, I, I)       # its encoded length (1..9)
_s, _p = z3.Const("s!def", Stream), z3.Int("p!def")
z3.RecAddDefinition(NUML, [_s, _p], 1 + lead_ones(SB(_s, _p)))
z3.RecAddDefinition(NUMV, [_s, _p], number_value(SB(_s, _p), [SB(_s, _p + 1 + i) for i in range(8)]))


def number_python(data, p=0):
    """The same spec on python bytes (used by the known-answer lemmas and the replayer)."""
    b0 = data[p]
    k = 0
    while k < 8 and b0 & (0x80 >> k):
        k += 1
    y = int.from_bytes(data[p + 1:p + 1 + k], "little")
    hi = (b0 & (0xFF >> (k + 1))) << (8 * k) if k < 7 else 0
    return hi + y, 1 + k


# ------------------------------------------------------- reader-method helpers --
def p_alts(*makers):
    def mk(ex, st, name):
        out = []
        for m in makers:
            out.extend(m.make(ex, st, name))
        return out
    return Maker(mk, desc=" | ".join(m.desc for m in makers))


def p_reader(extra=None):
    f = {"_stream": p_ext("Stream7z")}
    f.update(extra or {})
    return p_obj("SevenZipReader", f)


def stream_of(c, st=None):
    st = st or c.entry
    return st.obj(c.args["self"].ref).data["_stream"]


def pos0(c):
    return common.bytesio_pos(c.entry, stream_of(c))


def pos1(c):
    return common.bytesio_pos(c.st, stream_of(c, c.st))


def req_stream(c):
    """materialise the ghost position (shared by the entry snapshot); the stream is finite."""
    s = stream_of(c, c.st)
    t = common.bytesio_pos(c.st, s)
    c.entry.ghost[common.pos_key(s)] = t
    return SLEN(s.t) >= 0


def frame_stream(ex, st, ctx):
    common.havoc_pos(ex, st, stream_of(ctx, st))


def reader_contract(name, nbytes, value, width):
    """fixed-width little-endian reader: value(s, p) is the spec term."""
    def S(c):
        return stream_of(c).t
    return FnContract(
        target=f"{RD}.{name}", params=[("self", p_reader())], requires=req_stream, frame=frame_stream,
        returns=lambda c: VInt(value(S(c), pos0(c))),
        ensures=[("consumes-exactly-its-width", lambda c: pos1(c) == pos0(c) + nbytes),
                 ("returns-only-if-enough-bytes", lambda c: pos0(c) + nbytes <= SLEN(S(c)))],
        raises=[Raises(BAD, when=lambda c: pos0(c) + nbytes > SLEN(S(c)), label="short stream")],
        note=f"little-endian unsigned {width}-bit integer at the stream position")


def le(s, p, n):
    bs = [SB(s, p + i) for i in range(n)]
    return bs[0] if n == 1 else z3.Concat(*reversed(bs))


def byte_contracts():
    out = []

    def n_of(c):
        return ops.int_term(c.args["n"])

    def rb_returns(c):
        s, p, n = stream_of(c).t, pos0(c), c.args["n"]
        k = n.const()
        if k is not None:
            return VBytes([VInt(SB(s, z3.simplify(p + i))) for i in range(k)])
        return VSeq(ops.int_term(n), lambda i: VInt(SB(s, p + i)), "byte", True)

    out.append(FnContract(
        target=f"{RD}._read_bytes",
        params=[("self", p_reader()), ("n", p_alts(p_const(1), p_const(2), p_const(4), p_const(8), p_int(0)))],
        requires=lambda c: z3.And(req_stream(c), n_of(c) >= 0), frame=frame_stream,
        returns=rb_returns,
        ensures=[("consumes-exactly-n", lambda c: pos1(c) == pos0(c) + n_of(c)),
                 ("returns-only-if-enough-bytes", lambda c: z3.Or(n_of(c) == 0, pos0(c) + n_of(c) <= SLEN(stream_of(c).t)))],
        raises=[Raises(BAD, when=lambda c: pos0(c) + n_of(c) > SLEN(stream_of(c).t), label="short stream")],
        note="the n bytes at the stream position, or Bad7zFile when fewer remain"))
    out.append(reader_contract("_read_uint8", 1, lambda s, p: le(s, p, 1), 8))
    out.append(reader_contract("_read_uint32", 4, lambda s, p: le(s, p, 4), 32))
    out.append(reader_contract("_read_uint64", 8, lambda s, p: le(s, p, 8), 64))

    def S(c):
        return stream_of(c).t

    out.append(FnContract(
        target=f"{RD}._read_number", params=[("self", p_reader())], requires=req_stream, frame=frame_stream,
        returns=lambda c: VInt(NUMV(S(c), pos0(c))),
        ensures=[("consumes-exactly-the-encoding", lambda c: pos1(c) == pos0(c) + NUML(S(c), pos0(c))),
                 ("returns-only-if-enough-bytes", lambda c: pos0(c) + NUML(S(c), pos0(c)) <= SLEN(S(c)))],
        raises=[Raises(BAD, when=lambda c: pos0(c) + NUML(S(c), pos0(c)) > SLEN(S(c)), label="short stream")],
        note="7z NUMBER: leading 1-bits of the first byte = number of extra little-endian bytes; "
             "the 8-step loop is `for i in range(8)` (exact unrolling, no unwinding assumption needed)"))
    out.append(FnContract(
        target=f"{RD}._seek_back_one", params=[("self", p_reader())],
        requires=lambda c: z3.And(req_stream(c), pos0(c) >= 1), frame=frame_stream,
        ensures=[("position-minus-one", lambda c: pos1(c) == pos0(c) - 1)], raises=[]))
    return out


def contracts(reg):
    install_stream(reg)
    out = []
    out.extend(byte_contracts())
    return out


def lemmas():
    out = []
    # known answers for the NUMBER spec (guards the spec transcription itself)
    kat = [(b"\x00", 0, 1), (b"\x7f", 127, 1), (b"\x80\x80", 128, 2), (b"\xbf\xff", 0x3FFF, 2), (b"\xc0\x00\x40", 0x4000, 3),
           (b"\xfe" + bytes(range(1, 8)), int.from_bytes(bytes(range(1, 8)), "little"), 8),
           (b"\xff" + bytes(range(1, 9)), int.from_bytes(bytes(range(1, 9)), "little"), 9),
           (b"\xe1\x02\x03\x04", (1 << 24) + 0x040302, 4)]
    s = z3.Const("s!kat", Stream)
    for i, (data, v, n) in enumerate(kat):
        hyp = [SB(s, z3.IntVal(j)) == bv(b) for j, b in enumerate(data + b"\x00" * 9)]
        out.append((f"C10/spec::7z-NUMBER/lemma#known-answer.{i}", hyp,
                    z3.And(NUMV(s, z3.IntVal(0)) == bv(v, 64), NUML(s, z3.IntVal(0)) == n, z3.BoolVal(number_python(data) == (v, n)))))
    return out


EXECUTOR = Executor
EXECUTOR_KW = {}
TRUSTED = []
ASSUMED_MODELS = ["io.BytesIO.read/seek/tell on the header stream (bytes [pos, min(pos+n, len)), position advanced)",
                  "struct.unpack('<B'/'<H'/'<I'/'<Q'): little-endian unsigned"]
ASSUMPTIONS = ["PY-INT with exact bit-vector encoding"]
BOUNDED = []
