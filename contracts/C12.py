"""C12 -- extraction cost bounded by input; explicit limits hold exactly.

Decided here (DESIGN §3 C12): (a) the explicit limits as exact contracts --
read_file's max_file_size (0 disables), the 7z archive limit, the per-member
size checks dominating every member read; (b) *amplification sites*: every
repetition `seq * n` / `str * n` in own code whose count comes from the input
gets the obligation `n <= REPEAT_CAP` on that path.  Peak memory / run time as
quantities, and amplification inside third-party code (olefile, lzma, openpyxl)
are NOT decidable by contracts on this repository (stated in evidence).
"""
import ast

import z3

from pyvc import loader, ops
from pyvc.contracts import FnContract, Raises
from pyvc.flow import MustFacts, dotted, ground_obligation
from pyvc.symex import Executor
from pyvc.values import NONE, VBool, VExt, VInt, VRef, VSeq, VStr, VTuple, VUnk, ext_sort, fresh_name
from pyvc.verify import p_ext, p_int, p_opt, p_str, p_unk, Maker
from contracts import common, readfile

ARCH = "sharepoint2text/parsing/extractors/archive_extractor.py"
ODS = "sharepoint2text/parsing/extractors/open_office/ods_extractor.py"
SHARED = "sharepoint2text/parsing/extractors/open_office/_shared.py"
TOOLARGE = "ExtractionFileTooLargeError"
REPEAT_CAP = 1_048_576          # the largest repeat count a well-formed sheet can need (ODF/Excel row limit)
BSIZE = z3.Function("bytesio_size", ext_sort("BytesIO"), z3.IntSort())


class AmpExecutor(readfile.ReadFileExecutor):
    """Adds the amplification obligation at every repetition with a symbolic count."""

    def b_int(self, st, args, kwargs, node):
        if args and isinstance(args[0], VUnk):
            self.exc_any(st.fork(), f"{self.loc(node)} int(unknown)")
            return [(st, VInt(z3.Int(fresh_name("int_from_input"))))]
        return super().b_int(st, args, kwargs, node)

    def mult_ordinal(self, node):
        """Ordinal of this `*` among the multiplications of the enclosing function (stable under line shifts)."""
        fnode = self.cur_fn_stack[-1] if self.cur_fn_stack else None
        if fnode is None:
            return 0
        mults = [n for n in ast.walk(fnode) if isinstance(n, ast.BinOp) and isinstance(n.op, ast.Mult)]
        mults.sort(key=lambda n: (n.lineno, n.col_offset))
        for i, n in enumerate(mults):
            if n is node:
                return i
        return 0

    def binop(self, st, op, a, b, node, inplace=False):
        if op == "Mult":
            for seq, n in ((a, b), (b, a)):
                seq_like = isinstance(seq, (VStr, VTuple)) or (isinstance(seq, VRef) and st.obj(seq.ref).kind in ("list", "bytearray"))
                if seq_like and isinstance(n, (VInt, VUnk)) and (isinstance(n, VUnk) or n.const() is None):
                    nt = ops.int_term(n) if isinstance(n, VInt) else z3.Int(fresh_name("unknown_count"))
                    self.add_vc("amp-bounded", f"repeat-site-{self.mult_ordinal(node)}", st.pc, nt <= REPEAT_CAP,
                                note=f"{self.loc(node)} repetition count comes from the input and is not bounded on this path", loc=self.loc(node))
                    if isinstance(seq, VStr):
                        return [(st, VStr(z3.String(fresh_name("repeated"))))]
                    return [(st, VUnk("repeated"))]
        return super().binop(st, op, a, b, node, inplace)


EXECUTOR = AmpExecutor
EXECUTOR_KW = {}


def m_seek2(ex, st, obj, args, kwargs, node):
    """BytesIO.seek(off[, whence]): whence=os.SEEK_END positions at the size of the buffer."""
    if len(args) == 2:
        st.assume(BSIZE(obj.t) >= 0)
        st.ghost[common.pos_key(obj)] = BSIZE(obj.t) + ops.int_term(args[0]) if isinstance(args[0], VInt) else BSIZE(obj.t)
        return [(st, VInt(st.ghost[common.pos_key(obj)]))]
    return common.m_seek(ex, st, obj, args, kwargs, node)


def contracts(reg):
    readfile.install(reg)
    common.install_bytesio(reg)
    common.install_clock(reg)
    reg.method_models[("BytesIO", "seek")] = m_seek2
    reg.ext_models[("const", "os.SEEK_END")] = VInt(2)
    out = []
    from contracts import C07
    for c in C07.contracts(reg):
        if c.target.startswith(C07.ROUTER):
            c.assumed = True
            c.note = "verified by the C07 pack"
            out.append(c)

    # ---- read_file: refuses exactly files larger than max_file_size (0 or negative disables), before opening
    def the_path(c):
        ids = c.st.ghost.get("paths_from_param", frozenset())
        for k, v in c.st.ghost.items():
            if isinstance(k, tuple) and k[0] == "stat_of":
                return v
        return None

    def too_large(c):
        p = the_path(c)
        if p is None:
            return z3.BoolVal(False)
        m = c.args["max_file_size"].t
        return z3.And(m > 0, readfile.FSIZE(p) > m)

    def own_raise(c):
        return c.exc is not None and "site" not in c.exc.attrs

    def rf_toolarge(c):
        if c.exc is None:
            return z3.BoolVal(True)
        if own_raise(c):
            return z3.And(too_large(c), z3.BoolVal(c.st.ghost.get("opened", 0) == 0))
        return z3.Not(too_large(c))     # raised by the extractor itself (e.g. 7z archive limit): only if the file passed the check

    def rf_other(c):
        if c.exc is None:
            return z3.BoolVal(True)
        if c.exc.attrs.get("site") == "Path.stat":
            return z3.BoolVal(True)      # size unknown: stat() itself failed
        return z3.Not(too_large(c))

    out.append(FnContract(
        target=f"{readfile.INIT}::read_file",
        params=[("path", p_str()), ("max_file_size", p_int(default=100 * 1024 * 1024))],
        generator=True,
        ensures=[("accepted-only-within-limit", lambda c: z3.Not(too_large(c))),
                 ("size-taken-from-stat-of-the-given-path-when-limit-enabled",
                  lambda c: z3.BoolVal(True) if the_path(c) is not None else c.args["max_file_size"].t <= 0)],
        raises=[Raises(TOOLARGE, when=rf_toolarge, label="too large: before the file is opened"),
                Raises("Exception", sub=True, when=rf_other, label="anything else only if the size check passed")],
        note="size > max_file_size > 0  <=>  ExtractionFileTooLargeError before open(); max_file_size <= 0 disables the check",
    ))
    EXECUTOR_KW[f"{readfile.INIT}::read_file"] = {"abstract": True, "inline_calls": False, "inline_local": True}

    # ---- 7z archive limit: > MAX_7Z_FILE_SIZE refused before the archive is parsed; == accepted
    arch = loader.module(ARCH)
    max7z = ast.literal_eval(ast.unparse(arch.assigns["MAX_7Z_FILE_SIZE"])) if isinstance(arch.assigns["MAX_7Z_FILE_SIZE"], ast.Constant) else eval(compile(ast.Expression(arch.assigns["MAX_7Z_FILE_SIZE"]), "x", "eval"), {})

    def new_7z(ex, st, args, kwargs, node):
        st.ghost["sevenzip_opened"] = st.ghost.get("sevenzip_opened", 0) + 1
        ex.exc_any(st.fork(), f"{ex.loc(node)} SevenZipFile()")
        return [(st, VUnk("SevenZipFile"))]

    reg.ext_models[("new", "SevenZipFile")] = new_7z
    reg.ext_models[("new", "sharepoint2text.parsing.extractors.util.sevenzip.SevenZipFile")] = new_7z

    def big7(c):
        return BSIZE(c.args["file_like"].t) > max7z

    def z7_toolarge(c):
        if c.exc is None:
            return z3.BoolVal(True)
        if "site" not in c.exc.attrs:
            return z3.And(big7(c), z3.BoolVal(c.st.ghost.get("sevenzip_opened", 0) == 0))
        return z3.Not(big7(c))

    out.append(FnContract(
        target=f"{ARCH}::_extract_from_7z_optimized",
        params=[("file_like", p_ext("BytesIO")), ("archive_path", p_opt(p_str()))],
        requires=lambda c: BSIZE(c.args["file_like"].t) >= 0,
        generator=True,
        ensures=[("accepted-only-within-archive-limit", lambda c: z3.Not(big7(c)))],
        raises=[Raises(TOOLARGE, when=z7_toolarge, label="archive above the limit: refused before it is parsed"),
                Raises("Exception", sub=True, when=lambda c: z3.BoolVal(True) if c.exc is None else z3.Not(big7(c)))],
        note=f"archive size > {max7z} bytes  <=>  ExtractionFileTooLargeError before SevenZipFile is constructed",
    ))
    EXECUTOR_KW[f"{ARCH}::_extract_from_7z_optimized"] = {"abstract": True, "inline_calls": False}

    # ---- amplification sites (ODF text:s count, ODS repeated cells / rows)
    def elem_params(names):
        return [(n, p_unk()) for n in names]

    out.append(FnContract(
        target=f"{SHARED}::_append_element_text",
        params=[("element", p_unk()), ("parts", p_unk()), ("text_space_tag", p_unk()), ("text_tab_tag", p_unk()),
                ("text_line_break_tag", p_unk()), ("attr_text_c", p_unk()), ("skip_tags", p_unk())],
        raises=[Raises("Exception", sub=True)], modifies=("parts",),
        note="amplification obligation at the space-repetition site (text:s count)",
    ))
    EXECUTOR_KW[f"{SHARED}::_append_element_text"] = {"abstract": True, "inline_calls": False}
    out.append(FnContract(
        target=f"{ODS}::_extract_sheet",
        params=[("ctx", p_unk()), ("table", p_unk()), ("sheet_number", p_int()), ("image_counter", p_int())],
        raises=[Raises("Exception", sub=True)],
        note="amplification obligations at the repeated-cell / repeated-row expansion sites",
    ))
    EXECUTOR_KW[f"{ODS}::_extract_sheet"] = {"abstract": True, "inline_calls": False, "merge": True}
    return out


# ------------------------------------------------------------------ policy --
def policy(repo, tier):
    obls, fns = [], []
    arch = loader.module(ARCH, repo)

    def size_guard(fn_name, size_expr_ok, read_pred, label):
        f = arch.functions.get(fn_name)
        if f is None:
            obls.append(ground_obligation(f"C12/archive_extractor.py::{fn_name}/typestate#{label}", False, "function missing", definite=False))
            return
        def gen_cond(test, branch):
            t = ast.unparse(test)
            if size_expr_ok(t) and branch is False:
                return ["within-member-limit"]
            return []
        mf = MustFacts(gen_cond=gen_cond, need=lambda n: [("within-member-limit", f"line {n.lineno}")] if isinstance(n, ast.Call) and read_pred(n) else [],
                       kill_names=lambda fact: ["info", "member", "file_info", "file_data"])
        res = mf.run(f)
        obls.append(ground_obligation(f"C12/archive_extractor.py::{fn_name}/typestate#{label}", bool(res) and all(r.ok for r in res),
                                      "; ".join(r.desc for r in res if not r.ok) or f"{len(res)} read site(s) dominated", ARCH))
        fns.append(dict(arch.fn_info(fn_name), obligations=1))

    from contracts import archive_guards
    for o, info in archive_guards.zip_and_tar("C12", repo):
        obls.append(o)
        if info:
            fns.append(dict(info, obligations=1))
    # the declared size is the size that is read only for regular members (links declare 0 and read their target)
    f = arch.functions.get("_extract_from_tar_optimized")
    if f is not None:
        def gen_cond(test, branch):
            t = ast.unparse(test)
            if t == "not member.isreg()" and branch is False:
                return ["isreg(member)"]
            if t == "member.isreg()" and branch is True:
                return ["isreg(member)"]
            return []
        mf = MustFacts(gen_cond=gen_cond,
                       need=lambda n: [("isreg(member)", f"line {n.lineno}")] if isinstance(n, ast.Call) and isinstance(n.func, ast.Attribute)
                       and n.func.attr == "extractfile" else [], kill_names=lambda fact: ["member"])
        res = mf.run(f)
        obls.append(ground_obligation("C12/archive_extractor.py::_extract_from_tar_optimized/typestate#size-check-applies-to-regular-members-only",
                                      bool(res) and all(r.ok for r in res), "; ".join(r.desc for r in res if not r.ok), ARCH))
    size_guard("_process_archive_entry", lambda t: t == "len(file_data) > MAX_ARCHIVE_FILE_SIZE",
               lambda n: dotted(n.func) in ("extractor", "_get_file_extractor_cached"),
               "entry-size-check-dominates-extraction")
    # 7z: members above the limit must not be decompressed: extraction must be restricted to the selected members
    f = arch.functions.get("_extract_from_7z_optimized")
    ok, why = False, "function missing"
    if f is not None:
        calls = [n for n in ast.walk(f) if isinstance(n, ast.Call) and isinstance(n.func, ast.Attribute) and n.func.attr in ("extractall", "extract")]
        unrestricted = [n for n in calls if not any("files_to_process" in ast.unparse(a) for a in list(n.args) + [k.value for k in n.keywords])]
        ok = bool(calls) and not unrestricted
        why = "; ".join(f"line {n.lineno}: {ast.unparse(n)} decompresses and writes every member, not only the ones that passed the size filter" for n in unrestricted)
    obls.append(ground_obligation("C12/archive_extractor.py::_extract_from_7z_optimized/policy#oversize-members-are-not-decompressed", ok, why, ARCH))
    # constants are the documented ones
    def const(name):
        try:
            return eval(compile(ast.Expression(arch.assigns[name]), "x", "eval"), {})
        except Exception:  # noqa
            return None
    obls.append(ground_obligation("C12/archive_extractor.py::limits/module-invariant#documented-values",
                                  const("MAX_7Z_FILE_SIZE") == 100 * 1024 * 1024 and const("MAX_MEMORY_SIZE") == 10 * 1024 * 1024
                                  and const("MAX_ARCHIVE_FILE_SIZE") == 50 * 1024 * 1024,
                                  f"{const('MAX_7Z_FILE_SIZE')}, {const('MAX_MEMORY_SIZE')}, {const('MAX_ARCHIVE_FILE_SIZE')}", ARCH, kind="module-invariant", backend="ground"))
    # XML parsing goes through defusedxml
    zu = loader.module("sharepoint2text/parsing/extractors/util/zip_utils.py", repo)
    ok = zu.imports.get("ET", "").startswith("defusedxml")
    obls.append(ground_obligation("C12/zip_utils.py::read_zip_xml_root/policy#xml-parsed-with-defusedxml", ok, str(zu.imports.get("ET")), "zip_utils.py"))
    return {"obligations": obls, "functions": fns}


def _carve_task(key):
    def run(repo, tier):
        from contracts import c12_cost
        return c12_cost.carve_obligations(repo, tier, only=key)
    run.__name__ = f"carve[{key[0].split('/')[-1]}::{key[1]}#{key[2]}]"
    return run


def _cost(name):
    def run(repo, tier):
        from contracts import c12_cost
        return getattr(c12_cost, name)(repo, tier)
    run.__name__ = name
    return run


def _extra():
    from contracts import c12_cost
    return [policy, _cost("self_suffix_obligations"), _cost("xml_policy"), _cost("nested_scan_obligations")] + [_carve_task(k) for k in c12_cost.carve_tasks()]


EXTRA = _extra()


def known_findings(kf, violations, repo, tier):
    """Recorded genuine defects (known_findings.json): replay each witness natively; a finding that still
    fails prints KNOWN-FINDING and covers exactly its own obligation id(s)."""
    import json
    import os
    import subprocess
    out = []
    vio_ids = {v["id"] for v in violations}
    for f in kf:
        req = {"property": "C12", "obligation": f["obligation"], "known_finding": f["id"], "witness": f.get("witness"), "repo": repo}
        try:
            p = subprocess.run(["/venv/bin/python", os.path.join(os.path.dirname(os.path.dirname(os.path.abspath(__file__))), "replay", "run.py")],
                               input=json.dumps(req), capture_output=True, text=True, timeout=600, env=dict(os.environ, VERIF_REPO=repo))
            lines = [l for l in p.stdout.splitlines() if l.startswith("{")]
            res = json.loads(lines[-1]) if lines else {"reproduced": False}
        except Exception as e:  # noqa
            res = {"reproduced": False, "note": str(e)}
        still = bool(res.get("reproduced"))
        covers = [o for o in f.get("covers", [f["obligation"]]) if o in vio_ids] if still else []
        out.append({"finding": f["id"], "still_fails": still, "line": f"{f['id']}: {f['what']}", "covers": covers,
                    "witness_replay": res.get("observed", res.get("note", ""))})
    return out


TRUSTED = ["defusedxml forbids entity expansion", "stat().st_size is the size read_file would read"]
ASSUMED_MODELS = ["pathlib.Path.stat/st_size", "open()", "io.BytesIO.seek/tell (position, SEEK_END = size)", "router contracts (C07)"]
BOUNDED = []
ASSUMPTIONS = ["peak memory and run time as quantities are not decided (not expressible as contracts); what is decided are the structural causes of super-linear cost: "
               "unbounded repeat expansion (amp-bounded#repeat-site), overlapping carving of a scanned buffer (amp-bounded#carve-while-k: copies of different iterations "
               "are disjoint, so total copy size <= len(buffer)), per-iteration re-slicing (no-self-suffix-rebinding), nested re-scans (nested-scans-skip-the-part-handed-out); "
               "amplification inside olefile / lzma / deflate / openpyxl is not decided",
               f"a repetition count is 'bounded' when <= {REPEAT_CAP} on its path", "EXC-ANY", "policy obligations decided by AST dominance analysis"]

REPLAY_UNKNOWN = True    # undecided / out-of-subset items are searched natively (replay) before being reported UNDECIDED
