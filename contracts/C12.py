"""C12 -- extraction cost bounded by input; explicit limits hold exactly.

Decided here (DESIGN §3 C12): (a) the explicit limits as exact contracts --
read_file's max_file_size (0 disables), the 7z archive limit, the per-member
size checks dominating every member read; (b) *amplification sites*: every
repetition `seq * n` / `str * n` in own code whose count comes from the input
gets the obligation `n <= REPEAT_CAP` on that path.  Peak memory / run time as
quantities, and amplification inside third-party code (olefile, lzma, openpyxl)
are NOT decidable by contracts on this repository (stated in evidence).
"""
import ast
import re

import z3

from pyvc import loader, ops
from pyvc.contracts import FnContract, Raises
from pyvc.flow import MustFacts, dotted, ground_obligation
from pyvc.ops import Unsupported
from pyvc.state import HeapObj
from pyvc.symex import Executor, PathLimit
from pyvc.values import NONE, VBool, VExt, VFunc, VInt, VRef, VSeq, VStr, VTuple, VUnk, ext_sort, fresh_name
from pyvc.verify import p_ext, p_int, p_opt, p_str, p_unk, Maker
from contracts import common, readfile

ARCH = "sharepoint2text/parsing/extractors/archive_extractor.py"
ODS = "sharepoint2text/parsing/extractors/open_office/ods_extractor.py"
SHARED = "sharepoint2text/parsing/extractors/open_office/_shared.py"
TOOLARGE = "ExtractionFileTooLargeError"
REPEAT_CAP = 1_048_576          # the largest repeat count a well-formed sheet can need (ODF/Excel row limit)
BSIZE = z3.Function("bytesio_size", ext_sort("BytesIO"), z3.IntSort())


# A VC whose path is over-approximated (it branched on the truth of an unknown value, went through a state join, or bounds a
# count of unknown origin) carries this marker in its goal: a solver model of such a VC is not a counterexample of the real code
# (solve.SAT_UNTRUSTED), the obligation is `unknown` and the native replayer decides.  Proofs are unaffected.
# (an uninterpreted *application*, so that pyvc.solve.random_refute does not instantiate it)
NOTDEF = z3.Function("c12!model-not-definite", z3.IntSort(), z3.BoolSort())(z3.IntVal(0))
JOINED = z3.Bool("truth!state-join")


def _mentions(exprs, pred):
    seen, stack = set(), list(exprs)
    while stack:
        x = stack.pop()
        i = x.get_id()
        if i in seen:
            continue
        seen.add(i)
        if z3.is_quantifier(x):
            stack.append(x.body())
            continue
        if z3.is_app(x):
            if pred(x):
                return True
            stack.extend(x.children())
    return False


def _indefinite_path(pc):
    """The path condition mentions the truth of an unknown value (fresh `truth!k`) or a state join."""
    return _mentions(pc, lambda x: x.num_args() == 0 and x.decl().kind() == z3.Z3_OP_UNINTERPRETED and z3.is_bool(x) and _UNKNOWN_BOOL.match(x.decl().name()) is not None)


def _untrusted(pc, goal):
    return _mentions([goal], lambda x: x.decl().name().startswith("c12!"))


from pyvc import solve as _solve  # noqa: E402
if _untrusted not in _solve.SAT_UNTRUSTED:
    _solve.SAT_UNTRUSTED.append(_untrusted)

# fresh Booleans the engine introduces for the truth / comparison / membership / type test of an unknown value
_UNKNOWN_BOOL = re.compile(r"^(truth|isnone|cmp|in|callable|isinstance|hasattr|isdigit|isalpha|isalnum|isspace|isupper|islower)!")
_ATTR_SRC = re.compile(r"^int_from_input\[(.*)\]!\d+$")


def _attr_sources(term):
    """-> (input attributes an integer term is computed from, names of its other free constants)."""
    srcs, other = set(), []

    def visit(x):
        if x.num_args() == 0 and x.decl().kind() == z3.Z3_OP_UNINTERPRETED:
            m = _ATTR_SRC.match(x.decl().name())
            if m:
                srcs.update(a for a in m.group(1).split("+") if a)
            else:
                other.append(x.decl().name())
        return False
    _mentions([term], visit)
    return srcs, other


def size_only(e, fnode, mod, depth=0, seen=None):
    """The integer expression `e` of function `fnode` is computed only from sizes of objects that already exist in memory: constants,
    `len(..)`, `+ - //`, `max/min` (also over a generator of such), conditional expressions, `range()` indices, local names ALL of whose
    bindings are such expressions, parameters for which EVERY call site in the module passes such an expression, and calls of
    module functions ALL of whose `return`s are such.  No number decoded from the input (`int()`, attribute / struct values, products)
    can reach it: a repetition with such a count allocates at most what the data already occupies (padding rows to the width of the
    widest materialised row).  Flow-insensitive and deliberately narrow: anything else -> False (the obligation stays as it was)."""
    seen = set() if seen is None else seen
    if depth > 8 or e is None:
        return False
    if isinstance(e, ast.Constant):
        return isinstance(e.value, int) and not isinstance(e.value, bool)
    if isinstance(e, ast.BinOp) and isinstance(e.op, (ast.Add, ast.Sub, ast.FloorDiv)):
        return size_only(e.left, fnode, mod, depth + 1, seen) and size_only(e.right, fnode, mod, depth + 1, seen)
    if isinstance(e, ast.UnaryOp) and isinstance(e.op, (ast.USub, ast.UAdd)):
        return size_only(e.operand, fnode, mod, depth + 1, seen)
    if isinstance(e, ast.IfExp):
        return size_only(e.body, fnode, mod, depth + 1, seen) and size_only(e.orelse, fnode, mod, depth + 1, seen)
    if isinstance(e, ast.Call) and isinstance(e.func, ast.Name):
        if e.func.id == "len" and len(e.args) == 1 and not e.keywords:
            return True
        if e.func.id in ("max", "min") and e.args:
            ok = True
            for a in e.args:
                if isinstance(a, (ast.GeneratorExp, ast.ListComp)):
                    ok = ok and not any(isinstance(x, ast.NamedExpr) for x in ast.walk(a)) and size_only(a.elt, fnode, mod, depth + 1, seen)
                else:
                    ok = ok and size_only(a, fnode, mod, depth + 1, seen)
            return ok and all(k.arg == "default" and size_only(k.value, fnode, mod, depth + 1, seen) for k in e.keywords)
        g = mod.functions.get(e.func.id)
        if g is not None and g is not fnode and ("fn", e.func.id) not in seen:
            seen = seen | {("fn", e.func.id)}
            rets = [x for x in _own_nodes(g) if isinstance(x, ast.Return)]
            if any(isinstance(x, (ast.Yield, ast.YieldFrom)) for x in _own_nodes(g)) or not rets:
                return False
            return all(size_only(r.value, g, mod, depth + 1, seen) for r in rets)
        return False
    if isinstance(e, ast.Name):
        key = ("name", id(fnode), e.id)
        if key in seen:
            return True            # a cycle (`w = w - 1`) adds nothing new
        seen = seen | {key}
        params = [a.arg for a in fnode.args.posonlyargs + fnode.args.args + fnode.args.kwonlyargs]
        binds, ok_target = [], True
        for x in _own_nodes(fnode):
            if isinstance(x, ast.Assign) and any(isinstance(t, ast.Name) and t.id == e.id for t in x.targets):
                binds.append(x.value)
            elif isinstance(x, ast.AnnAssign) and isinstance(x.target, ast.Name) and x.target.id == e.id and x.value is not None:
                binds.append(x.value)
            elif isinstance(x, ast.AugAssign) and isinstance(x.target, ast.Name) and x.target.id == e.id:
                if not isinstance(x.op, (ast.Add, ast.Sub, ast.FloorDiv)):
                    return False
                binds.append(x.value)
            elif isinstance(x, (ast.For, ast.comprehension)) and isinstance(x.target, ast.Name) and x.target.id == e.id:
                it = x.iter
                if isinstance(it, ast.Call) and isinstance(it.func, ast.Name) and it.func.id == "range" and it.args and not it.keywords:
                    binds.extend(it.args)
                else:
                    return False
            elif isinstance(x, ast.Name) and x.id == e.id and isinstance(x.ctx, ast.Store):
                par = None
                # any other binding form (tuple unpacking, with-as, walrus, except-as): not followed
                ok_target = ok_target and any(isinstance(y, (ast.Assign, ast.AnnAssign, ast.AugAssign, ast.For, ast.comprehension)) and
                                              (x in (getattr(y, "targets", None) or [getattr(y, "target", None)])) for y in _own_nodes(fnode))
        if not ok_target:
            return False
        if e.id in params:
            k = params.index(e.id)
            sites = []
            for q, g in mod.functions.items():
                for c in _own_nodes(g):
                    if isinstance(c, ast.Call) and isinstance(c.func, ast.Name) and mod.functions.get(c.func.id) is fnode:
                        sites.append((g, c))
            if not sites:
                return False
            for (g, c) in sites:
                if any(isinstance(a, ast.Starred) for a in c.args) or any(kw.arg is None for kw in c.keywords):
                    return False
                actual = c.args[k] if k < len(c.args) else next((kw.value for kw in c.keywords if kw.arg == e.id), None)
                if actual is None:
                    d = fnode.args.defaults
                    pos = fnode.args.posonlyargs + fnode.args.args
                    j = k - (len(pos) - len(d))
                    actual = d[j] if 0 <= j < len(d) and k < len(pos) else None
                if actual is None or not size_only(actual, g, mod, depth + 1, seen):
                    return False
        elif not binds:
            cst = mod.assigns.get(e.id)
            return isinstance(cst, ast.Constant) and isinstance(cst.value, int) and not isinstance(cst.value, bool)
        return all(size_only(b, fnode, mod, depth + 1, seen) for b in binds)
    return False


def _own_nodes(fnode):
    stack = list(ast.iter_child_nodes(fnode))
    while stack:
        n = stack.pop()
        yield n
        if not isinstance(n, (ast.FunctionDef, ast.AsyncFunctionDef, ast.Lambda, ast.ClassDef)):
            stack.extend(ast.iter_child_nodes(n))


class AmpExecutor(readfile.ReadFileExecutor):
    """Adds the amplification obligation at every repetition with a symbolic count."""

    def __init__(self, *a, only_repeat_helpers=False, helper_arg_sorts=None, header=None, **k):
        super().__init__(*a, **k)
        self.header = header                                # 7z header-parser mode (contracts/c12_7zheader.py)
        self.only_repeat_helpers = only_repeat_helpers      # inline_local only for helpers that contain a repetition
        self.helper_arg_sorts = helper_arg_sorts            # inline_local only for helpers that receive an object of these sorts

    def add_vc(self, kind, label, pc, goal, note="", loc=""):
        if _indefinite_path(pc):
            g = goal.t if isinstance(goal, VBool) else (z3.BoolVal(goal) if isinstance(goal, bool) else goal)
            goal = z3.Or(g, NOTDEF)
        return super().add_vc(kind, label, pc, goal, note, loc)

    # ---- comprehensions the engine does not follow: no havoc of the enclosing locals
    def _comprehension(self, n, st, sup):
        """A comprehension / generator expression over a symbolic iterable is outside the engine's subset; its generic abstraction
        havocs every local.  A comprehension cannot rebind a name of the enclosing function (unless it contains a walrus): its
        value is unknown, it may raise, calls inside it may mutate heap objects -- the enclosing locals keep their values."""
        npc = len(st.pc)
        try:
            return sup(n, st)
        except Unsupported as e:
            if not self.abstract or any(isinstance(x, ast.NamedExpr) for x in ast.walk(n)):
                raise
            del st.pc[npc:]
            self.abstracted.append(str(e)[:160])
            if any(isinstance(x, ast.Call) for x in ast.walk(n)):
                for r in list(st.heap):
                    o = st.heap[r]
                    st.heap[r] = HeapObj("unk", None, o.cls, o.fresh)
            self.exc_any(st.fork(), f"{self.loc(n)} abstracted comprehension")
            return [(st, VUnk("comprehension"))]

    def e_ListComp(self, n, st):
        return self._comprehension(n, st, super().e_ListComp)

    def e_GeneratorExp(self, n, st):
        return self._comprehension(n, st, super().e_GeneratorExp)

    def e_SetComp(self, n, st):
        return self._comprehension(n, st, super().e_SetComp)

    def e_DictComp(self, n, st):
        return self._comprehension(n, st, super().e_DictComp)

    # ---- 7z header-parser mode: methods of the object under verification (contracts/c12_7zheader.py)
    def obj_method(self, st, obj, name, args, kwargs, node):
        if self.header is None:
            return super().obj_method(st, obj, name, args, kwargs, node)
        from contracts import c12_7zheader
        o = st.obj(obj.ref)
        q = f"{o.cls}.{name}"
        if self.reg.get(f"{self.module.rel}::{q}") is not None:
            # a method under contract with a count parameter: an argument that is a size of an object that already exists meets the
            # requirement by the round-5 rule (`size_only` on the real AST of the call site)
            cur = self.cur_fn_stack[-1] if self.cur_fn_stack else None
            arg0 = node.args[0] if isinstance(node, ast.Call) and node.args else None
            flag = False
            try:
                flag = bool(cur is not None and arg0 is not None and not isinstance(arg0, ast.Constant) and size_only(arg0, cur, self.module))
            except RecursionError:
                flag = False
            if flag:
                st.ghost["c12_count_is_a_size"] = True
            try:
                res = super().obj_method(st, obj, name, args, kwargs, node)
            finally:
                st.ghost.pop("c12_count_is_a_size", None)
            for (s_, _v) in res:
                s_.ghost.pop("c12_count_is_a_size", None)
            return res
        # round 8: a small guard method (no loop, no value returned, raises on a condition over its integer arguments, stores nothing)
        # is executed in place -- the typed havoc below would forget the bound it establishes on a count passed to it
        if c12_7zheader.guard_method(self.module, q) and self.inline_depth < 2:
            snap = st.fork()
            try:
                return self.inline_repo(st, self.module.rel, q, [obj] + list(args), kwargs, node)
            except (Unsupported, PathLimit):
                st = snap
        r = c12_7zheader.method_call(self, st, VFunc("repo", self.module.rel, q), [obj] + list(args), kwargs, node)
        if r is not None:
            return r
        return super().obj_method(st, obj, name, args, kwargs, node)

    def call_method(self, st, obj, name, args, kwargs, node):
        # header mode: the object under verification after a loop cut / an unknown call is still an instance of its class
        if self.header is not None and isinstance(obj, VRef) and st.obj(obj.ref).kind == "unk" and st.obj(obj.ref).cls and \
                f"{st.obj(obj.ref).cls}.{name}" in self.module.functions:
            return self.obj_method(st, obj, name, args, kwargs, node)
        return super().call_method(st, obj, name, args, kwargs, node)

    def havoc_loop_state(self, st, body, spec):
        # header mode: the object under verification keeps its class and -- when nothing in the loop body (or in the methods of the
        # class it calls, three levels) stores to the stream attribute -- the binding of its stream; the position is anywhere
        keep = None
        sv = None
        if self.header is not None:
            try:
                from contracts import c12_7zheader as H
                sv = st.lookup("self")
                attr = self.header["stream"]
                o = st.obj(sv.ref) if isinstance(sv, VRef) else None
                if o is not None and o.kind == "obj" and isinstance(o.data, dict) and isinstance(o.data.get(attr), VExt):
                    stores = any(isinstance(n, ast.Attribute) and n.attr == attr and isinstance(n.ctx, (ast.Store, ast.Del)) for b in body for n in ast.walk(b))
                    for b in body:
                        for n in ast.walk(b):
                            if isinstance(n, ast.Call) and isinstance(n.func, ast.Attribute) and isinstance(n.func.value, ast.Name) and n.func.value.id == "self":
                                stores = stores or H.stores_attr(self.module, f"{o.cls}.{n.func.attr}", attr)
                            elif isinstance(n, ast.Call) and any(isinstance(a, ast.Name) and a.id == "self" for a in list(n.args) + [k.value for k in n.keywords]):
                                stores = True          # the object is handed to something else
                    if not stores:
                        keep = (o.cls, o.data[attr])
            except Exception:  # noqa
                keep = None
        r = super().havoc_loop_state(st, body, spec)
        if keep is not None and isinstance(sv, VRef):
            from contracts import common
            st.heap[sv.ref] = HeapObj("obj", {self.header["stream"]: keep[1]}, keep[0], False)
            if st.lookup("self") is not sv:
                st.frame.env["self"] = sv
            p_ = z3.Int(fresh_name("pos_in_loop"))
            st.assume(p_ >= 0)
            st.ghost[common.pos_key(keep[1])] = p_
        return r

    def try_concrete_while(self, s, st, limit=4096):
        # header mode: `while True:` loops that leave by a `break` on a value read from the stream are cut like any symbolic loop
        # (exact unrolling of a loop whose exit is symbolic forks at every step)
        if self.header is not None:
            return None
        return super().try_concrete_while(s, st, limit)

    # ---- local helpers executed in place; a helper the model breaks on stays an unknown call
    def call(self, st, f, args, kwargs, node):
        if isinstance(f, VFunc) and f.how == "repo" and not self.inline_calls and self.reg.get(f"{f.a}::{f.b}") is None and self.local_helper(f):
            if self.helper_arg_sorts is not None and not any((isinstance(a, VExt) and a.sort in self.helper_arg_sorts) or isinstance(a, VInt)
                                                             for a in list(args) + list((kwargs or {}).values())):      # the stream, or a size computed from it
                return self.havoc_call(st, f"repo:{f.b}", args, node)
            trial = st.fork()
            n_sink = len(self.sinks[-1])
            n_vcs = {k: len(o.vcs) for k, o in self.obls.items()}
            n_paths = self.paths
            try:
                return super().call(trial, f, args, kwargs, node)
            except (Unsupported, PathLimit):
                raise
            except Exception as e:  # noqa  -- a model / clause that does not fit the values at this call: not the code's fault
                del self.sinks[-1][n_sink:]
                for k in list(self.obls):
                    if k not in n_vcs:
                        del self.obls[k]
                    else:
                        del self.obls[k].vcs[n_vcs[k]:]
                self.paths = n_paths
                self.abstracted.append(f"{self.loc(node)} local helper {f.b} not executed in place ({type(e).__name__})")
                return self.havoc_call(st, f"repo:{f.b}", args, node)
        return super().call(st, f, args, kwargs, node)

    def merge_states(self, states):
        base = super().merge_states(states)
        if len(states) > 1:
            base.assume(JOINED)
            # an integer that differs between the joined states is widened to an arbitrary integer (not to an unknown value) and
            # keeps the input attributes it was read from: `n = 1 if raw is None else int(raw)`
            for fi, fr in enumerate(base.frames):
                for name, v in list(fr.env.items()):
                    if isinstance(v, VUnk) and (getattr(v, "tag", "") or "").startswith("merge:"):
                        vals = [s.frames[fi].env.get(name) if fi < len(s.frames) else None for s in states]
                        if all(isinstance(x, VInt) and not x.is_bv for x in vals):
                            srcs = set()
                            for x in vals:
                                srcs |= _attr_sources(x.t)[0]
                            fr.env[name] = VInt(z3.Int(fresh_name(f"int_from_input[{'+'.join(sorted(srcs))}]" if srcs else "int_of_unknown")))
        return base

    def get_attr(self, st, base, attr, node):
        # the value get_extractor returns is modelled as (module, function name): `extractor.__name__` is the function's name
        if attr in ("__name__", "__qualname__") and isinstance(base, VTuple) and len(base.items) == 2 and all(isinstance(x, VStr) for x in base.items):
            return [(st, base.items[1])]
        if attr == "__module__" and isinstance(base, VTuple) and len(base.items) == 2 and all(isinstance(x, VStr) for x in base.items):
            return [(st, base.items[0])]
        return super().get_attr(st, base, attr, node)

    def havoc_everything(self, st):
        if not st.ghost.get("opened"):
            st.ghost["c12_path_escaped"] = "abstracted expression"
        return super().havoc_everything(st)

    def havoc_call(self, st, what, args, node):
        # an unmodelled call that receives the path (or a string) may take the size of the file in a way the model does not see
        # (only before the file is opened: what happens to the content afterwards is not a size check)
        if not st.ghost.get("opened") and (what.startswith("Path.") or any(isinstance(a, VExt) and a.sort == "Path" or isinstance(a, VStr) and a.const() is None for a in args)):
            st.ghost["c12_path_escaped"] = what
        r = super().havoc_call(st, what, args, node)
        # `X.get(<constant attribute name>[, default])` on an unknown element: the value is that attribute of the input
        if isinstance(node, ast.Call) and isinstance(node.func, ast.Attribute) and node.func.attr == "get" and args and isinstance(args[0], VStr):
            k = args[0].const()
            if k:
                return [(s, VUnk("attr:" + k.rsplit("}", 1)[-1])) for (s, _v) in r]
        if isinstance(node, ast.Call) and isinstance(node.func, ast.Attribute) and node.func.attr == "get" and what.startswith("unknown:") and args:
            return [(s, VUnk("attr:")) for (s, _v) in r]      # an attribute whose name is not a constant here (a parameter)
        return r

    def b_int(self, st, args, kwargs, node):
        if args and isinstance(args[0], VUnk):
            self.exc_any(st.fork(), f"{self.loc(node)} int(unknown)")
            tag = getattr(args[0], "tag", "") or ""
            if tag.startswith("attr:"):
                return [(st, VInt(z3.Int(fresh_name(f"int_from_input[{tag[5:]}]"))))]
            return [(st, VInt(z3.Int(fresh_name("int_of_unknown"))))]
        return super().b_int(st, args, kwargs, node)

    def b_len(self, st, args, kwargs, node):
        if args and isinstance(args[0], VExt) and args[0].sort == "BytesIOContent":
            b = st.ghost.get(("content_of", args[0].t.get_id()))
            if b is not None:
                return [(st, VInt(BSIZE(b)))]
        return super().b_len(st, args, kwargs, node)

    def local_helper(self, f):
        """Any small function of the module under verification that has no contract of its own is executed in place (the engine's
        rule asks for a leading underscore; a helper is a helper whatever its name).  `only_repeat_helpers`: inline_local restricted to the helpers that matter for the amplification obligations: a helper is
        executed in place when it (or a local helper it calls) contains a repetition `*`; everything else stays an unknown call."""
        if not getattr(self, "inline_local", False) or f.a != self.module.rel or self.inline_depth >= 3:
            return False
        name = f.b.split(".")[-1]
        if name.startswith("__"):
            return False
        fnode = self.module.functions.get(f.b)
        if fnode is None or any(fnode is x for x in self.cur_fn_stack) or sum(1 for _ in ast.walk(fnode)) > 700:
            return False
        if not self.only_repeat_helpers:
            return True
        return self._has_repeat(f.b, 0)

    def _has_repeat(self, qual, depth):
        fnode = self.module.functions.get(qual)
        if fnode is None or depth > 3:
            return False
        for n in ast.walk(fnode):
            if isinstance(n, ast.BinOp) and isinstance(n.op, ast.Mult) and not (isinstance(n.left, ast.Constant) and isinstance(n.right, ast.Constant)):
                return True
            if isinstance(n, ast.AugAssign) and isinstance(n.op, ast.Mult):
                return True
        for n in ast.walk(fnode):
            if isinstance(n, ast.Call) and isinstance(n.func, ast.Name) and n.func.id.startswith("_") and n.func.id != qual and n.func.id in self.module.functions:
                if self._has_repeat(n.func.id, depth + 1):
                    return True
        return False

    def binop(self, st, op, a, b, node, inplace=False):
        if op == "Mult":
            for seq, n in ((a, b), (b, a)):
                seq_like = isinstance(seq, (VStr, VTuple)) or (isinstance(seq, VRef) and st.obj(seq.ref).kind in ("list", "bytearray"))
                if seq_like and isinstance(n, (VInt, VUnk)) and (isinstance(n, VUnk) or n.const() is None):
                    nt = ops.int_term(n) if isinstance(n, VInt) else z3.Int(fresh_name("int_of_unknown"))
                    srcs, unknown_src = _attr_sources(nt)
                    goal = nt <= REPEAT_CAP
                    from contracts import c12_7zheader
                    if self.header is not None:
                        goal = c12_7zheader.bound_goal(self, nt)
                    if unknown_src and not srcs:
                        # a count without input provenance in the model: decide on the real AST whether it is made of sizes of
                        # existing objects only (then the repetition is bounded by what is already in memory)
                        cnt_node = node.right if (seq is a) else node.left
                        if isinstance(node, ast.AugAssign):
                            cnt_node = node.value
                        cur = self.cur_fn_stack[-1] if self.cur_fn_stack else None
                        try:
                            if cur is not None and isinstance(cnt_node, ast.AST) and size_only(cnt_node, cur, self.module):
                                goal = z3.BoolVal(True)
                                unknown_src = []
                        except RecursionError:
                            pass
                    if unknown_src or (self.header is not None and c12_7zheader.handed_out(st, nt)):
                        goal = z3.Or(goal, NOTDEF)      # a count of unknown origin (result of an unmodelled call, a joined value), or one an unmodelled method has seen (it may have refused it)
                    key = "repeat-site" + (f"[{'+'.join(sorted(srcs))}]" if srcs else "")
                    # provisional label with the source position; `post_report` turns positions into ordinals per key
                    self.add_vc("amp-bounded", f"{key}@{getattr(node, 'lineno', 0):06d}:{getattr(node, 'col_offset', 0):04d}", st.pc, goal,
                                note=f"{self.loc(node)} repetition count comes from the input and is not bounded on this path", loc=self.loc(node))
                    if isinstance(seq, VStr):
                        return [(st, VStr(z3.String(fresh_name("repeated"))))]
                    return [(st, VUnk("repeated"))]
        return super().binop(st, op, a, b, node, inplace)


def post_report(contract, rep):
    """Amplification sites: ids keyed by the input attribute(s) the count is read from (stable under moving the site into a
    helper, renaming locals, reordering); several sites with the same key are numbered in source order (#2, #3, ...); sites whose
    count has no attribute provenance keep the ordinal form `repeat-site-k`."""
    groups = {}
    for o in rep.obligations:
        if o.get("kind") == "amp-bounded" and "@" in o["id"].rsplit("#", 1)[-1]:
            head, label = o["id"].rsplit("#", 1)
            key, pos = label.rsplit("@", 1)
            groups.setdefault((head, key), []).append((pos, o))
    for (head, key), items in groups.items():
        items.sort(key=lambda t: t[0])
        for k, (_pos, o) in enumerate(items):
            if key == "repeat-site":
                o["id"] = f"{head}#repeat-site-{k}"
            else:
                o["id"] = f"{head}#{key}" + (f"#{k + 1}" if k else "")


EXECUTOR = AmpExecutor
EXECUTOR_KW = {}


def m_seek2(ex, st, obj, args, kwargs, node):
    """BytesIO.seek(off[, whence]): whence=os.SEEK_END positions at the size of the buffer."""
    if len(args) == 1 and "whence" in (kwargs or {}):
        args = list(args) + [kwargs["whence"]]
    if len(args) == 2 and isinstance(args[1], VInt) and args[1].const() == 0:
        args = args[:1]
    if len(args) == 2:
        if not (isinstance(args[1], VInt) and args[1].const() == 2):
            common.havoc_pos(ex, st, obj)          # SEEK_CUR / unknown whence: the position is not tracked
            return [(st, VInt(st.ghost[common.pos_key(obj)]))]
        st.assume(BSIZE(obj.t) >= 0)
        st.ghost[common.pos_key(obj)] = BSIZE(obj.t) + ops.int_term(args[0]) if isinstance(args[0], VInt) else BSIZE(obj.t)
        return [(st, VInt(st.ghost[common.pos_key(obj)]))]
    return common.m_seek(ex, st, obj, args, kwargs, node)


def m_getvalue(ex, st, obj, args, kwargs, node):
    """BytesIO.getvalue() / getbuffer(): the whole content; its length is the size of the buffer."""
    st.assume(BSIZE(obj.t) >= 0)
    r = VExt("BytesIOContent")
    st.ghost[("content_of", r.t.get_id())] = obj.t
    return [(st, r)]


def a_nbytes(ex, st, obj):
    b = st.ghost.get(("content_of", obj.t.get_id()))
    return VInt(BSIZE(b)) if b is not None else VUnk("nbytes")


LSIZE = z3.Function("size_of_the_path_entry_itself", readfile.PathS, z3.IntSort())     # what lstat() reports: for a symlink, not the size that is read


def m_lstat(ex, st, obj, args, kwargs, node):
    """Path.lstat() / Path.stat(follow_symlinks=False): ASSUMED -- OSError family or the size of the path entry itself, which for a
    symbolic link is unrelated to the size of the file that open() reads."""
    r = readfile.m_stat(ex, st, obj, args, kwargs, node)
    out = []
    for (s, v) in r:
        s.assume(LSIZE(obj.t) >= 0)
        s.ghost[("lstat_of", v.t.get_id())] = obj.t
        out.append((s, v))
    return out


def m_stat2(ex, st, obj, args, kwargs, node):
    fs = (kwargs or {}).get("follow_symlinks")
    if fs is not None and not (isinstance(fs, VBool) and fs.const() is True):
        return m_lstat(ex, st, obj, args, kwargs, node)
    return readfile.m_stat(ex, st, obj, args, kwargs, node)


def a_st_size2(ex, st, obj):
    p = st.ghost.get(("lstat_of", obj.t.get_id()))
    if p is not None:
        return VInt(LSIZE(p))
    return readfile.a_st_size(ex, st, obj)


def _as_path(ex, st, a):
    """The Path object a size function is applied to: a Path, str(Path) or the string a Path is built from."""
    if isinstance(a, VExt) and a.sort == "Path":
        return a
    if isinstance(a, VStr):
        t = a.t
        if z3.is_app(t) and t.decl().name() == readfile.PSTR.name() and t.num_args() == 1:
            p = VExt("Path")
            st.assume(p.t == t.arg(0))
            return p
        return readfile.new_path(ex, st, [a], {}, None)[0][1]
    return None


def x_getsize(ex, st, args, kwargs, node):
    """os.path.getsize(p) / os.stat(p): the same size Path(p).stat() reports (follows symlinks)."""
    p = _as_path(ex, st, args[0]) if args else None
    if p is None:
        return ex.havoc_call(st, "os.path.getsize", args, node)
    out = []
    for (s, r) in readfile.m_stat(ex, st, p, [], {}, node):
        out.append((s, VInt(readfile.FSIZE(p.t))))
    return out


def x_os_stat(ex, st, args, kwargs, node):
    p = _as_path(ex, st, args[0]) if args else None
    if p is None:
        return ex.havoc_call(st, "os.stat", args, node)
    return m_stat2(ex, st, p, args[1:], kwargs, node)


def x_os_lstat(ex, st, args, kwargs, node):
    p = _as_path(ex, st, args[0]) if args else None
    if p is None:
        return ex.havoc_call(st, "os.lstat", args, node)
    return m_lstat(ex, st, p, args[1:], kwargs, node)


def contracts(reg):
    readfile.install(reg)
    common.install_bytesio(reg)
    common.install_clock(reg)
    reg.method_models[("BytesIO", "seek")] = m_seek2
    reg.method_models[("BytesIO", "getvalue")] = m_getvalue
    reg.method_models[("BytesIO", "getbuffer")] = m_getvalue
    reg.attr_models[("BytesIOContent", "nbytes")] = a_nbytes
    reg.ext_models[("const", "os.SEEK_END")] = VInt(2)
    reg.ext_models[("const", "io.SEEK_END")] = VInt(2)
    out = []
    from contracts import C07
    for c in C07.contracts(reg):
        if c.target.startswith(C07.ROUTER):
            c.assumed = True
            # call-site view only: the SAME contract object class is verified on the real body in this run by the EXTRA task
            # `conform[router.py::<fn>]` (contracts/c12_conform.py), so the verified contract implies the applied one trivially;
            # a function whose conformance is not proved in the run stays on the assumed list of the evidence
            c.note = "call-site view; verified in the C12 run by contracts/c12_conform.py (same contract as pack C07)"
            out.append(c)
    # (after C07.contracts: it re-installs the shared read_file models)
    reg.method_models[("BytesIO", "seek")] = m_seek2
    # further ways to take the size of the file (all follow symlinks like open() does, except lstat)
    reg.method_models[("Path", "stat")] = m_stat2
    reg.method_models[("Path", "lstat")] = m_lstat
    reg.attr_models[("StatResult", "st_size")] = a_st_size2
    reg.ext_models["os.path.getsize"] = x_getsize
    reg.ext_models["os.stat"] = x_os_stat
    reg.ext_models["os.lstat"] = x_os_lstat

    def new_path2(ex, st, args, kwargs, node):
        r = readfile.new_path(ex, st, args, kwargs, node)
        for (s_, v) in r:
            if isinstance(v, VExt) and v.sort == "Path":
                s_.ghost["c12_path_objs"] = s_.ghost.get("c12_path_objs", ()) + (v.t,)
        return r
    reg.ext_models[("new", "pathlib.Path")] = new_path2
    reg.ext_models[("new", "Path")] = new_path2

    # ---- read_file: refuses exactly files larger than max_file_size (0 or negative disables), before opening
    def the_path(c):
        ids = c.st.ghost.get("paths_from_param", frozenset())
        for k, v in c.st.ghost.items():
            if isinstance(k, tuple) and k[0] == "stat_of":
                return v
        return None

    # no stat()/getsize()/os.stat() of the path was seen on this path of the function: whether the file is too large is not
    # known to the model (the size may be taken in a way the model does not follow) -> never a definite counterexample
    size_unrecognised = z3.Function("c12!size-source-not-recognised", z3.IntSort(), z3.BoolSort())(z3.IntVal(0))

    def unseen_path(c):
        """No size source was consulted on this path of the function AND nothing the model does not follow received the path: then
        the size of the file (of the Path built from the parameter) was definitely not looked at."""
        objs = c.st.ghost.get("c12_path_objs", ())
        if the_path(c) is None and objs and not c.st.ghost.get("c12_path_escaped"):
            return objs[-1]
        return None

    def too_large(c):
        p = the_path(c)
        m = c.args["max_file_size"].t
        if p is None:
            p0 = unseen_path(c)
            if p0 is not None:
                return z3.And(m > 0, readfile.FSIZE(p0) > m)       # definite: the file may have any size
            return z3.And(m > 0, size_unrecognised)
        return z3.And(m > 0, readfile.FSIZE(p) > m)

    def own_raise(c):
        return c.exc is not None and "site" not in c.exc.attrs

    def rf_toolarge(c):
        if c.exc is None:
            return z3.BoolVal(True)
        if own_raise(c):
            return z3.And(too_large(c), z3.BoolVal(c.st.ghost.get("opened", 0) == 0))
        return z3.Not(too_large(c))     # raised by the extractor itself (e.g. 7z archive limit): only if the file passed the check

    def rf_other(c):
        if c.exc is None:
            return z3.BoolVal(True)
        if c.exc.attrs.get("site") == "Path.stat":
            return z3.BoolVal(True)      # size unknown: stat() itself failed
        # (the function's own ExtractionFileTooLargeError is not "anything else": it must satisfy the first alternative)
        return z3.And(z3.Not(too_large(c)), z3.Or(c.exc.tidx != c.ex.uni.index[TOOLARGE], z3.BoolVal(not own_raise(c))))

    out.append(FnContract(
        target=f"{readfile.INIT}::read_file",
        params=[("path", p_str()), ("max_file_size", p_int(default=100 * 1024 * 1024))],
        generator=True,
        ensures=[("accepted-only-within-limit", lambda c: z3.Not(too_large(c))),
                 ("size-taken-from-stat-of-the-given-path-when-limit-enabled",
                  lambda c: z3.BoolVal(True) if the_path(c) is not None else
                  (c.args["max_file_size"].t <= 0 if unseen_path(c) is not None else z3.Or(c.args["max_file_size"].t <= 0, NOTDEF)))],
        raises=[Raises(TOOLARGE, when=rf_toolarge, label="too large: before the file is opened"),
                Raises("Exception", sub=True, when=rf_other, label="anything else only if the size check passed")],
        note="size > max_file_size > 0  <=>  ExtractionFileTooLargeError before open(); max_file_size <= 0 disables the check",
    ))
    EXECUTOR_KW[f"{readfile.INIT}::read_file"] = {"abstract": True, "inline_calls": False, "inline_local": True}

    # ---- 7z archive limit: > MAX_7Z_FILE_SIZE refused before the archive is parsed; == accepted
    arch = loader.module(ARCH)
    max7z = const_value(arch, "MAX_7Z_FILE_SIZE")
    if not isinstance(max7z, int):
        # not a closed constant expression: the limit is whatever the module constant is (same symbol in code and contract)
        max7z = z3.Int("MAX_7Z_FILE_SIZE")
        reg.module_consts[(ARCH, "MAX_7Z_FILE_SIZE")] = VInt(max7z)

    def new_7z(ex, st, args, kwargs, node):
        st.ghost["sevenzip_opened"] = st.ghost.get("sevenzip_opened", 0) + 1
        ex.exc_any(st.fork(), f"{ex.loc(node)} SevenZipFile()")
        return [(st, VUnk("SevenZipFile"))]

    reg.ext_models[("new", "SevenZipFile")] = new_7z
    reg.ext_models[("new", "sharepoint2text.parsing.extractors.util.sevenzip.SevenZipFile")] = new_7z

    def big7(c):
        return BSIZE(c.args["file_like"].t) > max7z

    def z7_toolarge(c):
        if c.exc is None:
            return z3.BoolVal(True)
        if "site" not in c.exc.attrs:
            return z3.And(big7(c), z3.BoolVal(c.st.ghost.get("sevenzip_opened", 0) == 0))
        return z3.Not(big7(c))

    out.append(FnContract(
        target=f"{ARCH}::_extract_from_7z_optimized",
        params=[("file_like", p_ext("BytesIO")), ("archive_path", p_opt(p_str()))],
        requires=lambda c: BSIZE(c.args["file_like"].t) >= 0,
        generator=True,
        ensures=[("accepted-only-within-archive-limit", lambda c: z3.Not(big7(c)))],
        raises=[Raises(TOOLARGE, when=z7_toolarge, label="archive above the limit: refused before it is parsed"),
                Raises("Exception", sub=True, when=lambda c: z3.BoolVal(True) if c.exc is None else
                       z3.And(z3.Not(big7(c)), z3.Or(c.exc.tidx != c.ex.uni.index[TOOLARGE], z3.BoolVal("site" in c.exc.attrs))))],
        note=f"archive size > {max7z} bytes  <=>  ExtractionFileTooLargeError before SevenZipFile is constructed",
    ))
    EXECUTOR_KW[f"{ARCH}::_extract_from_7z_optimized"] = {"abstract": True, "inline_calls": False, "inline_local": True, "helper_arg_sorts": ("BytesIO",)}

    # ---- amplification sites (ODF text:s count, ODS repeated cells / rows)
    def elem_params(names):
        return [(n, p_unk()) for n in names]

    out.append(FnContract(
        target=f"{SHARED}::_append_element_text",
        params=[("element", p_unk()), ("parts", p_unk()), ("text_space_tag", p_unk()), ("text_tab_tag", p_unk()),
                ("text_line_break_tag", p_unk()), ("attr_text_c", p_unk()), ("skip_tags", p_unk())],
        raises=[Raises("Exception", sub=True)], modifies=("parts",),
        note="amplification obligation at the space-repetition site (text:s count)",
    ))
    EXECUTOR_KW[f"{SHARED}::_append_element_text"] = {"abstract": True, "inline_calls": False, "inline_local": True, "only_repeat_helpers": True}
    out.append(FnContract(
        target=f"{ODS}::_extract_sheet",
        params=[("ctx", p_unk()), ("table", p_unk()), ("sheet_number", p_int()), ("image_counter", p_int())],
        raises=[Raises("Exception", sub=True)],
        note="amplification obligations at the repeated-cell / repeated-row expansion sites",
    ))
    EXECUTOR_KW[f"{ODS}::_extract_sheet"] = {"abstract": True, "inline_calls": False, "merge": True, "inline_local": True}

    # ---- 7z decoders: every library decompressor call carries the folder's declared size (contracts/c12_sevenzip.py)
    try:
        from contracts import c12_sevenzip
        for q, params, mk in c12_sevenzip.contracts(reg, loader.module(c12_sevenzip.SZ)):
            out.append(FnContract(
                target=f"{c12_sevenzip.SZ}::{q}",
                params=[(n, mk.get(n, p_unk())) for n in params],
                ensures=[("decoder-stops-at-the-declared-size", (lambda sp: lambda c: c12_sevenzip.bounded_by_declared(c, sp))(mk.get("__sizes__")))],
                raises=[Raises("Exception", sub=True)], modifies=((mk["__sizes__"],) if mk.get("__sizes__") else ()),
                note="every call of a library decompressor is given the folder's declared output size (LZMA-alone size field or max_length)",
            ))
            EXECUTOR_KW[f"{c12_sevenzip.SZ}::{q}"] = {"abstract": False, "inline_calls": False, "inline_local": True}
    except Exception:  # noqa  (a pack's contracts() must not raise: the native scope decides then)
        pass
    # ---- 7z header parser: allocations per declared count are bounded by a constant or by the header (contracts/c12_7zheader.py)
    try:
        from contracts import c12_7zheader
        for c, kw in c12_7zheader.contracts(reg, loader.module(c12_7zheader.SZ)):
            out.append(c)
            EXECUTOR_KW[c.target] = kw
    except Exception:  # noqa
        pass
    return out


# ------------------------------------------------------------------ policy --
def const_value(mod, name, depth=0):
    """Value of a module-level constant: its defining expression evaluated over the other module-level constants it names
    (`_MB = 1024 * 1024; LIMIT = 100 * _MB`); None when it is not a closed arithmetic expression."""
    e = mod.assigns.get(name)
    if e is None or depth > 6:
        return None
    env = {}
    for n in ast.walk(e):
        if isinstance(n, ast.Name):
            if n.id in ("min", "max", "int", "abs", "pow", "round"):
                continue
            v = const_value(mod, n.id, depth + 1)
            if v is None:
                return None
            env[n.id] = v
        elif isinstance(n, (ast.Call, ast.Attribute, ast.Lambda, ast.Await, ast.Yield)) and not (isinstance(n, ast.Call) and isinstance(n.func, ast.Name)
                                                                                               and n.func.id in ("min", "max", "int", "abs", "pow", "round")):
            return None
    try:
        return eval(compile(ast.Expression(e), "<const>", "eval"), {"__builtins__": {"min": min, "max": max, "int": int, "abs": abs, "pow": pow, "round": round}}, env)
    except Exception:  # noqa
        return None


def _is_logger_call(n):
    return isinstance(n, ast.Call) and isinstance(n.func, ast.Attribute) and dotted(n.func).split(".")[0] in ("logger", "logging", "log", "_logger", "LOGGER")


def regular_members_only(arch, oid):
    """tar: the declared size is the size that is read only for regular members (a link declares 0 and reads its target):
    `tf.extractfile(V)` must be dominated by `V.isreg()` (guard read semantically: negation, De Morgan, helper, alias)."""
    from contracts import guardlib
    f = arch.functions.get("_extract_from_tar_optimized")
    if f is None:
        return ground_obligation(oid, False, "function missing", ARCH, definite=False)
    from contracts import archive_guards
    reads, arg_of = archive_guards.member_reads(arch, f, ("extractfile", "extract", "extractall"))
    odd = [n for n in reads if not isinstance(arg_of.get(id(n)), ast.Name)]
    if not reads or odd:
        return ground_obligation(oid, False, "no member read through a member object found" if not reads else
                                 f"line {odd[0].lineno}: `{ast.unparse(odd[0])}` does not name the member it reads", ARCH, definite=False)

    def gen_cond(test, branch):
        out = []
        for t in guardlib.truths(guardlib.implied(test, branch, arch, f), True):
            e = ast.parse(t, mode="eval").body
            if isinstance(e, ast.Call) and not e.args and isinstance(e.func, ast.Attribute) and e.func.attr in ("isreg", "isfile") and isinstance(e.func.value, ast.Name):
                out.append(("isreg", e.func.value.id))
        return out

    MF = guardlib.carrying(MustFacts, guardlib.carried_facts(f, gen_cond, MustFacts))
    mf = MF(gen_cond=gen_cond, need=lambda n: [(("isreg", arg_of[id(n)].id), f"line {n.lineno}")] if any(n is r for r in reads) else [],
            kill_names=lambda fact: [fact[1]])
    res = mf.run(f)
    bad = [r for r in res if not r.ok]
    return ground_obligation(oid, bool(res) and not bad, "; ".join(f"{r.desc}: the member read here is not known to be a regular file (a link member declares size 0 "
                                                                    f"and reads its target)" for r in bad) or f"{len(res)} member read(s), each dominated by isreg()",
                             ARCH, definite=False)


def entry_size_guard(arch, oid):
    """_process_archive_entry: the entry's bytes are handed on (wrapped, passed to an extractor) only on paths where
    `len(<bytes parameter>) > MAX_ARCHIVE_FILE_SIZE` was evaluated false."""
    from contracts import guardlib
    f = arch.functions.get("_process_archive_entry")
    if f is None:
        return ground_obligation(oid, False, "function missing", ARCH, definite=False)
    params = [a for a in f.args.posonlyargs + f.args.args + f.args.kwonlyargs]
    data = [a.arg for a in params if a.annotation is not None and ast.unparse(a.annotation) in ("bytes", "bytes | bytearray", "bytearray", "memoryview", "bytes | memoryview")]
    if not data:
        return ground_obligation(oid, False, "no bytes parameter found", ARCH, definite=False)

    def gen_cond(test, branch):
        out = []
        for x in guardlib.upper_bounded(guardlib.implied(test, branch, arch, f), ("MAX_ARCHIVE_FILE_SIZE",)):
            e = ast.parse(x, mode="eval").body
            if isinstance(e, ast.Call) and isinstance(e.func, ast.Name) and e.func.id == "len" and len(e.args) == 1 and isinstance(e.args[0], ast.Name):
                out.append(("within-entry-limit", e.args[0].id))
        return out

    def need(n):
        if not isinstance(n, ast.Call) or _is_logger_call(n) or (isinstance(n.func, ast.Name) and n.func.id == "len"):
            return []
        used = {x.id for a in list(n.args) + [k.value for k in n.keywords] for x in ast.walk(a) if isinstance(x, ast.Name)}
        # `len(P)` inside an argument is a use of the size, not of the content
        for a in list(n.args) + [k.value for k in n.keywords]:
            for c in ast.walk(a):
                if isinstance(c, ast.Call) and isinstance(c.func, ast.Name) and c.func.id == "len" and len(c.args) == 1 and isinstance(c.args[0], ast.Name):
                    if sum(1 for x in ast.walk(a) if isinstance(x, ast.Name) and x.id == c.args[0].id) == 1:
                        used.discard(c.args[0].id)
        return [(("within-entry-limit", p), f"line {n.lineno}") for p in data if p in used]

    mf = MustFacts(gen_cond=gen_cond, need=need, kill_names=lambda fact: [fact[1]])
    res = mf.run(f)
    bad = [r for r in res if not r.ok]
    return ground_obligation(oid, bool(res) and not bad, "; ".join(f"{r.desc}: the entry's bytes are handed on before their size was checked against MAX_ARCHIVE_FILE_SIZE"
                                                                    for r in bad) or (f"{len(res)} use(s) of the entry's bytes, each dominated by the size check" if res
                                                                                      else "the entry's bytes are not handed on in this function"), ARCH, definite=False)


def policy(repo, tier):
    obls, fns = [], []
    arch = loader.module(ARCH, repo)

    from contracts import archive_guards
    for o, info in archive_guards.zip_and_tar("C12", repo):
        obls.append(o)
        if info:
            fns.append(dict(info, obligations=1))
    # the declared size is the size that is read only for regular members (links declare 0 and read their target)
    obls.append(regular_members_only(arch, "C12/archive_extractor.py::_extract_from_tar_optimized/typestate#size-check-applies-to-regular-members-only"))
    obls.append(entry_size_guard(arch, "C12/archive_extractor.py::_process_archive_entry/typestate#entry-size-check-dominates-extraction"))
    if "_process_archive_entry" in arch.functions:
        fns.append(dict(arch.fn_info("_process_archive_entry"), obligations=1))
    # 7z: members above the limit must not be decompressed: extraction must be restricted to the selected members.
    # Shape check (an extract call that carries a member selection besides the destination): not recognised -> unknown, the
    # native probe (size-filtered members must not reach the disk) decides.
    f = arch.functions.get("_extract_from_7z_optimized")
    ok, why = False, "function missing"
    if f is not None:
        fs = [f] + [arch.functions[c.func.id] for c in ast.walk(f) if isinstance(c, ast.Call) and isinstance(c.func, ast.Name) and c.func.id.startswith("_")
                    and c.func.id in arch.functions and c.func.id != f.name]
        calls = [n for g in fs for n in ast.walk(g) if isinstance(n, ast.Call) and isinstance(n.func, ast.Attribute) and n.func.attr in ("extractall", "extract")]
        unrestricted = [n for n in calls if len(n.args) + len([k for k in n.keywords if k.arg not in ("path",)]) < 2 and not any(k.arg in ("targets", "members", "names") for k in n.keywords)]
        ok = bool(calls) and not unrestricted
        why = "; ".join(f"line {n.lineno}: {ast.unparse(n)} decompresses and writes every member, not only the ones that passed the size filter" for n in unrestricted) \
            or ("no extract call found" if not calls else "")
    obls.append(ground_obligation("C12/archive_extractor.py::_extract_from_7z_optimized/policy#oversize-members-are-not-decompressed", ok, why, ARCH, definite=False))
    # constants are the documented ones (defining expressions evaluated over the module's other constants)
    vals = {n: const_value(arch, n) for n in ("MAX_7Z_FILE_SIZE", "MAX_MEMORY_SIZE", "MAX_ARCHIVE_FILE_SIZE")}
    want = {"MAX_7Z_FILE_SIZE": 100 * 1024 * 1024, "MAX_MEMORY_SIZE": 10 * 1024 * 1024, "MAX_ARCHIVE_FILE_SIZE": 50 * 1024 * 1024}
    o = ground_obligation("C12/archive_extractor.py::limits/module-invariant#documented-values", vals == want,
                          ", ".join(f"{k}={v}" for k, v in vals.items()), ARCH, kind="module-invariant", backend="ground",
                          definite=all(v is not None for v in vals.values()))     # a value that cannot be evaluated statically is read natively
    obls.append(o)
    # XML parsing of ZIP parts goes through defusedxml: every parser entry point used in zip_utils resolves there
    zu = loader.module("sharepoint2text/parsing/extractors/util/zip_utils.py", repo)
    from contracts import c12_cost
    entries = c12_cost.xml_entries(zu)
    bad = [full for (full, _line) in entries if not full.startswith("defusedxml.")]
    obls.append(ground_obligation("C12/zip_utils.py::read_zip_xml_root/policy#xml-parsed-with-defusedxml", bool(entries) and not bad,
                                  "; ".join(bad) or ", ".join(sorted({e[0] for e in entries})) or "no XML parser entry point found", "zip_utils.py", definite=False))
    return {"obligations": obls, "functions": fns}


def _carve_task(key):
    def run(repo, tier):
        from contracts import c12_cost
        return c12_cost.carve_obligations(repo, tier, only=key)
    run.__name__ = f"carve[{key[0].split('/')[-1]}::{key[1]}#{key[2]}]"
    return run


def _cost(name):
    def run(repo, tier):
        from contracts import c12_cost
        return getattr(c12_cost, name)(repo, tier)
    run.__name__ = name
    return run


def _native_scope(which):
    """BOUNDED: a directed native scope of the replayer, run on every check.  A failing input is a violation with its replay; no
    failing input is `bounded-ok` (never counted as discharged)."""
    def run(repo, tier):
        import json
        import os
        import subprocess
        oid = f"C12/package/native-scope#{which}"
        root = os.path.dirname(os.path.dirname(os.path.abspath(__file__)))
        try:
            p = subprocess.run(["/venv/bin/python", os.path.join(root, "replay", "run.py")], input=json.dumps({"property": "C12", "obligation": oid, "extra": {"scope": which}, "repo": repo}),
                               capture_output=True, text=True, timeout=600, cwd=root, env=dict(os.environ, VERIF_REPO=repo))
            lines = [l for l in p.stdout.splitlines() if l.startswith("{")]
            res = json.loads(lines[-1]) if lines else {"reproduced": False, "note": "replayer gave no result: " + (p.stderr or "")[-300:], "crashed": True}
        except Exception as e:  # noqa
            res = {"reproduced": False, "note": f"replayer failed: {e}", "crashed": True}
        crashed = res.get("crashed") or str(res.get("note", "")).startswith("replayer crashed")
        status = "refuted" if res.get("reproduced") else ("unknown" if crashed else "bounded-ok")
        reason = (f"{res.get('inputs')}: expected {res.get('expected')}, observed {res.get('observed')}" if res.get("reproduced") else str(res.get("note", "")))[:600]
        return {"obligations": [{"id": oid, "kind": "bounded", "bounded": True, "bound": "directed native scope (replay/C12.py::native_scope)", "status": status, "vcs": 1,
                                 "seconds": 0.0, "backends": {"native": 1}, "witness": None, "reason": reason, "loc": "replay/C12.py", "function": "",
                                 "replay_hint": {"scope": which}}], "functions": []}
    run.__name__ = f"native_scope[{which}]"
    return run


def _extra():
    from contracts import c12_cost, c12_conform
    return c12_conform.extras() + [_native_scope("explicit-limits"), _native_scope("repeat-attribute-classes"), _native_scope("zip-bomb-classes"), _native_scope("7z-declared-sizes"), _cost("guard_exemptions"), _cost("sevenzip_collisions"), _cost("rescan_obligations"), policy, _cost("self_suffix_obligations"), _cost("xml_policy"), _cost("nested_scan_obligations")] + [_carve_task(k) for k in c12_cost.carve_tasks()]


EXTRA = _extra()


def known_findings(kf, violations, repo, tier):
    """Recorded genuine defects (known_findings.json): replay each witness natively; a finding that still
    fails prints KNOWN-FINDING and covers exactly its own obligation id(s)."""
    import json
    import os
    import subprocess
    out = []
    vio_ids = {v["id"] for v in violations}
    for f in kf:
        if f.get("replay") == "obligation":
            # the finding's witness replay IS the native replay of its obligation (same amplifier), which this run has already made:
            # the finding still fails exactly when that replay reproduced (the obligation is among the violations)
            still = f["obligation"] in vio_ids
            out.append({"finding": f["id"], "still_fails": still, "line": f"{f['id']}: {f['what']}", "covers": [f["obligation"]] if still else [],
                        "witness_replay": "see the replay of the obligation"})
            continue
        req = {"property": "C12", "obligation": f["obligation"], "known_finding": f["id"], "witness": f.get("witness"), "repo": repo}
        try:
            p = subprocess.run(["/venv/bin/python", os.path.join(os.path.dirname(os.path.dirname(os.path.abspath(__file__))), "replay", "run.py")],
                               input=json.dumps(req), capture_output=True, text=True, timeout=600, env=dict(os.environ, VERIF_REPO=repo))
            lines = [l for l in p.stdout.splitlines() if l.startswith("{")]
            res = json.loads(lines[-1]) if lines else {"reproduced": False}
        except Exception as e:  # noqa
            res = {"reproduced": False, "note": str(e)}
        still = bool(res.get("reproduced"))
        covers = [o for o in f.get("covers", [f["obligation"]]) if o in vio_ids] if still else []
        out.append({"finding": f["id"], "still_fails": still, "line": f"{f['id']}: {f['what']}", "covers": covers,
                    "witness_replay": res.get("observed", res.get("note", ""))})
    return out


TRUSTED = ["defusedxml forbids entity expansion", "stat().st_size is the size read_file would read"]
# (the four router functions are no longer listed here: each is verified in the run by `conform[router.py::<fn>]`; one that is not
#  proved shows up in `assumed_contracts` under its own target, see pyvc/check.py `verified_assumed`)
ASSUMED_MODELS = ["pathlib.Path.stat/st_size", "open()", "io.BytesIO.seek/tell (position, SEEK_END = size)",
                  "sevenzip.py::SevenZipReader._read_boolean_vector: its requires (count <= max(REPEAT_CAP, header size)) is an obligation (call-pre#..) at the three call "
                  "sites in _parse_files_info (one of them met by the size-of-an-existing-object rule); the call sites in _parse_pack_info / _parse_unpack_info / "
                  "_parse_substreams_info / _skip_substreams_info are NOT checked (those parsers are not under contract)",
                  "sevenzip.py header parsers: a call of another SevenZipReader method is modelled as 'returns anything (an arbitrary int when annotated -> int), raises "
                  "anything, stream position anywhere, stream binding kept iff no store to it in the callee (AST, three levels)'"]
BOUNDED = ["native-scope#explicit-limits, native-scope#zip-bomb-classes, native-scope#7z-declared-sizes and native-scope#repeat-attribute-classes: directed native runs of the replayer on every check (never counted as proved)"]
ASSUMPTIONS = ["peak memory and run time as quantities are not decided (not expressible as contracts); what is decided are the structural causes of super-linear cost: "
               "unbounded repeat expansion (amp-bounded#repeat-site), overlapping carving of a scanned buffer (amp-bounded#carve-while-k: copies of different iterations "
               "are disjoint, so total copy size <= len(buffer)), per-iteration re-slicing (no-self-suffix-rebinding), nested re-scans (nested-scans-skip-the-part-handed-out); "
               "amplification inside olefile / lzma / deflate / openpyxl is not decided",
               f"a repetition count is 'bounded' when <= {REPEAT_CAP} on its path", "EXC-ANY", "policy obligations decided by AST dominance analysis"]

REPLAY_UNKNOWN = True    # undecided / out-of-subset items are searched natively (replay) before being reported UNDECIDED
