"""C01 -- stable failure surface (and termination obligations) for arbitrary bytes.

`exc` obligations: for each registered extractor generator (registry re-read
from router.py each run), read_file, the archive member / attachment wrappers and
the CLI: the set of exception types that can escape is contained in the
ExtractionError family, **whatever the called parsers raise** (EXC-ANY: every
un-contracted call may raise any subclass of Exception and return anything).
The body is executed symbolically in merge mode (states joined after every
statement: values widened to unknown), which over-approximates behaviours and is
therefore sound for this safety property.
"""
import z3

from pyvc import loader
from pyvc.contracts import FnContract, Raises
from pyvc.verify import p_opt, p_str, p_unk, p_int

ROUTER = "sharepoint2text/parsing/router.py"
FAMILY = "ExtractionError"


def registered_extractors(repo=None):
    reg = loader.module(ROUTER, repo).literal("_EXTRACTOR_REGISTRY")
    seen = []
    for _k, (modpath, fn) in reg.items():
        t = (modpath.replace(".", "/") + ".py", fn)
        if t not in seen:
            seen.append(t)
    return seen


def contracts(reg):
    from contracts import common
    common.install_clock(reg)
    out = []
    for rel, fn in registered_extractors():
        out.append(FnContract(
            target=f"{rel}::{fn}",
            params=[("file_like", p_unk()), ("path", p_opt(p_str()))],
            generator=True,
            raises=[Raises(FAMILY, sub=True, label="only the ExtractionError family escapes")],
            note="exceptional postcondition under EXC-ANY",
        ))
    # --- read_file: ExtractionError family, or OSError family from stat()/open() before extraction starts
    from contracts import C07, readfile
    for c in C07.contracts(reg):
        if c.target.startswith(C07.ROUTER) or c.target.startswith(C07.MIME):
            c.note = "C07's functional contract, verified here on the real body (round 7: was assumed)"
            out.append(c)
    out.append(FnContract(
        target=f"{readfile.INIT}::read_file",
        params=[("path", p_str()), ("max_file_size", p_int(default=100 * 1024 * 1024))],
        generator=True,
        raises=[Raises(FAMILY, sub=True),
                Raises("OSError", sub=True, label="stat()/open() of the given path failed (documented FileNotFoundError)",
                       when=lambda c: z3.BoolVal(c.exc is None or c.exc.attrs.get("site") in ("Path.stat", "open")))],
    ))
    ARCH = "sharepoint2text/parsing/extractors/archive_extractor.py"
    out.append(FnContract(
        target=f"{ARCH}::_process_archive_entry",
        params=[("filename", p_str()), ("file_data", p_unk()), ("archive_path", p_opt(p_str())), ("basename", p_str())],
        generator=True, raises=[],
        note="a member failure never escapes (swallowed per member)",
    ))
    # --- CLI
    out.append(FnContract(
        target="sharepoint2text/cli.py::main",
        params=[("argv", p_unk())],
        raises=[],
        ensures=[("exit-0-with-output-or-exit-1-with-clean-stdout-and-one-stderr-line", cli_post)],
        note="for well-formed argv (after argparse accepted the arguments)",
    ))
    install_cli(reg)
    from contracts import c01_parser
    out.append(c01_parser.contract())
    return out


def cli_post(c):
    g = c.st.ghost
    if g.get("argparse_exit"):
        return z3.BoolVal(True)          # argument-syntax errors: argparse's own usage exit, outside the statement
    r = c.result
    code = r.const() if hasattr(r, "const") else None
    errs = [p for p in g.get("prints", ()) if _is_stderr(p[1])]
    outs = [p for p in g.get("prints", ()) if not _is_stderr(p[1])]
    c.note = (f"exit={code} stdout_dirty={bool(g.get('stdout_dirty'))} stdout_writes={g.get('stdout_writes', 0)} "
              f"stderr_lines={len(errs)} prints_to_stdout={len(outs)}")
    if code == 0:
        return z3.BoolVal(g.get("stdout_writes", 0) >= 1 and not errs and not outs)
    if code == 1:
        # exactly one stderr line: our own print, and no log record of ANY logger (third-party parsers warn on hostile input) may
        # reach stderr -- neither through logging's last-resort handler nor through a stream handler on the root logger
        from contracts import c01_logging
        silenced, lnote = c01_logging.silenced_term(g)
        c.note += " " + lnote
        # direct sys.stderr.write(text): lines of the written text, counted on its constant parts (a symbolic part -- the exception
        # message -- is taken to contain no line break, exactly as for print); a text that is no string term is not modelled -> unknown
        writes = tuple(g.get("stderr_writes", ()))
        nlines, unsure = len(errs), False
        for w in writes:
            if w is None:
                unsure = True
            else:
                nlines += w
        c.note += f" stderr_lines_written_directly={[w for w in writes]}" if writes else ""
        one_line = z3.BoolVal(nlines == 1)
        if unsure and nlines <= 1:
            one_line = c01_logging.MARK
        return z3.And(z3.BoolVal(not g.get("stdout_dirty") and not outs), one_line, silenced)
    return z3.BoolVal(False)


def _is_stderr(v):
    return getattr(v, "how", None) == "ext" and getattr(v, "a", "") == "sys.stderr"


def install_cli(reg):
    from pyvc.values import VExc, VExt, VTuple, VUnk, VStr, NONE, fresh_name

    def m_build_parser(ex, st, args, kwargs, node):
        return [(st, VExt("ArgParser"))]

    def m_parse(ex, st, obj, args, kwargs, node):
        """argparse: ASSUMED to raise only SystemExit (usage errors, --help)."""
        bad = st.fork()
        bad.ghost["argparse_exit"] = True
        ex.raise_in(bad, ex.mk_exc("SystemExit"))
        import z3 as _z3
        from pyvc.values import VSeq
        n = _z3.Int(fresh_name("n_unknown"))
        st.assume(n >= 0)
        f = _z3.Function(fresh_name("unknown_arg"), _z3.IntSort(), _z3.StringSort())
        return [(st, VTuple([VUnk("args"), VSeq(n, lambda i: VStr(f(i)), "str")]))]

    def m_stdout_write(ex, st, args, kwargs, node):
        """sys.stdout.write(s): ASSUMED atomic -- either raises before anything is written (encoding error)
        or writes all of s; writing an ASCII literal does not raise."""
        a = args[0]
        c = a.const() if isinstance(a, VStr) else None
        if not (c is not None and c.isascii()):
            ex.exc_any(st.fork(), f"{ex.loc(node)} sys.stdout.write")
        st.ghost["stdout_dirty"] = True
        st.ghost["stdout_writes"] = st.ghost.get("stdout_writes", 0) + 1
        return [(st, VUnk("n"))]

    def m_json_dump(ex, st, args, kwargs, node):
        """json.dump(obj, fp): streams chunks to fp; ASSUMED to be able to raise after a partial write."""
        st.ghost["stdout_dirty"] = True
        ex.exc_any(st.fork(), f"{ex.loc(node)} json.dump (after partial output)")
        st.ghost["stdout_writes"] = st.ghost.get("stdout_writes", 0) + 1
        return [(st, NONE)]

    reg.ext_models["sys.stdout.write"] = m_stdout_write

    def m_stderr_write(ex, st, args, kwargs, node):
        """sys.stderr.write(s): recorded as the number of lines it writes -- the diagnostic must stay ONE line however it is written"""
        a = args[0] if args else None
        n = None
        if isinstance(a, VStr):
            parts, todo = [], [a.t]
            while todo:
                t = todo.pop()
                if z3.is_app(t) and t.decl().kind() == z3.Z3_OP_SEQ_CONCAT:
                    todo.extend(reversed(t.children()))
                else:
                    parts.append(VStr(t).const())
            n = sum(p_.count("\n") for p_ in parts if p_ is not None)
            if parts and not (parts[-1] is not None and (parts[-1].endswith("\n") or parts[-1] == "")):
                n += 1          # an unterminated last line is still a line on the terminal
        st.ghost["stderr_writes"] = tuple(st.ghost.get("stderr_writes", ())) + (n,)
        return [(st, VUnk("n"))]

    reg.ext_models["sys.stderr.write"] = m_stderr_write
    def m_json_dumps(ex, st, args, kwargs, node):
        """json.dumps(obj): pure; raises (TypeError/ValueError/...) or returns a str -- no output effect."""
        import z3 as _z3
        ex.exc_any(st.fork(), f"{ex.loc(node)} json.dumps")
        return [(st, VStr(_z3.String(fresh_name("json_text"))))]

    # logging: which handler configuration keeps records of ANY logger away from stderr/stdout (contracts/c01_logging.py)
    from contracts import c01_logging
    c01_logging.install(reg)
    from pyvc import solve
    if c01_logging.untrusted not in solve.SAT_UNTRUSTED:
        solve.SAT_UNTRUSTED.append(c01_logging.untrusted)
    reg.ext_models["json.dumps"] = m_json_dumps
    reg.ext_models["json.dump"] = m_json_dump
    reg.method_models[("ArgParser", "parse_known_args")] = m_parse
    # `_build_parser` itself is under a verified contract since round 7 (contracts/c01_parser.py; it was an assumed total constructor)
    from contracts import c01_parser
    c01_parser.install(reg)


# ------------------------------------------------------------ termination --
TERM_READERS = ("_read_byte", "_read_bytes", "_read_number", "_read_uint32", "_read_uint64", "read")
# loops whose termination argument is outside the rules of pyvc/term.py: reported as NOT decided (never counted as proved)
TERM_UNPROVEN = set()
# loops proved by the advance rule: index stores are `+= k` or the next index returned by a contracted callee (the callee's postcondition
# `None or next index beyond the first argument` is an obligation of the same run: ..._extract_word_date_header/ensures#None-or-next-index-beyond-first-argument)
TERM_ADVANCERS = {("pdf_extractor.py", "_TableExtractor._extract", 0): {"_extract_word_date_header"}}


def _locked_term_files():
    """base names of the files the lock holds termination obligations for: a file whose last `while` was rewritten is still scanned"""
    import json
    import os
    try:
        lock = json.load(open(os.path.join(os.path.dirname(os.path.dirname(os.path.abspath(__file__))), "obligations.lock.json"))).get("C01", {})
        return {k.split("/", 1)[1].split("::")[0] for k in lock if "/decreases#while-" in k and "::" in k}
    except Exception:  # noqa
        return set()


def _term_files(repo=None):
    from pyvc import term
    out = []
    for f in loader.all_package_files(repo):
        if "/sharepoint_io/" in f:
            continue
        if term.while_loops(loader.module(f, repo)) or f.split("/")[-1] in _locked_term_files():
            out.append(f)
    return out


def _make_term(rel):
    def run(repo, tier):
        from pyvc import term
        obls, listed = term.termination_obligations("C01", repo, [rel], readers=TERM_READERS, unproven_ok=TERM_UNPROVEN, advancers=TERM_ADVANCERS)
        obls += term.for_loop_obligations("C01", repo, [rel])
        return {"obligations": obls, "not_decided": listed}
    run.__name__ = f"termination[{rel.split('/')[-1]}]"
    return run


EXTRA = [_make_term(f) for f in _term_files()]

# ----------------------------------------------- frame: the caller's stream --
OWNING_WRAPPERS = {"io.TextIOWrapper", "io.BufferedReader", "io.BufferedRandom", "io.BufferedWriter", "io.BufferedRWPair", "contextlib.closing",
                   "TextIOWrapper", "BufferedReader", "BufferedRandom", "closing", "codecs.StreamReader", "codecs.StreamReaderWriter"}


def stream_frame(repo, tier):
    """Every registered extractor leaves the stream it was given open: callers rewind and reuse it (EmailContent.
    iterate_supported_attachments seeks it in a `finally`, archive members are BytesIO objects of the caller), and a closed
    stream makes that `seek` raise ValueError -- outside the ExtractionError family.  Per extractor function: the first
    parameter (and local aliases of it) is never closed, never used as a context manager and never handed to a wrapper that
    takes ownership of the underlying stream (io.TextIOWrapper / Buffered* close it when they are closed or collected).
    Unrecognised -> unknown -> the native replayer checks `file_like.closed` after every corpus run."""
    import ast as _ast
    from pyvc.flow import dotted, ground_obligation
    obls = []
    for rel, fn in registered_extractors(repo):
        mod = loader.module(rel, repo)
        f = mod.functions.get(fn)
        if f is None or not f.args.args:
            continue
        p0 = f.args.args[0].arg
        alias = {p0}
        for n in _ast.walk(f):
            if isinstance(n, _ast.Assign) and isinstance(n.value, _ast.Name) and n.value.id in alias:
                for t in n.targets:
                    if isinstance(t, _ast.Name):
                        alias.add(t.id)
        bad = []
        for n in _ast.walk(f):
            if isinstance(n, _ast.Call):
                d = dotted(n.func) or ""
                if isinstance(n.func, _ast.Attribute) and n.func.attr in ("close", "detach", "__exit__") and isinstance(n.func.value, _ast.Name) and n.func.value.id in alias:
                    bad.append(f"line {n.lineno}: {_ast.unparse(n)}")
                head = d.split(".")[0]
                full = (mod.imports.get(head, head) + d[len(head):]) if d else ""
                if (d in OWNING_WRAPPERS or full in OWNING_WRAPPERS) and any(isinstance(a, _ast.Name) and a.id in alias for a in list(n.args) + [k.value for k in n.keywords]):
                    bad.append(f"line {n.lineno}: {_ast.unparse(n)[:80]} takes ownership of the caller's stream")
            if isinstance(n, (_ast.With, _ast.AsyncWith)):
                for it in n.items:
                    if isinstance(it.context_expr, _ast.Name) and it.context_expr.id in alias:
                        bad.append(f"line {n.lineno}: `with {it.context_expr.id}` closes the caller's stream")
        obls.append(ground_obligation(f"C01/{rel.split('/')[-1]}::{fn}/frame#caller-stream-left-open", not bad, "; ".join(bad), f"{rel}:{f.lineno}",
                                      kind="frame", definite=False))
    return {"obligations": obls, "functions": []}


EXTRA = EXTRA + [stream_frame]


# ------------------------------------ termination inside `re` (backtracking) --
def regex_backtracking(repo, tier):
    """Per file that imports `re`: every pattern reaching an `re` function has polynomial backtracking (no EDA in its position
    automaton with multiplicities: contracts/c01_regex.py).  A pattern WITH EDA gets its own obligation: the bounded pumping
    experiment on CPython's matcher (labelled bounded, never counted as proved) -- super-polynomial growth observed -> `unknown`
    with the pumping text as replay hint (the native replayer hangs the real pattern / function / extractor in a child process),
    none observed -> `bounded-ok`."""
    from contracts import c01_regex as rx
    obls = []
    for rel in loader.all_package_files(repo):
        if "/sharepoint_io/" in rel:
            continue
        mod = loader.module(rel, repo)
        rs = rx.Resolver(mod.tree)
        if not rs.re_names and not rs.re_funcs:
            continue
        base = rel.split("/")[-1]
        oid = f"C01/{base}::*/decreases#regex-backtracking-polynomial"
        try:
            nsites, npat, problems, unreadable = rx.check_module(mod.tree)
        except Exception as e:  # noqa  (pack code on an unforeseen shape: undecided, never a crash)
            obls.append({"id": oid, "kind": "decreases", "status": "unknown", "vcs": 1, "seconds": 0.0, "backends": {"dataflow": 1}, "witness": None,
                         "reason": f"{rel}: regex analysis failed: {type(e).__name__}: {e}"[:300], "loc": rel, "function": f"{rel}::*"})
            continue
        why = f"{rel}: {nsites} re call sites, {npat} distinct patterns, {npat - len(problems)} without EDA"
        if problems:
            why += f"; {len(problems)} with EDA handled by decreases#regex-eda-pump-* (lines {[p['line'] for p in problems]})"
        if unreadable:
            why += "; NOT READ: " + "; ".join(unreadable)[:400]
        obls.append({"id": oid, "kind": "decreases", "status": "unknown" if unreadable else "proved", "vcs": max(npat, 1), "seconds": 0.0,
                     "backends": {"dataflow": max(npat, 1)}, "witness": None, "reason": why, "loc": rel, "function": f"{rel}::*"})
        for k, pr in enumerate(problems):
            hit = rx.pump_experiment(pr)
            o = {"id": f"C01/{base}::*/decreases#regex-eda-pump-{k}", "kind": "decreases", "bounded": True, "volatile": True, "vcs": 1, "seconds": 0.0,
                 "backends": {"native-bounded": 1}, "witness": None, "loc": f"{rel}:{pr['line']}", "function": f"{rel}::{pr['function']}"}
            head = f"{rel}:{pr['line']} pattern {pr['pattern']!r:.120} (flags {pr['flags']}) has EDA, e.g. prefix {pr['witnesses'][0][0]!r} pump {pr['witnesses'][0][1]!r}"
            if hit is None:
                o.update(status="bounded-ok", reason=head + f"; BOUNDED pumping experiment ({len(pr['witnesses'])} witnesses x {len(rx.SUFFIXES)} suffixes x "
                                                          f"k <= {rx.PUMP_KS[-1]}, modes {pr['modes']}): no super-polynomial growth on CPython's matcher")
            elif "error" in hit:
                o.update(status="unknown", reason=head + "; pumping experiment failed: " + hit["error"])
            else:
                o.update(status="unknown", reason=head + f"; pumping shows super-polynomial time: k={hit['k']} took {hit['seconds']} s ({hit['mode']})",
                         witness={"prefix": hit["prefix"], "pump": hit["pump"], "suffix": hit["suffix"], "k": hit["k"]},
                         replay_hint={"family": "regex", "file": rel, "line": pr["line"], "name": pr["name"], "scope": pr["function"], "pattern": pr["pattern"],
                                      "bytes": pr["bytes"], "flags": pr["flags"], "mode": hit["mode"], "prefix": hit["prefix"], "pump": hit["pump"],
                                      "suffix": hit["suffix"], "k": hit["k"], "seconds": hit["seconds"]})
            obls.append(o)
    return {"obligations": obls, "functions": []}


EXTRA = EXTRA + [regex_backtracking]

# ------------------------------- the attachment route: EmailContent.iterate_supported_attachments (contracts/c01_attach.py) --
from contracts import c01_attach as _att  # noqa: E402

EXTRA = EXTRA + list(_att.EXTRA)
from contracts import c01_recursion as _rec  # noqa: E402

EXTRA = EXTRA + [_rec.recursion]
from contracts import c01_parser as _prs  # noqa: E402

EXTRA = EXTRA + [_prs.validate_model]


# ------------------------------- third-party OLE property parser on hostile property streams (recorded finding) --
# The legacy extractors ask olefile for the document properties (`ole.get_metadata()`).  olefile's property parser trusts the element count of a
# VT_VECTOR property: a 72 KB .ppt whose SummaryInformation stream starts with other bytes keeps it busy for longer than any budget.  The loop is
# not in the library (so no `decreases#` obligation of the library speaks about it) but the call does not return, which is what C01 states.
# BOUNDED native scope, run on every check: the three legacy fixtures with record bytes spliced over the start of their property streams.
OLE_PROP_OID = "C01/replay::third-party/bounded#ole-property-streams-of-the-legacy-fixtures-parse-within-the-budget.BOUNDED"
OLE_PROP_BOUND = "doc / ppt / xls fixture, record bytes of the replayer's grammar (EMF blip run, PNG chunk run with hostile lengths) written over the start of the SummaryInformation stream; 8 s per input in a child process; the scope stops at its first witness"
_OLE_PROP_CHILD = r"""
import sys, io, json, importlib, faulthandler
sys.path.insert(0, sys.argv[2]); sys.path.insert(0, sys.argv[1])
import logging; logging.disable(logging.CRITICAL)
R = importlib.import_module("replay.C01")
from sharepoint2text.parsing import router
kind, idx = sys.argv[3], int(sys.argv[4])
cases = [c for c in R.ole_record_cases(sys.argv[1], kind) if "\\x05SummaryInformation@start" in repr(c[0]) and ("blip:emf .. " in c[0] or "png:second-chunk-length-ffffffff" in c[0])]
if idx < 0:
    print(json.dumps(len(cases))); sys.exit(0)
label, data = cases[idx]
modpath, fn = router._EXTRACTOR_REGISTRY[kind]
f = getattr(importlib.import_module(modpath), fn)
faulthandler.dump_traceback_later(8, exit=True)
try:
    for _ in f(io.BytesIO(data), "x." + kind):
        pass
except Exception:
    pass
print("RETURNED")
"""


def ole_property_scope(repo, tier):
    import os
    import subprocess
    from pyvc.flow import ground_obligation
    root = os.path.dirname(os.path.dirname(os.path.abspath(__file__)))
    rp = repo or loader.REPO
    bad, n = [], 0
    try:
        for kind in ("ppt", "doc", "xls"):
            c = subprocess.run(["/venv/bin/python", "-c", _OLE_PROP_CHILD, rp, root, kind, "-1"], capture_output=True, text=True, timeout=120, cwd=rp)
            k = int((c.stdout.strip().splitlines() or ["0"])[-1])
            for i in range(min(k, 2)):                      # two inputs per format are enough to keep the finding observed
                n += 1
                try:
                    p = subprocess.run(["/venv/bin/python", "-c", _OLE_PROP_CHILD, rp, root, kind, str(i)], capture_output=True, text=True, timeout=40, cwd=rp)
                    if "RETURNED" not in p.stdout:
                        where = [l.strip() for l in p.stderr.splitlines() if l.strip().startswith("File ")][:2]
                        bad.append(f"{kind} input {i}: no result within 8 s; innermost frames: {' <- '.join(where)[:300]}")
                except subprocess.TimeoutExpired:
                    bad.append(f"{kind} input {i}: child killed after 40 s")
                if bad:
                    break                                   # one witness is enough (each costs its full budget)
            if bad:
                break
    except Exception as e:  # noqa
        return {"obligations": [], "undecided": [{"obligation": OLE_PROP_OID, "why": f"scope could not run: {type(e).__name__}: {e}"[:300]}]}
    o = ground_obligation(OLE_PROP_OID, not bad, "; ".join(bad) or f"{n} inputs returned", "replay/C01.py::ole_record_cases", kind="bounded", backend="native-replay")
    o["bounded"] = True
    o["bound"] = OLE_PROP_BOUND
    return {"obligations": [o]}


EXTRA = EXTRA + [ole_property_scope]


def known_findings(kf, violations, repo, tier):
    """Recorded genuine defects of C01 (known_findings.json).  The witness of a finding IS its bounded scope obligation, run natively in this very
    check: the finding still fails iff that obligation is among the violations; it covers that obligation id only."""
    vio = {v["id"]: v for v in violations}
    out = []
    for f in kf:
        ids = [o for o in f.get("covers", [f.get("obligation")]) if o]
        hit = [o for o in ids if o in vio]
        out.append({"finding": f["id"], "still_fails": bool(hit), "line": f"{f['id']}: {f['what']}", "covers": hit,
                    "witness_replay": "; ".join(str(vio[o].get("reason", ""))[:300] for o in hit)})
    return out

BOUNDED = ["regex patterns whose position automaton has EDA are decided by a BOUNDED pumping experiment on CPython's matcher (decreases#regex-eda-pump-*: "
           "k <= 100 pumps, every witness cycle x 13 suffixes x the match modes the module uses; pristine: rtf_extractor._RE_PICT); polynomial backtracking of high degree is not decided",
           "termination, what is NOT discharged: `for` loops -- decreases#for-loops-finite shows per file that no loop iterates an infinite constructor or grows its own "
           "iterable; finiteness of third-party iterables (ElementTree, zipfile, xlrd, olefile, pypdf) is assumed.  Recursion (round 7): every directly or mutually "
           "recursive function has a DISCHARGED structural-descent obligation (decreases#recursion-descends-into-a-proper-part / #mutual-recursion-...: each recursive "
           "call passes a proper part of the caller's argument); finiteness and acyclicity of the trees handed in (TREE-FINITE) stay assumed.  One function is NOT a "
           "structural descent and is only bounded by the interpreter: pdf_extractor._color_space_name follows `get_object()` of a PDF reference, which may resolve to "
           "its own container (linear recursion: at most sys.getrecursionlimit() frames, then a RecursionError the callers' exceptional postconditions admit) -- bounded-ok, not proved",
           "cli._build_parser is verified against an ASSUMED MODEL of argparse's declaration checks; the model is validated natively on a finite case list "
           "(cli.py::argparse/model-validation#...BOUNDED: 19 cases), never counted as proved"]

EXECUTOR_KW = {}
for _rel, _fn in registered_extractors():
    EXECUTOR_KW[f"{_rel}::{_fn}"] = {"merge": True, "abstract": True, "inline_calls": False}
EXECUTOR_KW["sharepoint2text/__init__.py::read_file"] = {"abstract": True, "inline_calls": False, "inline_local": True}
EXECUTOR_KW["sharepoint2text/parsing/extractors/archive_extractor.py::_process_archive_entry"] = {"abstract": True, "inline_calls": False, "inline_local": True}
EXECUTOR_KW["sharepoint2text/cli.py::main"] = {"abstract": True, "inline_calls": False, "inline_local": True}
EXECUTOR_KW["sharepoint2text/cli.py::_build_parser"] = {"abstract": True, "inline_calls": False}
from contracts import readfile as _rf  # noqa: E402
from contracts import c01_logging as _lg  # noqa: E402


class C01Executor(_lg.LoggingMixin, _rf.ReadFileExecutor):
    """read_file's shared executor + the logging-configuration ghost model of the CLI contract"""


EXECUTOR = C01Executor

TRUSTED = ["third-party parsers terminate (their exceptions are covered by EXC-ANY); known exception: olefile's property parser on a damaged SummaryInformation stream, recorded finding C01-olefile-property-vector-count-trusted, decided by its own bounded scope obligation",
           "CPython's `re` explores at most the paths of the pattern's position automaton (so: polynomially many for a pattern without EDA)",
           "TREE-FINITE: the trees the recursive functions walk (ElementTree / html node trees built by a parser from a finite document, JSON-like values, dataclass "
           "instances) are finite and acyclic, and iteration / subscript / field access / find / findall / values / items yield strict parts of them",
           # round 7: the router / mime functions are verified here on their real bodies, with the models of the C07 pack
           "os.path.splitext axioms A1-A3, mimetypes.guess_type total and deterministic, importlib.import_module succeeds for registry modules (router contracts, shared with C07)",
           "argparse: ArgumentParser(**kw) is total for keywords of its signature; add_argument raises exactly on the declaration errors modelled in contracts/c01_parser.py; "
           "parse_known_args raises only SystemExit when every `type=` converter fails with TypeError / ValueError only"]
ASSUMED_MODELS = ["time.perf_counter/time.time: total, return a float",
                  "os.path.splitext (uninterpreted, axioms A1-A3); mimetypes.guess_type (uninterpreted: any MIME database); str.lower (uninterpreted, idempotent); "
                  "importlib.import_module + getattr (function identity = (module, name))",
                  "argparse.ArgumentParser / add_argument / add_mutually_exclusive_group / add_argument_group (declaration checks of CPython 3.9-3.13; validated natively, bounded)"]
ASSUMPTIONS = ["EXC-ANY: un-contracted calls may raise any Exception subclass (BaseException-only classes such as KeyboardInterrupt, and MemoryError/RecursionError from resource exhaustion, are not modelled: PY-MEM)",
               "PY-GEN: generator consumer may stop after any prefix", "logger calls dropped (PY-LOG)",
               "PY-LOGGING (cli.main): a log record of any logger reaches stderr unless the ROOT logger has a handler (the code adds a quiet one, or the embedding "
               "application configured logging before the call) or logging.disable(CRITICAL) was called; handlers of named loggers only serve their own subtree"]

# `decreases#while-k` obligations are enumerated from the source (one per `while` found by pyvc.term.while_loops): a locked one may
# disappear when the loop is no longer in the code, as long as the per-file scan obligation (`<file>::*/decreases#for-loops-finite`,
# produced by the same run over the same file) is there -- the remaining and the new loops (a helper the loop moved into) get their own
LOCK_FILE_COVERAGE = {"decreases#while-": "::*/decreases#for-loops-finite",
                      # recursive functions are enumerated from the source too (contracts/c01_recursion.py): same rule, own scan obligation
                      "decreases#recursion-": "::*/decreases#every-recursion-listed", "decreases#mutual-recursion-": "::*/decreases#every-recursion-listed"}
REPLAY_UNKNOWN = True    # undecided / out-of-subset items are searched natively (replay) before being reported UNDECIDED
