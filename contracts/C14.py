"""C14 -- images are returned bit-exact, numbered, on the right unit.

Obligations (all generated from the real source on every run):

(a) TARGET RESOLUTION = the OPC spec function RESOLVE(base_dir, target) (c14_spec): the shared resolver
    by symbolic execution with a loop invariant over the folded segment prefix (unbounded), every
    read site (pptx / docx / xlsx / epub / ODF) as a program slice of the real statements whose result
    must be RESOLVE(directory of the source part, target);
(b) DIMENSION SNIFFERS = format specifications over a byte string of symbolic length: PNG / GIF / BMP
    loop-free, JPEG by the tail-recursive chain invariant `chain(i) == chain(2)` (unbounded number of
    markers); three OOXML copies + image_utils;
(c) NUMBERING discipline of every image counter (AST path counting);
(d) BYTES DATAFLOW from the container read to the image object, content type from the extension table;
(e) VIEWS COINCIDE in data_types.py (symbolic lists of symbolic lists, invariants over the yielded prefix).
"""
import ast
import os

import z3

from pyvc import loader, ops
from pyvc.contracts import FnContract, LoopSpec, Raises
from pyvc.flow import dotted, ground_obligation
from pyvc.values import NONE, VBool, VExt, VInt, VNoneT, VRef, VSeq, VStr, VTuple, VUnk, ext_sort, fresh_name
from pyvc.verify import Maker, p_str

from contracts import c14_exec as X
from contracts import c14_spec as SP
from contracts.c14_exec import C14Executor, p_symbytes, data_of
from contracts.c03_exec import Conj

EX = "sharepoint2text/parsing/extractors/"
DOCX = EX + "ms_modern/docx_extractor.py"
PPTX = EX + "ms_modern/pptx_extractor.py"
XLSX = EX + "ms_modern/xlsx_extractor.py"
IMGU = EX + "util/image_utils.py"
ZIPU = EX + "util/zip_utils.py"
EPUB = EX + "epub_extractor.py"
DT = EX + "data_types.py"

EXECUTOR = C14Executor
EXECUTOR_KW = {}
REPLAY_UNKNOWN = True      # DESIGN 2.5.3c: what the solver leaves open goes to the native small-scope search


# =====================================================================================
# (b) dimension sniffers
# =====================================================================================
def _item_is(item, want, optional):
    """Bool: a returned component equals the expected integer `want` (Int term); with `optional`, 0 is reported as None."""
    if isinstance(item, VNoneT):
        return (want == 0) if optional else z3.BoolVal(False)
    if isinstance(item, (VInt, VBool)):
        t = ops.int_term(item)
        return z3.And(t == want, want != 0) if optional else t == want
    return z3.BoolVal(False)


def result_is(c, w, h, optional):
    r = c.result
    if not isinstance(r, VTuple) or len(r.items) != 2:
        return z3.BoolVal(False)
    return z3.And(_item_is(r.items[0], w, optional), _item_is(r.items[1], h, optional))


def result_is_none(c):
    r = c.result
    return z3.BoolVal(isinstance(r, VTuple) and len(r.items) == 2 and all(isinstance(x, VNoneT) for x in r.items))


def result_positive_or_none(c):
    r = c.result
    if not isinstance(r, VTuple) or len(r.items) != 2:
        return z3.BoolVal(False)
    cs = []
    for x in r.items:
        if isinstance(x, VNoneT):
            continue
        if isinstance(x, (VInt, VBool)):
            cs.append(ops.int_term(x) > 0)
        else:
            return z3.BoolVal(False)
    return z3.And(cs + [z3.BoolVal(True)])


def _d(c, name):
    D, N = data_of(c.args[name])
    return SP.Data(D, N)


def _jpeg(c, name):
    return SP.Jpeg(_d(c, name))


def sniffer_contract(rel, fill=True):
    """docx / pptx / xlsx `_get_image_pixel_dimensions(image_data) -> (w | None, h | None)`."""
    def jp(c):
        return SP.Jpeg(_d(c, "image_data"), fill=fill)

    def e_png(c):
        d = _d(c, "image_data")
        w, h = SP.png_size(d)
        return z3.Implies(SP.png_declares(d), result_is(c, w, h, True))

    def e_gif(c):
        d = _d(c, "image_data")
        w, h = SP.gif_size(d)
        return z3.Implies(SP.gif_declares(d), result_is(c, w, h, True))

    def e_bmp(c):
        d = _d(c, "image_data")
        w, h = SP.bmp_size(d)
        return z3.Implies(SP.bmp_declares(d), result_is(c, SP.zabs(w), SP.zabs(h), True))

    def e_jpeg(c):
        j = jp(c)
        w, h = j.size()
        return z3.Implies(j.declares(), result_is(c, w, h, True))

    def e_none(c):
        d = _d(c, "image_data")
        return z3.Implies(z3.Not(SP.known_signature(d)), result_is_none(c))

    def inv(lc):
        j = SP.Jpeg(SP.Data(*data_of(lc.entry.lookup("image_data"))), fill=fill)
        i = ops.int_term(lc["i"])
        two = z3.IntVal(2)
        lc.st.assume(j.defn(i))          # definitional instance of the chain at the current offset (spec function, not a claim)
        return z3.And(i >= 2, z3.Or(j.KIND(two) == SP.OTHER, j.same(i, two)))

    return FnContract(
        target=f"{rel}::_get_image_pixel_dimensions",
        params=[("image_data", p_symbytes())],
        hyps=lambda c: jp(c).defn(z3.IntVal(2)),
        ensures=[("png-ihdr", e_png), ("gif-screen", e_gif), ("bmp-infoheader", e_bmp), ("jpeg-first-sof", e_jpeg),
                 ("no-known-signature-no-size", e_none), ("size-positive-or-none", result_positive_or_none)],
        raises=[],
        loops={0: LoopSpec(inv=inv, label="jpeg-chain")},
        note="pixel size = the size the file declares (PNG IHDR / GIF screen / BMP info header / first JPEG SOFn on the marker chain)",
    )


def image_utils_contracts():
    def jp(c, name="data"):
        return SP.Jpeg(_d(c, name))

    def hyps(c):
        j = jp(c)
        return z3.And(j.axiom(), j.tail_lemma())

    def inv(lc):
        j = SP.Jpeg(SP.Data(*data_of(lc.entry.lookup("data"))))
        o = ops.int_term(lc["offset"])
        two = z3.IntVal(2)
        lc.st.assume(z3.And(j.defn(o), j.tail_at(o)))   # definitional instance + proved tail lemma at the current offset
        return z3.And(o >= 2, z3.Or(j.KIND(two) == SP.OTHER, j.same(o, two)))

    def e_jpeg(c):
        j = jp(c)
        w, h = j.size()
        return z3.Implies(j.declares(), result_is(c, w, h, False))

    gj = FnContract(
        target=f"{IMGU}::get_jpeg_dimensions",
        params=[("data", p_symbytes())],
        hyps=lambda c: jp(c).defn(z3.IntVal(2)),
        ensures=[("jpeg-first-sof", e_jpeg)],
        raises=[],
        loops={0: LoopSpec(inv=inv, label="jpeg-chain")},
        inline=True,          # callers execute the real body; its loop is cut by the same (separately proved) invariant
        note="(width, height) of the first SOFn frame header on the marker chain",
    )

    def typ(c, *names):
        return z3.Or([c.args["image_type"].t == z3.StringVal(n) for n in names])

    def g_png(c):
        d = _d(c, "data")
        w, h = SP.png_size(d)
        return z3.Implies(z3.And(typ(c, "png"), SP.png_declares(d)), result_is(c, w, h, False))

    def g_gif(c):
        d = _d(c, "data")
        w, h = SP.gif_size(d)
        return z3.Implies(z3.And(typ(c, "gif"), SP.gif_declares(d)), result_is(c, w, h, False))

    def g_bmp(c):
        d = _d(c, "data")
        w, h = SP.bmp_size(d)
        return z3.Implies(z3.And(typ(c, "bmp"), SP.bmp_declares(d), w > 0), result_is(c, w, SP.zabs(h), False))

    def g_jpeg(c):
        j = jp(c)
        w, h = j.size()
        return z3.Implies(z3.And(typ(c, "jpeg", "jpg"), j.declares()), result_is(c, w, h, False))

    def g_other(c):
        return z3.Implies(z3.Not(typ(c, "png", "gif", "bmp", "jpeg", "jpg")), result_is_none(c))

    gi = FnContract(
        target=f"{IMGU}::get_image_dimensions",
        params=[("data", p_symbytes()), ("image_type", p_str())],
        hyps=lambda c: jp(c).defn(z3.IntVal(2)),      # definitional instance of the chain at its start
        ensures=[("png-ihdr", g_png), ("gif-screen", g_gif), ("bmp-infoheader", g_bmp), ("jpeg-first-sof", g_jpeg),
                 ("unknown-type-no-size", g_other)],
        raises=[],
        note="size declared by the file for the type the caller names",
    )

    return [gj, gi]


def contracts(reg):
    X.install_models(reg)
    out = []
    for rel in (DOCX, PPTX, XLSX):
        out.append(sniffer_contract(rel))
    out.extend(image_utils_contracts())
    return out


def lemmas():
    """JPEG tail lemma by induction on N - o: a frame header needs 10 bytes."""
    D = z3.Array("L.D", z3.IntSort(), z3.IntSort())
    N = z3.Int("L.len")
    d = SP.Data(D, N)
    j = SP.Jpeg(d)
    o = z3.Int("o")
    L = d.u(o + 2, 2)

    def ih(x):
        return z3.Implies(z3.And(x >= 0, x + 10 > N), j.KIND(x) == SP.OTHER)
    return [("C14/image_utils.py::jpeg-chain/lemma#no-frame-header-in-the-last-9-bytes",
             [N >= 0, X.byte_range(D), o >= 0, j.defn(o), ih(o + 1), ih(o + 2 + L)], ih(o))]


TRUSTED = ["zipfile member reads (ZipFile.read returns the stored member)", "pypdf image decoding", "mimetypes.guess_type (ODF content types)"]
ASSUMED_MODELS = ["str.split('/') = SEGS, '/'.join = JOINS (uninterpreted; replay validates the executable twin against CPython)",
                  "int.from_bytes / struct.unpack on (clamped) slices", "bytes.startswith / == on byte strings"]
ASSUMPTIONS = ["JPEG: a stream that leaves the T.81 marker chain before a frame header (non-FF byte at a marker position, standalone marker, "
               "EOI/SOS first, truncated frame header) declares no size in the sense of the statement: result unconstrained there",
               "BMP: signed little-endian width / height at 18 / 22 as in the property's format clause (BITMAPINFOHEADER family)"]
BOUNDED = []
