"""C14 -- images are returned bit-exact, numbered, on the right unit.

Obligations (all generated from the real source on every run):

(a) TARGET RESOLUTION = the OPC spec function RESOLVE(base_dir, target) (c14_spec): the shared resolver
    by symbolic execution with a loop invariant over the folded segment prefix (unbounded), every
    read site (pptx / docx / xlsx / epub / ODF) as a program slice of the real statements whose result
    must be RESOLVE(directory of the source part, target);
(b) DIMENSION SNIFFERS = format specifications over a byte string of symbolic length: PNG / GIF / BMP
    loop-free, JPEG by the tail-recursive chain invariant `chain(i) == chain(2)` (unbounded number of
    markers); three OOXML copies + image_utils;
(c) NUMBERING discipline of every image counter (AST path counting);
(d) BYTES DATAFLOW from the container read to the image object, content type from the extension table;
(e) VIEWS COINCIDE in data_types.py (symbolic lists of symbolic lists, invariants over the yielded prefix).

(f) OBSERVATION ACCESSORS (round 7, contracts/c14_access.py): get_metadata / get_content_type / get_bytes of DocxImage, PptxImage, XlsxImage,
    OpenDocumentImage, EpubImage, PdfImage, RtfImage on abstract instances -- what the caller observes is what the extractor stored (number,
    unit, positive size or None, content type, a stream over exactly the stored payload positioned at 0); content-type helpers
    `xlsx._get_content_type` and ODF `guess_content_type` under contracts over a symbolic part name; table keys proved == LOWER(extension).

Round 5: the content-type claim includes the body of the module's content-type helper (`_ct_helper_body`); a key expression of a pure shape
outside EXT_SHAPES is executed on EXT_CORPUS (bounded stand-in); helpers are read after normalisation (dict literal / `**kwargs` / parameter
copies); `[*a, *b]` over sequence-valued lists is a concatenation (c14_exec); os.path string functions are total (c14_sites.TOTAL_CALLS);
the replayer writes media part names with lower / UPPER / Capitalised extensions and builds units with text, blank text and no text.
"""
import ast
import os

import z3

from pyvc import loader, ops
from pyvc.contracts import FnContract, LoopSpec, Raises
from pyvc.flow import dotted, ground_obligation
from pyvc.values import NONE, VBool, VExt, VInt, VNoneT, VRef, VSeq, VStr, VTuple, VUnk, ext_sort, fresh_name
from pyvc.verify import Maker, p_str

from contracts import c14_exec as X
from contracts.c14_inline import line_of as LN, inlined as inline_helpers
from contracts import c14_spec as SP
from contracts.c14_exec import C14Executor, p_symbytes, data_of
from contracts.c03_exec import Conj

EX = "sharepoint2text/parsing/extractors/"
DOCX = EX + "ms_modern/docx_extractor.py"
PPTX = EX + "ms_modern/pptx_extractor.py"
XLSX = EX + "ms_modern/xlsx_extractor.py"
IMGU = EX + "util/image_utils.py"
ZIPU = EX + "util/zip_utils.py"
EPUB = EX + "epub_extractor.py"
DT = EX + "data_types.py"

EXECUTOR = C14Executor
EXECUTOR_KW = {}
REPLAY_UNKNOWN = True      # DESIGN 2.5.3c: what the solver leaves open goes to the native small-scope search


# =====================================================================================
# (b) dimension sniffers
# =====================================================================================
def _item_is(item, want, optional):
    """Bool: a returned component equals the expected integer `want` (Int term); with `optional`, 0 is reported as None."""
    if isinstance(item, VNoneT):
        return (want == 0) if optional else z3.BoolVal(False)
    if isinstance(item, (VInt, VBool)):
        t = ops.int_term(item)
        return z3.And(t == want, want != 0) if optional else t == want
    return z3.BoolVal(False)


def result_is(c, w, h, optional):
    r = c.result
    if not isinstance(r, VTuple) or len(r.items) != 2:
        return z3.BoolVal(False)
    return z3.And(_item_is(r.items[0], w, optional), _item_is(r.items[1], h, optional))


def result_is_none(c):
    r = c.result
    return z3.BoolVal(isinstance(r, VTuple) and len(r.items) == 2 and all(isinstance(x, VNoneT) for x in r.items))


def result_positive_or_none(c):
    r = c.result
    if not isinstance(r, VTuple) or len(r.items) != 2:
        return z3.BoolVal(False)
    cs = []
    for x in r.items:
        if isinstance(x, VNoneT):
            continue
        if isinstance(x, (VInt, VBool)):
            cs.append(ops.int_term(x) > 0)
        else:
            return z3.BoolVal(False)
    return z3.And(cs + [z3.BoolVal(True)])


def _d(c, name):
    D, N = data_of(c.args[name])
    return SP.Data(D, N)


def _jpeg(c, name):
    return SP.Jpeg(_d(c, name))


def _while_var(rel, qual, ordinal=0):
    """Name of the offset variable of the `ordinal`-th while loop: the name that occurs in the loop test and is assigned in the body
    (found on the real AST, so renaming the local does not matter)."""
    fn = loader.module(rel).functions.get(qual)
    if fn is None:
        return None
    loops = sorted([n for n in ast.walk(fn) if isinstance(n, (ast.For, ast.While))], key=lambda n: (n.lineno, n.col_offset))
    if ordinal >= len(loops) or not isinstance(loops[ordinal], ast.While):
        return None
    lp = loops[ordinal]
    test = {n.id for n in ast.walk(lp.test) if isinstance(n, ast.Name)}
    assigned = {n.id for b in lp.body for n in ast.walk(b) if isinstance(n, ast.Name) and isinstance(n.ctx, ast.Store)}
    both = sorted(test & assigned)
    return both[0] if len(both) == 1 else None


# ---------------------------------------------------------------------------------------------------------------------
# functions located by ROLE when their usual name is gone (a private helper was renamed): obligation ids keep the usual name
# ---------------------------------------------------------------------------------------------------------------------
def _constructs(ctor, with_param_number=False):
    def role(f):
        for n in ast.walk(f):
            if isinstance(n, ast.Call) and isinstance(n.func, ast.Name) and n.func.id == ctor:
                if not with_param_number:
                    return True
                params = {a.arg for a in f.args.args}
                if any(k.arg in ("image_index", "index") and isinstance(k.value, ast.Name) and k.value.id in params for k in n.keywords):
                    return True
        return False
    return role


def _is_sniffer(f):
    has_sig = any(isinstance(n, ast.Constant) and n.value == SP.PNG_SIG for n in ast.walk(f))
    return has_sig and any(isinstance(n, ast.Attribute) and n.attr == "from_bytes" for n in ast.walk(f))


def _calls_one_that(role):
    def r(f, mod=None):
        if mod is None:
            return False
        names = {q for q, g in mod.functions.items() if isinstance(g, ast.FunctionDef) and g is not f and role(g)}
        return any(isinstance(n, ast.Call) and isinstance(n.func, ast.Name) and n.func.id in names for n in ast.walk(f)) and not role(f)
    return r


_ROLES = {}


def _init_roles():
    if _ROLES:
        return
    for rel in (DOCX, PPTX, XLSX):
        _ROLES[(rel, "_get_image_pixel_dimensions")] = _is_sniffer
    _ROLES[(DOCX, "_extract_images_from_context")] = _constructs("DocxImage")
    _ROLES[(PPTX, "_process_slide_from_context")] = _constructs("PptxImage")
    _ROLES[(XLSX, "_extract_images_from_zip")] = _constructs("XlsxImage")
    for rel, nm in ((ODT, "_extract_images_from_context"), (ODS, "_extract_images"), (ODG, "_extract_images")):
        _ROLES[(rel, nm)] = _constructs("OpenDocumentImage")
    _ROLES[(ODP, "_extract_image")] = _constructs("OpenDocumentImage", True)
    _ROLES[(ODP, "_extract_slide")] = _calls_one_that(_constructs("OpenDocumentImage", True))
    _ROLES[(EPUB, "_extract_images")] = _constructs("EpubImage")
    _ROLES[(PDF, "_extract_image")] = _constructs("PdfImage")
    _ROLES[(PDF, "_extract_image_bytes")] = _calls_one_that(_constructs("PdfImage"))


def real_name(rel, default, repo=None):
    """Name of the function that plays the role `default` usually plays in module `rel` (the function itself when it exists)."""
    mod = loader.module(rel, repo)
    if default in mod.functions:
        return default
    _init_roles()
    role = _ROLES.get((rel, default))
    if role is None:
        return default
    def holds(f):
        try:
            return role(f, mod)
        except TypeError:
            return role(f)
    cands = [q for q, f in mod.functions.items() if isinstance(f, ast.FunctionDef) and holds(f)]
    if len(cands) > 1:      # prefer the innermost: a function that does not call another candidate
        inner = [q for q in cands if not any(isinstance(n, ast.Call) and isinstance(n.func, ast.Name) and n.func.id in cands and n.func.id != q
                                            for n in ast.walk(mod.functions[q]))]
        cands = inner or cands
    return cands[0] if len(cands) == 1 else default


def _loop_roles(lc, default_var):
    """(offset variable, byte string) of the marker loop in the frame that executes it -- by role, so that the loop may live in a helper
    with its own names: the variable that is read in the loop test and written in the body; the byte string of symbolic length in scope."""
    fnode = getattr(lc.st.frame, "fnode", None)
    var = None
    if fnode is not None:
        for n in ast.walk(fnode):
            if isinstance(n, ast.While):
                test = {x.id for x in ast.walk(n.test) if isinstance(x, ast.Name)}
                assigned = {x.id for b in n.body for x in ast.walk(b) if isinstance(x, ast.Name) and isinstance(x.ctx, ast.Store)}
                both = sorted(test & assigned)
                if len(both) == 1:
                    var = both[0]
                break
    var = var or default_var
    data = None
    for fr in reversed(lc.entry.frames):
        for v in fr.env.values():
            if isinstance(v, VSeq) and v.is_bytes and isinstance(v.tag, tuple) and v.tag and v.tag[0] == "symbytes":
                data = v
                break
        if data is not None:
            break
    return var, data


def _param_name(rel, qual, k=0):
    fn = loader.module(rel).functions.get(qual)
    return fn.args.args[k].arg if fn is not None and len(fn.args.args) > k else None


def sniffer_contract(rel, fill=True):
    """docx / pptx / xlsx `_get_image_pixel_dimensions(image_data) -> (w | None, h | None)`."""
    qn = real_name(rel, "_get_image_pixel_dimensions")
    from contracts import c14_inline
    c14_inline.KEEP.add(qn)
    ivar = _while_var(rel, qn) or "i"
    pn = _param_name(rel, qn, 0) or "image_data"     # parameter by position, not by name

    def jp(c):
        return SP.Jpeg(_d(c, pn), fill=fill)

    def e_png(c):
        d = _d(c, pn)
        w, h = SP.png_size(d)
        return z3.Implies(SP.png_declares(d), result_is(c, w, h, True))

    def e_gif(c):
        d = _d(c, pn)
        w, h = SP.gif_size(d)
        return z3.Implies(SP.gif_declares(d), result_is(c, w, h, True))

    def e_bmp(c):
        d = _d(c, pn)
        w, h = SP.bmp_size(d)
        return z3.Implies(SP.bmp_declares(d), result_is(c, SP.zabs(w), SP.zabs(h), True))

    def e_jpeg(c):
        j = jp(c)
        w, h = j.size()
        return z3.Implies(j.declares(), result_is(c, w, h, True))

    def e_none(c):
        d = _d(c, pn)
        return z3.Implies(z3.Not(SP.known_signature(d)), result_is_none(c))

    def inv(lc):
        var, data = _loop_roles(lc, ivar)
        if data is None:
            return z3.BoolVal(False)
        j = SP.Jpeg(SP.Data(*data_of(data)), fill=fill)
        i = ops.int_term(lc[var])
        two = z3.IntVal(2)
        lc.st.assume(j.defn(i))          # definitional instance of the chain at the current offset (spec function, not a claim)
        return z3.And(i >= 2, z3.Or(j.KIND(two) == SP.OTHER, j.same(i, two)))

    return FnContract(
        target=f"{rel}::{qn}", oid_name="_get_image_pixel_dimensions",
        params=[(pn, p_symbytes())],
        hyps=lambda c: jp(c).defn(z3.IntVal(2)),
        ensures=[("png-ihdr", e_png), ("gif-screen", e_gif), ("bmp-infoheader", e_bmp), ("jpeg-first-sof", e_jpeg),
                 ("no-known-signature-no-size", e_none), ("size-positive-or-none", result_positive_or_none)],
        raises=[],
        loops={0: LoopSpec(inv=inv, label="jpeg-chain")},
        note="pixel size = the size the file declares (PNG IHDR / GIF screen / BMP info header / first JPEG SOFn on the marker chain)",
    )


def image_utils_contracts():
    ovar = _while_var(IMGU, "get_jpeg_dimensions") or "offset"
    jn = _param_name(IMGU, "get_jpeg_dimensions", 0) or "data"
    dn = _param_name(IMGU, "get_image_dimensions", 0) or "data"
    tn = _param_name(IMGU, "get_image_dimensions", 1) or "image_type"

    def jp(c, name=None):
        name = name or (jn if jn in c.args else dn)
        return SP.Jpeg(_d(c, name))

    def hyps(c):
        j = jp(c)
        return z3.And(j.axiom(), j.tail_lemma())

    def inv(lc):
        var, data = _loop_roles(lc, ovar)
        if data is None:
            return z3.BoolVal(False)
        j = SP.Jpeg(SP.Data(*data_of(data)))
        o = ops.int_term(lc[var])
        two = z3.IntVal(2)
        lc.st.assume(z3.And(j.defn(o), j.tail_at(o)))   # definitional instance + proved tail lemma at the current offset
        return z3.And(o >= 2, z3.Or(j.KIND(two) == SP.OTHER, j.same(o, two)))

    def e_jpeg(c):
        j = jp(c)
        w, h = j.size()
        return z3.Implies(j.declares(), result_is(c, w, h, False))

    gj = FnContract(
        target=f"{IMGU}::get_jpeg_dimensions",
        params=[(jn, p_symbytes())],
        hyps=lambda c: jp(c).defn(z3.IntVal(2)),
        ensures=[("jpeg-first-sof", e_jpeg)],
        raises=[],
        loops={0: LoopSpec(inv=inv, label="jpeg-chain")},
        inline=True,          # callers execute the real body; its loop is cut by the same (separately proved) invariant
        note="(width, height) of the first SOFn frame header on the marker chain",
    )

    def typ(c, *names):
        return z3.Or([c.args[tn].t == z3.StringVal(n) for n in names])

    def g_png(c):
        d = _d(c, dn)
        w, h = SP.png_size(d)
        return z3.Implies(z3.And(typ(c, "png"), SP.png_declares(d)), result_is(c, w, h, False))

    def g_gif(c):
        d = _d(c, dn)
        w, h = SP.gif_size(d)
        return z3.Implies(z3.And(typ(c, "gif"), SP.gif_declares(d)), result_is(c, w, h, False))

    def g_bmp(c):
        d = _d(c, dn)
        w, h = SP.bmp_size(d)
        return z3.Implies(z3.And(typ(c, "bmp"), SP.bmp_declares(d), w > 0), result_is(c, w, SP.zabs(h), False))

    def g_jpeg(c):
        j = jp(c)
        w, h = j.size()
        return z3.Implies(z3.And(typ(c, "jpeg", "jpg"), j.declares()), result_is(c, w, h, False))

    def g_other(c):
        return z3.Implies(z3.Not(typ(c, "png", "gif", "bmp", "jpeg", "jpg")), result_is_none(c))

    gi = FnContract(
        target=f"{IMGU}::get_image_dimensions",
        params=[(dn, p_symbytes()), (tn, p_str())],
        hyps=lambda c: jp(c).defn(z3.IntVal(2)),      # definitional instance of the chain at its start
        ensures=[("png-ihdr", g_png), ("gif-screen", g_gif), ("bmp-infoheader", g_bmp), ("jpeg-first-sof", g_jpeg),
                 ("unknown-type-no-size", g_other)],
        raises=[],
        note="size declared by the file for the type the caller names",
    )

    return [gj, gi]


# =====================================================================================
# (a) target resolution: resolver functions
# =====================================================================================
def resolver_contract():
    """zip_utils.resolve_part_name(base_dir, target) == RESOLVE(base_dir, target), for all strings (unbounded)."""
    def inv(lc):
        ex = lc.ex
        # roles, not names: the segments iterated (loop iterable) and the one other list of strings of the frame (the stack)
        parts = ex.zterm(lc.st, lc.seq) if lc.seq is not None else None
        others = [v for k, v in lc.st.frame.env.items() if isinstance(v, VRef) and not (isinstance(lc.seq, VRef) and v.ref == lc.seq.ref)
                  and lc.st.obj(v.ref).kind in ("zlist", "list") and ex.zterm(lc.st, v) is not None]
        resolved = ex.zterm(lc.st, others[0]) if len(others) == 1 else None
        if parts is None or resolved is None:
            return z3.BoolVal(False)
        lc.st.assume(SP.fold_defn(parts, lc.i))      # definition of the spec fold at the current prefix
        return resolved == SP.FOLDP(parts, lc.i if z3.is_expr(lc.i) else z3.IntVal(lc.i))

    b0, t0 = _param_name(ZIPU, "resolve_part_name", 0) or "base_dir", _param_name(ZIPU, "resolve_part_name", 1) or "target"
    return FnContract(
        target=f"{ZIPU}::resolve_part_name",
        params=[(b0, p_str()), (t0, p_str())],
        returns=lambda c: VStr(SP.RESOLVE(c.args[b0].t, c.args[t0].t)),
        raises=[],
        loops={0: LoopSpec(inv=inv, label="segment-fold")},
        note="OPC part-name resolution: absolute targets are package-root relative, '..' pops, '.' and empty segments are dropped",
    )


def delegating_resolvers():
    """Format-level resolvers: their result must be RESOLVE(<directory of the source part>, target)."""
    out = []
    b1, t1 = _param_name(PPTX, "_normalize_relative_path", 0) or "base_dir", _param_name(PPTX, "_normalize_relative_path", 1) or "target"
    out.append(FnContract(
        target=f"{PPTX}::_normalize_relative_path",
        params=[(b1, p_str()), (t1, p_str())],
        returns=lambda c: VStr(SP.RESOLVE(c.args[b1].t, c.args[t1].t)),
        raises=[], note="pptx: relationship target against the slide directory"))
    t2 = _param_name(XLSX, "_resolve_drawing_path", 0) or "target"
    out.append(FnContract(
        target=f"{XLSX}::_resolve_drawing_path",
        params=[(t2, p_str())],
        returns=lambda c: VStr(SP.RESOLVE(z3.StringVal("xl/worksheets"), c.args[t2].t)),
        raises=[], note="xlsx: sheet -> drawing relationship target; the source part is xl/worksheets/sheetN.xml"))
    return out


# =====================================================================================
# (a) target resolution: read sites (program slices of the real statements)
# =====================================================================================
ODT = EX + "open_office/odt_extractor.py"
ODP = EX + "open_office/odp_extractor.py"
ODS = EX + "open_office/ods_extractor.py"
ODG = EX + "open_office/odg_extractor.py"
HREF_KEYS = ("_ATTR_XLINK_HREF", "href")

# base: how the spec obtains the directory of the part that holds the reference
SITES = [
    dict(rel=PPTX, fn="_process_slide_from_context", sinks=("get_image_data",), keys=("target",), base=("dirname", "@param:1"), label="slide-image",
         why="source part = the slide part `slide_path`"),
    dict(rel=DOCX, fn="_extract_images_from_context", sinks=("get_image_data",), keys=("target",), base=("const", "word"), label="document-image",
         why="source part = word/document.xml"),
    dict(rel=XLSX, fn="_extract_images_from_zip", sinks=("read_bytes",), keys=("target",), base=("dirname", "@items-loop-value"), label="drawing-image",
         why="source part = the drawing part `drawing_path`"),
    dict(rel=EPUB, fn="_extract_images", sinks=("read_bytes",), keys=("href",), base=("field", "ctx", "_opf_dir"), decode=True, label="manifest-image",
         why="source part = the OPF package document", makers={"ctx": ("obj", "_EpubContext", ("_opf_dir",))}),
    dict(rel=ODT, fn="_extract_images_from_context", sinks=("read_bytes",), keys=HREF_KEYS, base=("const", ""), label="frame-image",
         why="ODF: package-relative IRI resolved against the package root"),
    dict(rel=ODP, fn="_extract_image", sinks=("read_bytes",), keys=HREF_KEYS, base=("const", ""), label="frame-image", why="ODF root"),
    dict(rel=ODS, fn="_extract_images", sinks=("read_bytes",), keys=HREF_KEYS, base=("const", ""), label="frame-image", why="ODF root"),
    dict(rel=ODG, fn="_extract_images", sinks=("read_bytes",), keys=HREF_KEYS, base=("const", ""), label="frame-image", why="ODF root"),
]


def _stores_into(attr_or_name):
    """sink finder: the value stored by `<X>[k] = value` where X is the local / attribute named `attr_or_name`"""
    def find(fn):
        out = []
        for n in ast.walk(fn):
            if isinstance(n, ast.Assign) and len(n.targets) == 1 and isinstance(n.targets[0], ast.Subscript):
                base = n.targets[0].value
                nm = base.id if isinstance(base, ast.Name) else (base.attr if isinstance(base, ast.Attribute) else None)
                if nm == attr_or_name:
                    out.append((n.value, n))
        return sorted(out, key=lambda x: (x[1].lineno, x[1].col_offset))
    return find


def _rels_reads(ordinal_of_interest):
    """sink finder: the argument of the k-th `read_xml_root(...)` call of the function (source order)"""
    def find(fn):
        calls = sorted([n for n in ast.walk(fn) if isinstance(n, ast.Call) and isinstance(n.func, ast.Attribute) and n.func.attr == "read_xml_root" and n.args],
                       key=lambda n: (n.lineno, n.col_offset))
        return [(calls[ordinal_of_interest].args[0], calls[ordinal_of_interest])] if len(calls) > ordinal_of_interest else []
    return find


def _arg_of_store_value(attr):
    """sink finder: `self.<attr>[k] = self.read_xml_root(E)`: the expression E"""
    def find(fn):
        out = []
        for (v, n) in _stores_into(attr)(fn):
            if isinstance(v, ast.Call) and isinstance(v.func, ast.Attribute) and v.func.attr == "read_xml_root" and v.args:
                out.append((v.args[0], n))
        return out
    return find


def _stores_in_relationship_loops(fn):
    """values stored into a local table inside `for rel in parse_relationships(...)`: the resolved names of the relationship targets"""
    from contracts.c14_flow import parent_map, ancestors
    pm = parent_map(fn)
    out = []
    for n in ast.walk(fn):
        if isinstance(n, ast.Assign) and len(n.targets) == 1 and isinstance(n.targets[0], ast.Subscript) and isinstance(n.targets[0].value, ast.Name):
            if any(isinstance(a, ast.For) and isinstance(a.iter, ast.Call) and dotted(a.iter.func).split(".")[-1] == "parse_relationships" for a in ancestors(pm, n)):
                out.append((n.value, n))
    return sorted(out, key=lambda x: (x[1].lineno, x[1].col_offset))


def _pptx_slide_rels(fn):
    """`self._slide_rels_roots[<slide path>] = self.read_xml_root(E)`: sink E, owner = the name used as key"""
    for n in ast.walk(fn):
        if isinstance(n, ast.Assign) and len(n.targets) == 1 and isinstance(n.targets[0], ast.Subscript) and isinstance(n.targets[0].value, ast.Attribute) \
                and "rels" in n.targets[0].value.attr and isinstance(n.targets[0].slice, ast.Name):
            v = n.value
            if isinstance(v, ast.Call) and isinstance(v.func, ast.Attribute) and v.func.attr == "read_xml_root" and v.args:
                return [(v.args[0], n)], n.targets[0].slice.id
    return [], None


def _items_loops(fn):
    """for-loops over `<table>.items()`: [(loop, table name)]"""
    out = []
    for n in ast.walk(fn):
        if isinstance(n, ast.For) and isinstance(n.iter, ast.Call) and isinstance(n.iter.func, ast.Attribute) and n.iter.func.attr == "items" \
                and isinstance(n.iter.func.value, ast.Name):
            out.append((n, n.iter.func.value.id))
    return sorted(out, key=lambda x: (x[0].lineno, x[0].col_offset))


def _xlsx_drawing_rels(fn):
    """The relationship part read to fill the table from which the name handed to read_bytes() is taken; owner = the loop variable that
    holds the drawing part (second target of the loop over the sheet -> drawing table)."""
    from contracts import c14_flow as F
    pm = F.parent_map(fn)
    owner = None
    for (lp, _m) in _items_loops(fn):
        if isinstance(lp.target, ast.Tuple) and len(lp.target.elts) == 2 and isinstance(lp.target.elts[1], ast.Name):
            owner = lp.target.elts[1].id
            break
    for call in F.method_calls(fn, ("read_bytes",)):
        a = call.args[0]
        if not isinstance(a, ast.Name):
            continue
        b = F.reaching(fn, pm, a.id, call)
        tr = F.table_read(b.value) if b is not None and b.kind == "assign" else None
        if tr is None:
            continue
        m = F.resolve_alias(fn, pm, tr[0].id, b.node)
        st = F.map_stores(fn, m)
        if len(st) == 1:
            r = F.relationships_read_feeding(fn, pm, st[0])
            if r is not None:
                return [r], owner
    return [], owner


def _xlsx_sheet_rels(fn):
    """The relationship part read to fill the sheet -> drawing table; owner = the key under which the drawing is stored (sheet index)."""
    from contracts import c14_flow as F
    pm = F.parent_map(fn)
    for (lp, m) in _items_loops(fn):
        m2 = F.resolve_alias(fn, pm, m, lp)
        st = F.map_stores(fn, m2)
        if len(st) == 1 and isinstance(st[0].targets[0].slice, ast.Name):
            r = F.relationships_read_feeding(fn, pm, st[0])
            if r is not None:
                return [r], st[0].targets[0].slice.id
    return [], None


def _has_dir(name):
    return lambda c: z3.Contains(c.args[name].t, z3.StringVal("/"))


SHEET_PART = z3.Function("xlsx_sheet_part_of_tab", z3.IntSort(), z3.StringSort())     # part name of the k-th sheet (workbook.xml + its relationships)

SITES += [
    # presentation -> slide relationship targets: lost slides lose their pictures
    dict(rel=PPTX, fn="_PptxContext._compute_slide_order", sink=_stores_in_relationship_loops, keys=("target",), base=("const", "ppt"), label="slide-part",
         why="source part = ppt/presentation.xml"),
    # relationship part of a slide / a drawing / a sheet: <dir>/_rels/<name>.rels (OPC)
    dict(rel=PPTX, fn="_PptxContext._load_xml_files", dyn=_pptx_slide_rels, keys=("target",), need_target=False,
         spec_of=lambda c, o: SP.RELS_PART(c.args[o].t), requires_of=_has_dir, label="slide-relationship-part",
         why="relationship part of the slide part"),
    dict(rel=XLSX, fn="_extract_images_from_zip", dyn=_xlsx_drawing_rels, keys=("target",), need_target=False,
         spec_of=lambda c, o: SP.RELS_PART(c.args[o].t), requires_of=_has_dir, label="drawing-relationship-part",
         why="relationship part of the drawing part (found by data flow: the part read to fill the table the image names come from)"),
    dict(rel=XLSX, fn="_extract_images_from_zip", dyn=_xlsx_sheet_rels, keys=("target",), need_target=False, owner_is_int=True,
         spec_of=lambda c, o: SP.RELS_PART(SHEET_PART(c.args[o].t)), label="sheet-relationship-part",
         why="relationship part of the part that workbook.xml names for the k-th sheet"),
]


def _unvalidated_to_unknown(o):
    """A solver model of a VC over uninterpreted spec functions (SEGS / FOLD / JOINS / jpeg chain) is not a refutation
    (DESIGN 2.5.3b): the obligation stays open and goes to the native small-scope search (REPLAY_UNKNOWN)."""
    if o["status"] == "refuted":
        o["status"] = "unknown"
        o["reason"] = ("solver model not validated against the real functions; " + (o.get("reason") or "")).strip("; ")
    return o


def post_report(c, rep):
    rep.obligations = [_unvalidated_to_unknown(o) for o in rep.obligations]
    # A loop specification whose loop no longer exists (the loop became a comprehension / `yield from` / moved away) generates no VC.
    # The obligation ids stay in the report -- with 0 VCs, marked vacuous -- so that the postconditions of the function (which ARE proved
    # from the current source, without that loop) decide, instead of a "locked obligation not generated" drift.
    if rep.error or rep.out_of_subset or not c.loops:
        return
    have = {o["id"] for o in rep.obligations}
    short = c.target.split("::")[0].split("/")[-1]
    prefix = f"C14/{short}::{c.target.split('::')[1]}"
    for spec in c.loops.values():
        if not spec.label:
            continue
        for kind in ("inv-init", "inv-preserve"):
            base = f"{prefix}/{kind}#{spec.label}"
            if not any(h == base or h.startswith(base + ".") for h in have):
                rep.obligations.append({"id": base, "kind": kind, "status": "proved", "vcs": 0, "seconds": 0.0, "backends": {"vacuous": 1}, "witness": None,
                                        "reason": "no such loop in the current source: nothing to establish (the function's postconditions are proved without it)",
                                        "loc": c.target})


def run_site(site, repo, reg=None, uni=None):
    from pyvc import verify
    from pyvc.contracts import Registry
    from pyvc.exctypes import Universe
    from pyvc.verify import p_obj
    from contracts import c14_flow as F
    rel, fname = site["rel"], site["fn"]
    short = rel.split("/")[-1]
    mod = loader.module(rel, repo)
    rname = real_name(rel, fname, repo)
    fn = mod.functions.get(rname)
    if fn is not None:
        fn, _inl = inline_helpers(mod, rname)      # follow the data flow through small private helpers
    base_id = f"C14/{short}::{fname}/resolution#{site['label']}"
    if fn is None:
        return {"obligations": [], "functions": [], "undecided": [{"obligation": f"{rel}::{fname}", "why": "contract-target-missing"}]}
    if reg is None:
        reg = Registry()
        for c in contracts(reg):
            reg.add(c)
        uni = Universe(repo)
    owner = None
    if "dyn" in site:
        try:
            sinks, owner = site["dyn"](fn)  # sink found by following the data flow; `owner` = name holding the owning part / index
        except Exception as e:  # noqa  -- unexpected shape: undecided, never an engine error
            sinks, owner = [], None
        site = dict(site, extra=[owner] if owner else [], spec=(lambda c, o=owner, f=site["spec_of"]: f(c, o)),
                    requires=(site["requires_of"](owner) if site.get("requires_of") and owner else None),
                    int_params=(owner,) if site.get("owner_is_int") and owner else ())
    elif "sink" in site:
        sinks = site["sink"](fn)            # [(expression, node at which it is evaluated)]
    else:
        sinks = [(call.args[0], call) for call in F.method_calls(fn, site["sinks"])]
    obls = []
    if not sinks:
        obls.append(ground_obligation(base_id, False, f"no {site.get('sinks', 'sink')} found: shape not recognised", rel, kind="resolution", definite=False))
    keys = site["keys"]
    for k, (sink_expr, call) in enumerate(sinks):
        oid = f"{base_id}-{k}" if len(sinks) > 1 else base_id
        if site.get("base", ("",))[0] == "dirname" and site["base"][1].startswith("@param:"):
            k = int(site["base"][1].split(":")[1])
            if len(fn.args.args) <= k:
                obls.append(ground_obligation(oid, False, "parameter holding the source part not found", rel, kind="resolution", definite=False))
                continue
            site = dict(site, base=("dirname", fn.args.args[k].arg))
        if site.get("base", ("",))[0] == "dirname" and site["base"][1] == "@items-loop-value":
            nm = next((lp.target.elts[1].id for (lp, _m) in _items_loops(fn) if isinstance(lp.target, ast.Tuple) and len(lp.target.elts) == 2
                       and isinstance(lp.target.elts[1], ast.Name)), None)
            if nm is None:
                obls.append(ground_obligation(oid, False, "no loop over a sheet -> drawing table found: shape not recognised", rel, kind="resolution", definite=False))
                continue
            site = dict(site, base=("dirname", nm))
        extra = list(site.get("extra", [])) + ([site["base"][1]] if site.get("base", ("",))[0] in ("dirname", "field") else [])
        f, sl = F.build_slice_function(fn, sink_expr, call, lambda e: F.is_lookup_of(e, keys), extra_params=extra, extra_sources=extra)
        if f is None:
            obls.append(ground_obligation(oid, False, f"slice not computable: {sl.why}", rel, kind="resolution", definite=False))
            continue
        if "__target" not in sl.sources and site.get("need_target", True):
            obls.append(ground_obligation(oid, False, "the name read does not depend on a relationship target / href", rel, kind="resolution", definite=False))
            continue
        # the slice equates a value read from a local lookup table with the expression stored into it: valid only if the table
        # cannot hold entries of other source parts (relationship ids are scoped by the part that owns the .rels)
        for (mname, rnode, snode) in sl.map_flows:
            ok, why = F.table_scope(fn, F.parent_map(fn), mname, rnode, snode)
            g = ground_obligation(f"{oid}.lookup-table-scope", bool(ok), why, rel, kind="resolution", definite=False)
            g["function"] = f"{rel}::{fname}"
            obls.append(g)
        makers = site.get("makers", {})
        params = []
        for a in f.args.args:
            m = makers.get(a.arg)
            if m is not None and m[0] == "obj":
                params.append((a.arg, p_obj(m[1], {fld: p_str() for fld in m[2]})))
            elif a.arg in site.get("int_params", ()):
                from pyvc.verify import p_int
                params.append((a.arg, p_int(0, None)))
            else:
                params.append((a.arg, p_str()))
        b = site.get("base", ("spec",))

        def returns(c, b=b):
            if "spec" in site:
                return VStr(site["spec"](c))
            t = c.args["__target"].t
            if site.get("decode"):
                t = SP.PCT(t)         # IRI reference: percent-decoded before it is resolved
            if b[0] == "const":
                base = z3.StringVal(b[1])
            elif b[0] == "dirname":
                base = SP.DIRNAME(c.args[b[1]].t)
            else:
                base = c.entry.obj(c.args[b[1]].ref).data[b[2]].t
            return VStr(SP.RESOLVE(base, t))
        c = FnContract(target=f"{rel}::{fname}", params=params, returns=returns, requires=site.get("requires"), raises=[Raises("Exception", sub=True)])
        ex = C14Executor(mod, reg, uni)
        ex.contract = c
        ex.oid_prefix = "slice"
        try:
            got, _cov = verify.generate(ex, c, mod, f)
        except Exception as e:  # noqa  (Unsupported, PathLimit: the slice left the subset -> undecided)
            obls.append(ground_obligation(oid, False, f"slice not executable: {type(e).__name__}: {e}", rel, kind="resolution", definite=False))
            continue
        ob = got.get("slice/returns")
        if ob is None:
            obls.append(ground_obligation(oid, False, "slice has no normal outcome", rel, kind="resolution", definite=False))
            continue
        d = verify.discharge(ob, None, getattr(ex, "witness_terms", {}))
        d = _unvalidated_to_unknown(d)
        d.update(id=oid, kind="resolution", loc=f"{rel}:{LN(call)}", function=f"{rel}::{fname}",
                 replay_hint={"site": site["label"], "slice": ast.unparse(f), "base": list(b)})
        obls.append(d)
    return {"obligations": obls, "functions": [dict(mod.fn_info(rname), obligations=len(obls))]}


def _native(ob, repo):
    import json
    import subprocess
    root = os.path.dirname(os.path.dirname(os.path.abspath(__file__)))
    req = {"property": "C14", "obligation": ob["id"], "witness": ob.get("witness"), "repo": repo}
    try:
        p = subprocess.run(["/venv/bin/python", os.path.join(root, "replay", "run.py")], input=json.dumps(req), capture_output=True, text=True,
                           timeout=600, cwd=root, env=dict(os.environ, VERIF_REPO=repo))
        lines = [l for l in p.stdout.splitlines() if l.startswith("{")]
        return json.loads(lines[-1]) if lines else {"reproduced": False}
    except Exception as e:  # noqa
        return {"reproduced": False, "note": str(e)}


def confirm_natively(res, repo):
    """A refutation obtained by analysing the SHAPE of the code (AST dataflow, slices with uninterpreted spec functions) is a violation only
    when the native replayer reproduces a failing input on the real code; otherwise the obligation is `unknown` (UNDECIDED)."""
    from concurrent.futures import ThreadPoolExecutor
    todo = [o for o in res.get("obligations", []) if o["status"] in ("refuted", "unknown")]
    if not todo:
        return res
    with ThreadPoolExecutor(max_workers=6) as ex:
        outs = list(ex.map(lambda o: _native(o, repo), todo))
    for o, r in zip(todo, outs):
        if r.get("reproduced"):
            o["status"] = "refuted"
            o["reason"] = ((o.get("reason") or "") + "; failing input reproduced natively: " + str(r.get("observed", ""))[:160]).strip("; ")
        else:
            o["status"] = "unknown"
            o["reason"] = ((o.get("reason") or "") + "; not reproduced natively").strip("; ")
    return res


def _site_runner(i):
    def run(repo, tier):
        return confirm_natively(run_site(SITES[i], repo), repo)
    run.__name__ = f"site_{SITES[i]['rel'].split('/')[-1].split('.')[0]}_{SITES[i]['fn']}"
    return run




# =====================================================================================
# relationship TYPE tests: which relationships of a source part are taken for pictures (round 6)
# =====================================================================================
# A relationship part lists relationships of every kind (a worksheet: drawing, vmlDrawing of the comment boxes, comments, hyperlinks,
# printer settings ...).  The guard that picks the relationships of one kind is sliced out of the real function as a function of the
# relationship type alone and executed by the engine on EVERY standard relationship type of that source part (c14_reltypes: ECMA-376
# tables, Transitional + Strict namespace, Microsoft extension types): it must separate the wanted kind from all the others
# (`exact`), or -- where a later lookup by relationship id does the final selection -- accept the wanted kind and tell it from others.
TYPE_SITES = [
    dict(rel=XLSX, fn="_extract_images_from_zip", tests=(("worksheet", "drawing", True, "sheet-drawing"), ("drawing", "image", True, "drawing-image"))),
    dict(rel=DOCX, fn="_extract_images_from_context", tests=(("document", "image", True, "document-image"),)),
    dict(rel=PPTX, fn="_PptxContext._compute_slide_order", tests=(("presentation", "slide", False, "presentation-slide"),)),
]


def _type_tests(fn):
    """[(conjunct, if-node, slice function)]: conditions of the function that depend on a relationship type and on nothing else."""
    from contracts import c14_flow as F
    out = []
    ifs = sorted([n for n in ast.walk(fn) if isinstance(n, ast.If)], key=lambda n: (n.lineno, n.col_offset))
    for node in ifs:
        conj = node.test.values if isinstance(node.test, ast.BoolOp) and isinstance(node.test.op, ast.And) else [node.test]
        for e in conj:
            try:
                f, sl = F.build_slice_function(fn, e, node, lambda x: F.is_lookup_of(x, ("type",)), name="__type_test")
            except Exception:  # noqa
                continue
            if f is not None and set(sl.sources) == {"__target"}:
                out.append((e, node, f))
    return out


def _eval_type_test(mod, reg, uni, f, uri):
    """The sliced guard on one concrete relationship type -> True / False / None (not decided)."""
    from pyvc import verify
    from pyvc.verify import p_const
    seen = []

    def cap(c):
        seen.append(c.result)
        return z3.BoolVal(True)
    c = FnContract(target=f"{mod.rel}::__type_test", params=[("__target", p_const(uri))], ensures=[("value", cap)], raises=[Raises("Exception", sub=True)])
    ex = C14Executor(mod, reg, uni)
    ex.contract = c
    ex.oid_prefix = "slice"
    try:
        verify.generate(ex, c, mod, f)
    except Exception:  # noqa
        return None
    vals = set()
    for r in seen:
        if isinstance(r, (VBool, VInt)):
            t = z3.simplify(ops.int_term(r) != 0) if not isinstance(r, VBool) else z3.simplify(r.t)
            vals.add(True if z3.is_true(t) else False if z3.is_false(t) else None)
        elif isinstance(r, VStr) and r.const() is not None:
            vals.add(bool(r.const()))
        else:
            vals.add(None)
    return vals.pop() if len(vals) == 1 else None


def rel_type_selection(repo, tier):
    from pyvc.contracts import Registry
    from pyvc.exctypes import Universe
    from contracts import c14_reltypes as RT
    obls, fns = [], []
    try:
        reg = Registry()
        for c in contracts(reg):
            reg.add(c)
        uni = Universe(repo)
    except Exception as e:  # noqa
        return {"obligations": [], "functions": [], "undecided": [{"obligation": "C14/rel-type", "why": f"{type(e).__name__}: {e}"}]}
    for site in TYPE_SITES:
        rel, fname = site["rel"], site["fn"]
        short = rel.split("/")[-1]
        ids = [f"C14/{short}::{fname}/rel-type#{lab}-relationships-are-picked-by-kind" for (_p, _k, _x, lab) in site["tests"]]
        try:
            mod = loader.module(rel, repo)
            rname = real_name(rel, fname, repo)
            fn = mod.functions.get(rname)
            if fn is not None:
                fn, _inl = inline_helpers(mod, rname)
            tests = _type_tests(fn) if fn is not None else []
        except Exception as e:  # noqa
            fn, tests = None, []
        if fn is None or len(tests) != len(site["tests"]):
            for oid in ids:
                g = ground_obligation(oid, False, f"{len(tests)} conditions on a relationship type found, {len(site['tests'])} expected: shape not recognised",
                                      rel, kind="rel-type", definite=False)
                g["function"] = f"{rel}::{fname}"
                obls.append(g)
            continue
        for (oid, (part, kind, exact, _lab), (e, node, f)) in zip(ids, site["tests"], tests):
            res = {u: _eval_type_test(mod, reg, uni, f, u) for u in RT.types_of(part)}
            und = [u for u, v in res.items() if v is None]
            want = {u for u in res if RT.kind_of(u) == kind}
            src = ast.unparse(e)[:80]
            if und:
                g = ground_obligation(oid, False, f"line {LN(node)}: `{src}` not decided for {RT.kind_of(und[0])} ({len(und)} types)", rel, kind="rel-type", definite=False)
            else:
                vw = {res[u] for u in want}
                if len(vw) != 1:
                    bad = sorted(u for u in want if res[u] != res[RT.TRANSITIONAL + kind])
                    g = ground_obligation(oid, False, f"line {LN(node)}: `{src}` treats the {kind} relationship types differently: {bad[:2]}", rel, kind="rel-type")
                else:
                    v = vw.pop()
                    wrong = [u for u in res if u not in want and res[u] == v]
                    if exact:
                        g = ground_obligation(oid, not wrong, "" if not wrong else
                                              f"line {LN(node)}: `{src}` does not tell a {kind} relationship from {', '.join(RT.kind_of(u) for u in wrong[:4])} "
                                              f"({wrong[0]}): a part that lists such a relationship next to its {kind} relationship loses or gains pictures",
                                              rel, kind="rel-type")
                    else:
                        ok = len(wrong) < len(res) - len(want)
                        g = ground_obligation(oid, ok, "" if ok else f"line {LN(node)}: `{src}` does not depend on the kind", rel, kind="rel-type")
            g["function"] = f"{rel}::{fname}"
            g["loc"] = f"{rel}:{LN(node)}"
            g["vcs"] = len(res)
            g["backends"] = {"symex-concrete": len(res)}
            obls.append(g)
        fns.append(dict(mod.fn_info(rname), obligations=len(site["tests"])))
    return confirm_natively({"obligations": obls, "functions": fns}, repo)


# =====================================================================================
# ODF lengths -> pixels (width / height of every ODF picture), round 6: contracts/c14_length.py
# =====================================================================================
def odf_length(repo, tier):
    from pyvc import verify
    from pyvc.contracts import Registry
    from pyvc.exctypes import Universe
    from contracts import c14_length as L
    qual = "_odf_length_to_px"
    base = f"C14/data_types.py::{qual}"
    oid = f"{base}/ensures#pixels-at-96-dpi-for-every-absolute-unit"
    try:
        mod = loader.module(DT, repo)
        fn = mod.functions.get(qual)
        if fn is None:
            return {"obligations": [], "functions": [], "undecided": [{"obligation": f"{DT}::{qual}", "why": "contract-target-missing"}]}
        reg = Registry()
        for c in contracts(reg):
            reg.add(c)
        names = L.pattern_names(mod)
        if not names:
            g = ground_obligation(oid, False, "the module's length pattern is not the recognised `number [unit]` expression", DT, kind="ensures", definite=False)
            g["function"] = f"{DT}::{qual}"
            return confirm_natively({"obligations": [g], "functions": [dict(mod.fn_info(qual), obligations=1)]}, repo)
        ex = type("LengthExecutorHere", (L.LengthExecutor,), {"PATTERNS": frozenset(names)})(mod, reg, Universe(repo))
        from pyvc.verify import p_opt      # round 7: the parameter is `str | None` as annotated (None / "" -> None), the accessors pass stored Optional lengths
        c = FnContract(target=f"{DT}::{qual}", params=[("length", p_opt(p_str()))], ensures=[("pixels-at-96-dpi-for-every-absolute-unit", L.spec)], raises=[],
                       note="CSS absolute lengths at 96 dpi; float rounding within 1/2 + 1e-9 relative")
        ex.contract = c
        ex.oid_prefix = base
        got, _cov = verify.generate(ex, c, mod, fn)
        obls = []
        for k, ob in got.items():
            d = verify.discharge(ob, None, getattr(ex, "witness_terms", {}))
            d.update(function=f"{DT}::{qual}")
            obls.append(d)
        return confirm_natively({"obligations": obls, "functions": [dict(mod.fn_info(qual), obligations=len(obls))]}, repo)
    except Exception as e:  # noqa  -- outside the subset: undecided, the native grid decides
        g = ground_obligation(oid, False, f"not executable: {type(e).__name__}: {e}"[:300], DT, kind="ensures", definite=False)
        g["function"] = f"{DT}::{qual}"
        return confirm_natively({"obligations": [g], "functions": []}, repo)


# =====================================================================================
# (c) numbering, (d) bytes / content type / pixel size dataflow, order of traversal  (AST, back end `dataflow`)
# =====================================================================================
PDF = EX + "pdf/pdf_extractor.py"
RASTER_CT = {"png": "image/png", "jpg": "image/jpeg", "jpeg": "image/jpeg", "gif": "image/gif", "bmp": "image/bmp"}


def _ctor_of_arg(ck, arg, at, ctor):
    """The constructor call that produces the appended value: the argument itself or the unique definition of the name appended."""
    from contracts.c14_flow import reaching
    for _ in range(3):
        if isinstance(arg, ast.Call) and isinstance(arg.func, ast.Name) and arg.func.id == ctor:
            return arg
        if isinstance(arg, ast.Name) and ck is not None:
            b = reaching(ck.fn, ck.pm, arg.id, at)
            if b is None or b.kind != "assign":
                return None
            arg, at = b.value, b.node
            continue
        return None
    return None


def _append_of(ctor, numbered, num_kw, ck=None):
    """predicate: `<list>.append(v)` where v is `<ctor>(...)` (directly or through a local name) whose constructor call has / lacks the number keyword"""
    from contracts.c14_sites import kwv

    def pred(n):
        if not (isinstance(n, ast.Call) and isinstance(n.func, ast.Attribute) and n.func.attr == "append" and len(n.args) == 1):
            return False
        a = _ctor_of_arg(ck, n.args[0], n, ctor)
        if a is None:
            return False
        return (kwv(a, num_kw) is not None) == numbered
    return pred


def _unfollowed_mutation(ctor, num_kw, ck):
    """predicate: a change of the image list (the receiver of the recognised appends) that is not a recognised append"""
    rec = set()
    for n in ast.walk(ck.fn):
        if (_append_of(ctor, True, num_kw, ck)(n) or _append_of(ctor, False, num_kw, ck)(n)) and isinstance(n.func.value, ast.Name):
            rec.add(n.func.value.id)

    def pred(n):
        if isinstance(n, ast.Call) and isinstance(n.func, ast.Attribute) and isinstance(n.func.value, ast.Name) and n.func.value.id in rec:
            if n.func.attr in ("extend", "insert", "pop", "remove", "clear", "__iadd__"):
                return True
            if n.func.attr == "append" and not (_append_of(ctor, True, num_kw, ck)(n) or _append_of(ctor, False, num_kw, ck)(n)):
                return True
        if isinstance(n, ast.AugAssign) and isinstance(n.target, ast.Name) and n.target.id in rec:
            return True
        return False
    return pred


def _threaded_helper(ck, ctor, num_kw):
    """`img, counter = helper(..., counter)`: the helper numbers the record itself and hands the counter back (every return is
    `(record | None, counter)`).  Checked in the helper: on every path either no increment and None, or one increment and a record that
    carries the counter after the increment; in the caller: the result is appended exactly when it is not None.  True when the shape is
    present (obligations emitted), False otherwise."""
    from contracts import c14_sites as SI
    from contracts.c14_flow import reaching
    fn = ck.raw_fn
    if fn is None:
        return False
    pm = SI.parent_map(fn)
    found = []
    for n in ast.walk(fn):
        if isinstance(n, ast.Assign) and len(n.targets) == 1 and isinstance(n.targets[0], ast.Tuple) and len(n.targets[0].elts) == 2 \
                and all(isinstance(e, ast.Name) for e in n.targets[0].elts) and isinstance(n.value, ast.Call) and isinstance(n.value.func, ast.Name):
            h = ck.mod.functions.get(n.value.func.id)
            if h is None or not _constructs(ctor)(h):
                continue
            img, cnt = n.targets[0].elts[0].id, n.targets[0].elts[1].id
            params = [a.arg for a in h.args.args + h.args.kwonlyargs]
            passed = [p_ for p_ in params if (_arg_for_any(h, n.value, p_) is not None and isinstance(_arg_for_any(h, n.value, p_), ast.Name) and _arg_for_any(h, n.value, p_).id == cnt)]
            if len(passed) != 1:
                continue
            found.append((n, h, img, cnt, passed[0]))
    if not found:
        return False
    bad_step, bad_num, bad_guard = [], [], []
    counter = found[0][3]
    for (asg, h, img, cnt, p_) in found:
        hk = SI.Checker("C14", ck.rel, h.name, ck.mod.repo, inline=False)
        hpm = hk.pm
        rets = [r for r in ast.walk(h) if isinstance(r, ast.Return)]

        def ret_kind(r):
            v = r.value
            if not (isinstance(v, ast.Tuple) and len(v.elts) == 2 and isinstance(v.elts[1], ast.Name) and v.elts[1].id == p_):
                return "other"
            e = v.elts[0]
            if isinstance(e, ast.Constant) and e.value is None:
                return "none"
            c = _ctor_of_arg(hk, e, r, ctor)
            if c is None:
                return "other"
            nv = SI.kwv(c, num_kw)
            if not (isinstance(nv, ast.Name) and nv.id == p_):
                return "unnumbered"
            b = reaching(h, hpm, p_, c)
            return "numbered" if b is not None and SI.is_inc(b.node, p_) else "stale"
        kinds = {id(r): ret_kind(r) for r in rets}
        hk.total |= {"_get_image_pixel_dimensions", "guess_content_type", "_get_content_type", ctor}
        events = [lambda n_: SI.is_inc(n_, p_)] + [(lambda n_, k_=k_: isinstance(n_, ast.Return) and kinds.get(id(n_)) == k_) for k_ in ("numbered", "none", "unnumbered", "stale", "other")]
        for (vec, status) in SI.paths2(h.body, events, hk.total):
            inc, num, non, unn, stale, other = vec
            if status != "return":
                bad_step.append(f"{h.name}: a path ends without returning (record, counter)")
            elif other:
                return False          # a return of another shape: not this style
            elif unn:
                bad_step.append(f"{h.name}: a path returns a record without a number")
            elif stale:
                bad_num.append(f"{h.name}: a record carries the counter as it was before the increment")
            elif (inc, num, non) not in ((1, 1, 0), (0, 0, 1)):
                bad_step.append(f"{h.name}: a path has {inc} increment(s) and returns {'a record' if num else 'None'}")
        apps = [a for a in ast.walk(fn) if isinstance(a, ast.Call) and isinstance(a.func, ast.Attribute) and a.func.attr == "append" and len(a.args) == 1
                and isinstance(a.args[0], ast.Name) and a.args[0].id == img and reaching(fn, pm, img, a) is not None and reaching(fn, pm, img, a).node is asg]
        if len(apps) != 1 or not _guarded_not_none(pm, SI.enclosing_stmt(pm, apps[0]), img):
            bad_guard.append(f"line {LN(asg)}: the result of {h.name} is not appended exactly when it is not None")
    ck.counter = counter
    ck.add("numbering", "one-increment-per-numbered-image", not bad_step and not bad_guard, "; ".join(sorted(set(bad_step + bad_guard)))[:500], definite=False)
    ck.add("numbering", "number-is-the-counter-after-its-increment", not bad_num, "; ".join(sorted(set(bad_num))), definite=False)
    return True


def _arg_for_any(h, call, pname):
    params = [x.arg for x in h.args.args]
    if pname in params and params.index(pname) < len(call.args):
        return call.args[params.index(pname)]
    return next((kw.value for kw in call.keywords if kw.arg == pname), None)


def _counter_start(ck):
    """numbering#counter-starts-at-zero-once-per-document for the functions that own their counter (or number by len(list) + 1)"""
    if getattr(ck, "counter", None) is None and hasattr(ck, "len_numbering_start"):
        pu = ck.called_once_per_document()
        return ck.add("numbering", "counter-starts-at-zero-once-per-document", ck.len_numbering_start and not pu,
                      f"called per unit from {pu}" if pu else ("" if ck.len_numbering_start else "the image list is not created empty once, outside the loops"),
                      definite=False)
    z = ck.starts_at_zero_once(ck.counter)
    if z is not None and not isinstance(z, bool):
        pu = ck.called_once_per_document()
        ck.add("numbering", "counter-starts-at-zero-once-per-document", not pu, f"called per unit from {pu}")


def _len_numbering(ck, ctor, num_kw, numbered):
    """Every image takes `len(<the list it is appended to>) + 1` as its number: numbers are 1..n in append order by construction
    (no counter at all).  Emits the numbering obligations as proved and returns True; False when the shape is different."""
    from contracts import c14_sites as SI
    from contracts.c14_flow import reaching
    recv = set()
    for c in numbered:
        v, at = SI.kwv(c, num_kw), c
        for _ in range(4):
            if isinstance(v, ast.Name):
                b = reaching(ck.fn, ck.pm, v.id, at)
                if b is None or b.kind != "assign":
                    return False
                v, at = b.value, b.node
            else:
                break
        t = ast.unparse(v).replace(" ", "")
        apps = [n for n in ast.walk(ck.fn) if _append_of(ctor, True, num_kw, ck)(n) and _ctor_of_arg(ck, n.args[0], n, ctor) is c and isinstance(n.func.value, ast.Name)]
        if len(apps) != 1:
            return False
        r = apps[0].func.value.id
        if t not in (f"len({r})+1", f"1+len({r})"):
            return False
        # nothing is appended to the list between the evaluation of len() and the append of this image
        between = [n for n in ast.walk(ck.fn) if isinstance(n, ast.Call) and isinstance(n.func, ast.Attribute) and isinstance(n.func.value, ast.Name)
                   and n.func.value.id == r and n.func.attr in ("append", "extend", "insert", "pop", "remove", "clear")
                   and (at.lineno, at.col_offset) < (n.lineno, n.col_offset) < (apps[0].lineno, apps[0].col_offset)]
        if between:
            return False
        recv.add(r)
    if len(recv) != 1:
        return False
    r = next(iter(recv))
    if _unfollowed_mutation(ctor, num_kw, ck) and any(_unfollowed_mutation(ctor, num_kw, ck)(n) for n in ast.walk(ck.fn)):
        return False
    unnumbered = [n for n in ast.walk(ck.fn) if _append_of(ctor, False, num_kw, ck)(n)]
    why = f"the number is len({r}) + 1 at the moment of the append"
    ck.add("numbering", "one-increment-per-numbered-image", not unnumbered, why if not unnumbered else "an image without a number is appended too", definite=False)
    ck.add("numbering", "number-is-the-counter-after-its-increment", True, why)
    inits = [b for b in __import__("contracts.c14_flow", fromlist=["bindings_of"]).bindings_of(ck.fn, r) if b.kind == "assign"]
    ok = len(inits) == 1 and isinstance(inits[0].value, ast.List) and not inits[0].value.elts and not SI.loops_around(ck.pm, inits[0].node)
    ck.len_numbering_start = bool(ok)
    ck.counter = None
    return True


def _counter_of(ck, ctor, num_kw):
    """The counter by its role: the one name used as `num_kw=` of the image constructor."""
    from contracts import c14_sites as SI
    from contracts.c14_flow import reaching
    incs = {n.target.id if isinstance(n, ast.AugAssign) else n.targets[0].id for n in ast.walk(ck.fn)
            if isinstance(n, (ast.AugAssign, ast.Assign)) and any(SI.is_inc(n, x) for x in
                                                                  ([n.target.id] if isinstance(n, ast.AugAssign) and isinstance(n.target, ast.Name) else
                                                                   [t.id for t in getattr(n, "targets", []) if isinstance(t, ast.Name)]))}
    names = set()
    for c in SI.ctor_calls(ck.fn, ctor):
        v, at = SI.kwv(c, num_kw), c
        for _ in range(5):          # the number may travel through plain local names (helper parameters after inlining)
            if v is None:
                break
            hit = [x.id for x in ast.walk(v) if isinstance(x, ast.Name) and x.id in incs]
            if hit:
                names.add(hit[0])
                break
            if isinstance(v, ast.Name):
                b = reaching(ck.fn, ck.pm, v.id, at)
                if b is None or b.kind != "assign":
                    names.add(v.id)
                    break
                v, at = b.value, b.node
            else:
                break
    return sorted(names)[0] if len(names) == 1 else None


def _common(ck, ctor, num_kw, payload_kw, reads, counter, sniff_total=True):
    """Obligations shared by the extractors that build the image in the loop that counts it."""
    from contracts import c14_sites as SI
    from contracts.c14_flow import method_calls
    sites = SI.ctor_calls(ck.fn, ctor)
    counter = _counter_of(ck, ctor, num_kw) or counter
    ck.counter = counter
    if sniff_total:
        ck.total |= {"_get_image_pixel_dimensions", real_name(ck.rel, "_get_image_pixel_dimensions", ck.mod.repo), "_get_content_type", "guess_content_type", ctor}
    numbered = [c for c in sites if SI.kwv(c, num_kw) is not None]
    # helper style (the image is built by a helper that receives its number and returns image-or-None): analysed on the function as written
    hs = None
    if ck.raw_fn is not None:
        role = _constructs(ctor, with_param_number=True)
        helpers = [q for q, f in ck.mod.functions.items() if isinstance(f, ast.FunctionDef) and q != ck.real and "." not in q and role(f)]
        for hname in helpers:
            hs = _helper_style(ck, hname)
            if hs is not None and not (hs["img"] is not None and hs["number_ok"]):
                hs = None        # the helper is merely a constructor wrapper: the inlined function is analysed in the ordinary way
            if hs is not None:
                ck.counter = hs["counter"]
                _helper_style_obligations(ck, hs, hname, ("number-is-the-counter-after-its-increment", "one-increment-per-numbered-image", None))
                break
    if hs is None and _threaded_helper(ck, ctor, num_kw):
        return sites_after_numbering(ck, sites, payload_kw, reads)
    if hs is None and numbered and _len_numbering(ck, ctor, num_kw, numbered):
        return sites_after_numbering(ck, sites, payload_kw, reads)
    if hs is None:
        if not numbered:
            ck.unknown("numbering", "one-increment-per-numbered-image", f"no {ctor}({num_kw}=...) construction found")
            return sites
        ck.step_discipline(counter, _append_of(ctor, True, num_kw, ck), _append_of(ctor, False, num_kw, ck), unfollowed=_unfollowed_mutation(ctor, num_kw, ck))
        ck.number_is_counter_after_increment(counter, numbered, num_kw)
    return sites_after_numbering(ck, sites, payload_kw, reads)


def sites_after_numbering(ck, sites, payload_kw, reads):
    from contracts import c14_sites as SI
    from contracts.c14_flow import method_calls
    # (d) payload = value returned by the container read of the verified name, untransformed
    bad, n_ok = [], 0
    sinks = method_calls(ck.fn, reads)
    for c in sites:
        if SI.kwv(c, payload_kw) is None:
            continue            # placeholder without payload (external link / failed read)
        nm, why = SI.payload_source(ck, c, payload_kw)
        if nm is None:
            bad.append(f"line {LN(c)}: {why}")
            continue
        rd, why = SI.read_def(ck, nm, c, reads)
        if rd is None:
            bad.append(f"line {LN(c)}: {why}")
            continue
        if rd not in sinks:
            bad.append(f"line {LN(c)}: the read is not one of the verified resolution sinks")
            continue
        n_ok += 1
    if not n_ok and not bad:
        ck.unknown("bytes", "payload-is-the-container-read-of-the-resolved-name", "no image construction with a payload found")
    else:
        ck.add("bytes", "payload-is-the-container-read-of-the-resolved-name", not bad, "; ".join(bad))
    return sites


def _pixel_from_sniffer(ck, sites, payload_kw, label="size-sniffed-from-the-payload"):
    """width= / height= of the image are the two results of `_get_image_pixel_dimensions(<payload>)`, unconditionally."""
    from contracts import c14_sites as SI
    from contracts.c14_flow import reaching
    bad, ok = [], 0
    for c in sites:
        if SI.kwv(c, payload_kw) is None:
            continue
        nm, _ = SI.payload_source(ck, c, payload_kw)
        for dim, idx in (("width", 0), ("height", 1)):
            v = SI.kwv(c, dim)
            if not isinstance(v, ast.Name):
                bad.append(f"line {LN(c)}: {dim}={ast.unparse(v) if v is not None else 'missing'}")
                continue
            defs = [b for b in __import__('contracts.c14_flow', fromlist=['bindings_of']).bindings_of(ck.fn, v.id)]
            sn = [b for b in defs if b.kind in ("other", "unpack") and isinstance(b.node, ast.Assign) and isinstance(b.node.value, ast.Call)
                  and dotted(b.node.value.func) in ("_get_image_pixel_dimensions", real_name(ck.rel, "_get_image_pixel_dimensions", ck.mod.repo))]
            others = [b for b in defs if b not in sn]
            if not sn:
                bad.append(f"line {LN(c)}: {dim} does not come from _get_image_pixel_dimensions")
            elif others:
                bad.append(f"line {LN(c)}: {dim} is also assigned from {', '.join(sorted(set(ast.unparse(b.value)[:40] if b.value is not None else b.kind for b in others)))} "
                           f"(the sniffed size is used only as a fallback)")
            else:
                call = sn[0].node.value
                if not (nm is not None and len(call.args) == 1 and isinstance(call.args[0], ast.Name) and call.args[0].id == nm.id):
                    bad.append(f"line {LN(c)}: the sniffer is not applied to the stored payload")
                else:
                    ok += 1
    ck.add("pixel-size", label, ok > 0 and not bad, "; ".join(sorted(set(bad))))


def _single_traversal(ck, ctor, num_kw, label="single-document-order-traversal"):
    """All numbered images are appended by ONE loop nest whose iterables are document-order traversals of the body
    (`X.iter(tag)`, `X.findall(..)`, a list built from those); a nest that repeats the traversal per anchor type / runs two
    traversals one after the other / walks the relationship table does not give document order."""
    from contracts import c14_sites as SI
    apps = [n for n in ast.walk(ck.fn) if _append_of(ctor, True, num_kw, ck)(n)]
    if not apps:
        return ck.unknown("order", label, "no numbered append")
    nests = []
    for a in apps:
        l = SI.loops_around(ck.pm, a)
        if l and l[0] not in nests:
            nests.append(l[0])
    if len(nests) > 1:
        return ck.add("order", label, False, f"{len(nests)} separate traversals append numbered images (loops at lines {[LN(n) for n in nests]}): "
                                             f"images of the later traversal are numbered after all images of the earlier one")
    bad, unk = [], []
    for lp in SI.loops_around(ck.pm, apps[0]):
        it = lp.iter if isinstance(lp, ast.For) else None
        src = ast.unparse(it) if it is not None else "while"
        if isinstance(it, ast.Call) and isinstance(it.func, ast.Attribute) and it.func.attr in ("iter", "findall", "iterfind"):
            continue
        if isinstance(it, ast.Name):
            v = ck.mod.assigns.get(it.id)
            if v is not None and isinstance(v, (ast.Tuple, ast.List)) and len(v.elts) > 1:
                bad.append(f"loop `for ... in {src}` repeats the traversal for each of {len(v.elts)} element kinds: images are grouped by kind, not in document order")
                continue
            b = __import__('contracts.c14_flow', fromlist=['reaching']).reaching(ck.fn, ck.pm, it.id, lp)
            if b is not None and b.kind == "assign" and isinstance(b.value, (ast.List, ast.ListComp, ast.Call)):
                continue        # list built in this function (shape elements, paragraphs): order decided where it is built
            unk.append(src)
            continue
        if isinstance(it, ast.Call) and isinstance(it.func, ast.Attribute) and it.func.attr in ("items", "values", "keys"):
            unk.append(src)     # traversal of a table (relationships / manifest), not of the body
            continue
        if isinstance(it, ast.Call) and isinstance(it.func, ast.Name) and it.func.id == "enumerate":
            continue
        unk.append(src)
    if bad:
        return ck.add("order", label, False, "; ".join(bad))
    if unk:
        return ck.unknown("order", label, f"iteration over {unk}: not a traversal of the document body (order decided natively)")
    ck.add("order", label, True)


def _ct_table(ck, label="extension-table-has-the-raster-types"):
    t = ck.mod.assigns.get("_CONTENT_TYPE_MAP")
    try:
        tab = ast.literal_eval(t) if t is not None else None
    except ValueError:
        tab = None
    if tab is None:
        return ck.unknown("content-type", label, "_CONTENT_TYPE_MAP is not a literal")
    wrong = {k: tab.get(k) for k, v in RASTER_CT.items() if tab.get(k) != v}
    ck.add("content-type", label, not wrong, f"{wrong}")


def _names_the_part(ck, name, at, depth=0):
    """`name` holds the relationship target / href / the name read from the container, or something cut out of it (file name):
    decided by data flow, not by how the local is called."""
    from contracts import c14_flow as F
    if depth > 5:
        return False
    b = F.reaching(ck.fn, ck.pm, name, at)
    if b is None:
        return False
    if b.kind in ("param",):
        return any(k in name.lower() for k in ("target", "href", "path", "name"))     # helper parameter: only its name is left to go by
    if b.kind not in ("assign", "walrus"):
        return False
    v = b.value
    if F.is_lookup_of(v, ("target", "href", "_ATTR_XLINK_HREF")):
        return True
    reads = {a.id for c in F.method_calls(ck.fn, ("read_bytes", "get_image_data", "exists")) for a in c.args[:1] if isinstance(a, ast.Name)}
    if name in reads:
        return True
    for n in ast.walk(v):
        if isinstance(n, ast.Name) and isinstance(n.ctx, ast.Load) and n.id != name and (n.id in reads or _names_the_part(ck, n.id, b.node, depth + 1)):
            return True
    return False


EXT_SHAPES = ("{n}.rsplit('.', 1)[-1].lower()", "{n}.lower().rsplit('.', 1)[-1]", "{n}.rpartition('.')[2].lower()", "{n}.rpartition('.')[-1].lower()",
              "{n}.split('.')[-1].lower()", "{n}.lower().split('.')[-1]", "{n}.lower().rpartition('.')[2]", "{n}.lower().rpartition('.')[-1]")


EXT_CORPUS = ("word/media/image1.png", "word/media/IMG_0002.JPG", "media/Scan.Png", "ppt/media/a.b.JPEG", "xl/media.v2/pic.GIF", "Pictures/1000000000.bmp",
              "x.BMP", "OEBPS/images/cover.page.Jpg", "image7.jpeg", "/word/media/image1.PNG", "../media/image2.Gif", "a/b.c/d.e.png", "./Pictures/p.jPeG")
_STR_METHODS = {"rsplit", "split", "lower", "upper", "rpartition", "partition", "strip", "lstrip", "rstrip", "casefold", "removeprefix", "removesuffix",
                "replace", "endswith", "startswith", "rfind", "find"}
_PATH_FUNCS = {"posixpath.splitext", "posixpath.basename", "os.path.splitext", "os.path.basename"}


def _ext_by_evaluation(e, n):
    """BOUNDED stand-in for a key expression of a shape not in EXT_SHAPES: a pure string expression over the single name `n` (str methods,
    posixpath / os.path splitext / basename, indexing, conditional expressions) is EXECUTED by CPython on a corpus of part names (lower / upper /
    mixed-case extensions, several dots, dotted directories, relative and absolute references) and must give the lower-cased text after the last
    dot each time.  -> True (agrees on the corpus) | False (differs) | None (not such an expression: nothing evaluated)."""
    import os
    import posixpath

    def pure(x):
        if isinstance(x, ast.Constant):
            return isinstance(x.value, (str, int, type(None))) and not isinstance(x.value, bool) or isinstance(x.value, bool)
        if isinstance(x, ast.Name):
            return x.id == n and isinstance(x.ctx, ast.Load)
        if isinstance(x, ast.Call):
            if x.keywords and any(k.arg != "maxsplit" or not pure(k.value) for k in x.keywords):
                return False
            if dotted(x.func) in _PATH_FUNCS:
                return all(pure(a) for a in x.args)
            return isinstance(x.func, ast.Attribute) and x.func.attr in _STR_METHODS and pure(x.func.value) and all(pure(a) for a in x.args)
        if isinstance(x, ast.Subscript):
            return pure(x.value) and pure(x.slice)
        if isinstance(x, ast.Slice):
            return all(b is None or pure(b) for b in (x.lower, x.upper, x.step))
        if isinstance(x, ast.UnaryOp) and isinstance(x.op, (ast.USub, ast.Not)):
            return pure(x.operand)
        if isinstance(x, ast.IfExp):
            return pure(x.test) and pure(x.body) and pure(x.orelse)
        if isinstance(x, ast.BoolOp):
            return all(pure(v) for v in x.values)
        if isinstance(x, ast.Compare):
            return pure(x.left) and all(pure(c) for c in x.comparators) and all(isinstance(o, (ast.In, ast.NotIn, ast.Eq, ast.NotEq)) for o in x.ops)
        if isinstance(x, ast.Tuple):
            return all(pure(v) for v in x.elts)
        return False
    try:
        if not pure(e) or not any(isinstance(x, ast.Name) and x.id == n for x in ast.walk(e)):
            return None
        code = compile(ast.fix_missing_locations(ast.Expression(body=ast.parse(ast.unparse(e), mode="eval").body)), "<key>", "eval")
        for sample in EXT_CORPUS:
            got = eval(code, {"__builtins__": {}, "posixpath": posixpath, "os": os}, {n: sample})      # noqa: S307 -- whitelisted pure expression
            if got != sample.rsplit(".", 1)[-1].lower():
                return False
        return True
    except Exception:  # noqa
        return None


def _ext_shape_of(e, n):
    """expression e is the lower-cased text after the last dot of name n (optionally guarded by `if '.' in n else <constant>`)"""
    if isinstance(e, ast.IfExp) and isinstance(e.orelse, ast.Constant) and ast.unparse(e.test).replace('"', "'") == f"'.' in {n}":
        e = e.body
    s = ast.unparse(e).replace('"', "'")
    return any(s == sh.format(n=n) for sh in EXT_SHAPES)


def _ct_helper_body(ck, helper):
    """The content-type helper of a module (`_get_content_type(name)` / the shared ODF `guess_content_type(path)`): every return is the table
    image of the lower-cased extension of its parameter, or `mimetypes.guess_type(<parameter>)[0] [or <constant>]` (assumed library model:
    the mimetypes table maps the raster extensions case-insensitively).  -> None when recognised, "~bounded" when a key expression of another shape agreed with the specification on EXT_CORPUS, else the reason (`unknown`)."""
    from contracts import c14_sites as SI
    from contracts.c14_flow import reaching
    try:
        rel = ck.rel if helper in ck.mod.functions else EX + "open_office/_shared.py"
        try:        # round 7: the helper is under a contract verified on its body (c14_access.run_helpers); when that holds its shape is irrelevant
            from contracts import c14_access as A
            if A.helper_verified(ck.mod.repo, rel, helper, contracts):
                return None
        except Exception:  # noqa
            pass
        hk = SI.Checker("C14", rel, helper, ck.mod.repo, inline=False)
        if hk.fn is None or len(hk.fn.args.args) != 1:
            return f"content-type helper {helper} not found"
        pn = hk.fn.args.args[0].arg
        if any(isinstance(n, ast.Name) and isinstance(n.ctx, ast.Store) and n.id == pn for n in ast.walk(hk.fn)):
            return f"{helper}: parameter re-bound"

        def deref(v, at):
            for _ in range(3):
                if isinstance(v, ast.Name) and v.id != pn:
                    b = reaching(hk.fn, hk.pm, v.id, at)
                    if b is None or b.kind != "assign":
                        return v
                    v, at = b.value, b.node
                else:
                    break
            return v
        rets = [n for n in ast.walk(hk.fn) if isinstance(n, ast.Return)]
        bounded = False
        if not rets:
            return f"{helper}: no return"
        for r in rets:
            v = deref(r.value, r) if r.value is not None else None
            if v is None:
                return f"{helper}: bare return"
            key = None
            if isinstance(v, ast.Call) and dotted(v.func) == "_CONTENT_TYPE_MAP.get" and v.args:
                key = v.args[0]
            elif isinstance(v, ast.Subscript) and dotted(v.value) == "_CONTENT_TYPE_MAP":
                key = v.slice
            if key is not None:
                if not _ext_shape_of(deref(key, r), pn):
                    try:
                        from contracts import c14_access as A
                        if A.key_proved(hk.mod, deref(key, r), pn, ck.mod.repo, contracts) is True:
                            continue
                    except Exception:  # noqa
                        pass
                    if _ext_by_evaluation(deref(key, r), pn) is True:
                        bounded = True
                        continue
                    return f"{helper}: key {ast.unparse(deref(key, r))[:60]}"
                continue
            g = v.values[0] if isinstance(v, ast.BoolOp) and isinstance(v.op, ast.Or) and len(v.values) == 2 and isinstance(v.values[1], ast.Constant) else v
            g = deref(g, r)
            if isinstance(g, ast.Subscript) and isinstance(g.slice, ast.Constant) and g.slice.value == 0 and isinstance(g.value, ast.Call) \
                    and dotted(g.value.func) == "mimetypes.guess_type" and len(g.value.args) == 1 and not g.value.keywords \
                    and isinstance(g.value.args[0], ast.Name) and g.value.args[0].id == pn:
                continue
            return f"{helper}: returns {ast.unparse(v)[:60]}"
        return "~bounded" if bounded else None
    except Exception as e:  # noqa  -- a shape this reader does not handle: unknown, the native sweep decides
        return f"{helper}: shape not recognised ({type(e).__name__})"


def _key_proved(ck, k, at):
    """the key expression, over a name that holds the part name, is the lower-cased extension -- by proof (c14_access.key_proved)"""
    try:
        from contracts import c14_access as A
        return any(_names_the_part(ck, nm, at) and A.key_proved(ck.mod, k, nm, ck.mod.repo, contracts) is True
                   for nm in sorted({x.id for x in ast.walk(k) if isinstance(x, ast.Name)}))
    except Exception:  # noqa
        return False


def _ct_from_extension(ck, sites, of_names, label="looked-up-by-the-lower-cased-extension"):
    """content_type= is `_CONTENT_TYPE_MAP.get(ext, ...)` / `_CONTENT_TYPE_MAP[ext]` with ext = the lower-cased text after the last dot of
    a name that (by data flow) holds the part name, or `_get_content_type(<such a name>)` / `guess_content_type(<such a name>)`.
    Anything else is `unknown`: the native sweep of content types decides."""
    from contracts import c14_sites as SI
    from contracts.c14_flow import reaching
    bad, ok, evaluated, proved_keys = [], 0, [], []

    def ext_of(e, at):
        s = ast.unparse(e).replace('"', "'")
        for n in [x.id for x in ast.walk(e) if isinstance(x, ast.Name)]:
            if any(s == sh.format(n=n) for sh in EXT_SHAPES) and _names_the_part(ck, n, at):
                return True
        return False

    def deref(v, at):
        for _ in range(3):
            if isinstance(v, ast.Name):
                b = reaching(ck.fn, ck.pm, v.id, at)
                if b is None or b.kind != "assign":
                    return v, at
                v, at = b.value, b.node
            else:
                break
        return v, at
    for c in sites:
        v = SI.kwv(c, "content_type")
        if v is None:
            continue
        v, at = deref(v, c)
        key = None
        if isinstance(v, ast.Call) and dotted(v.func) == "_CONTENT_TYPE_MAP.get" and v.args:
            key = v.args[0]
        elif isinstance(v, ast.Subscript) and dotted(v.value) == "_CONTENT_TYPE_MAP":
            key = v.slice
        if key is not None:
            k, kat = deref(key, at)
            if _key_proved(ck, k, kat):     # round 7: discharged by the engine over a symbolic part name (not a shape match, not a corpus run)
                ok += 1
                proved_keys.append(f"line {LN(c)}: {ast.unparse(k)[:60]}")
            elif ext_of(k, kat):
                ok += 1
            elif any(_names_the_part(ck, nm, kat) and _ext_by_evaluation(k, nm) is True for nm in sorted({x.id for x in ast.walk(k) if isinstance(x, ast.Name)})):
                ok += 1
                evaluated.append(f"line {LN(c)}: key {ast.unparse(k)[:60]}")
            else:
                bad.append(f"line {LN(c)}: key {ast.unparse(k)[:60]}")
        elif isinstance(v, ast.Call) and dotted(v.func).split(".")[-1] in ("_get_content_type", "guess_content_type") and len(v.args) == 1 \
                and isinstance(v.args[0], ast.Name) and _names_the_part(ck, v.args[0].id, at):
            why = _ct_helper_body(ck, dotted(v.func).split(".")[-1])      # the helper's own body is part of the claim
            if why is None:
                ok += 1
            elif why == "~bounded":
                ok += 1
                evaluated.append(f"line {LN(c)}: key expression of {dotted(v.func).split('.')[-1]}")
            else:
                bad.append(f"line {LN(c)}: {why}")
        else:
            bad.append(f"line {LN(c)}: content_type={ast.unparse(v)[:60]}")
    if bad or not ok:
        return ck.unknown("content-type", label, "; ".join(bad) or "no content_type= found")
    ck.add("content-type", label, True)
    if proved_keys:
        ck.obls[-1]["reason"] = "key == LOWER(text after the last dot) proved over a symbolic part name: " + "; ".join(proved_keys)[:300]
        ck.obls[-1]["backends"] = dict(ck.obls[-1].get("backends") or {}, z3=len(proved_keys))
    if evaluated:     # not proved: the key expression was executed on a corpus of part names (BOUNDED stand-in, DESIGN 2.8)
        ck.obls[-1]["bounded"] = True
        ck.obls[-1]["reason"] = f"key expression executed on {len(EXT_CORPUS)} part names, equals the lower-cased extension each time: " + "; ".join(evaluated)[:300]


COMPLETENESS_FNS = {}


def _init_completeness():
    COMPLETENESS_FNS.update({DOCX: ("_extract_images_from_context",), PPTX: ("_process_slide_from_context",), XLSX: ("_extract_images_from_zip",),
                             ODT: ("_extract_images_from_context",), ODS: ("_extract_images",), ODG: ("_extract_images",), ODP: ("_extract_image",),
                             EPUB: ("_extract_images",)})


def image_sites(repo, tier):
    _init_completeness()
    from contracts import c14_sites as SI
    from contracts.c14_flow import reaching, parent_map
    obls, fns, und = [], [], []

    def done(ck):
        if ck.fname in COMPLETENESS_FNS.get(ck.rel, ()) and not any("/completeness#" in o["id"] and f"::{ck.fname}/" in o["id"] and ck.short in o["id"] for o in obls):
            SI.completeness(ck)
        obls.extend(ck.obls)
        fns.append(dict(ck.mod.fn_info(ck.real), obligations=len(ck.obls)))

    def mk(rel, fname, inline=True):
        ck = SI.Checker("C14", rel, fname, repo, inline=inline, real=real_name(rel, fname, repo))
        if ck.fn is None:
            und.append({"obligation": f"{rel}::{fname}", "why": "contract-target-missing"})
            return None
        return ck

    # ---- docx ----
    ck = mk(DOCX, "_extract_images_from_context")
    if ck:
        sites = _common(ck, "DocxImage", "image_index", "data", ("get_image_data",), "image_counter")
        _counter_start(ck)
        _pixel_from_sniffer(ck, sites, "data")
        _ct_table(ck)
        _ct_from_extension(ck, sites, ("target",))
        _single_traversal(ck, "DocxImage", "image_index")
        done(ck)
    # ---- pptx ----
    ck = mk(PPTX, "_process_slide_from_context")
    if ck:
        sites = _common(ck, "PptxImage", "image_index", "blob", ("get_image_data",), "image_counter")
        z = ck.starts_at_zero_once(ck.counter) if getattr(ck, "counter", None) else (_counter_start(ck) and None)
        if z is not None and not isinstance(z, bool):
            pu = ck.called_once_per_document()
            ck.add("numbering", "counter-starts-at-zero-once-per-document", not pu,
                   f"`image_counter = 0` is executed once per slide: {ck.fname} is called in the slide loop of {', '.join(f'{q} (line {l})' for q, l in pu)}")
        _pixel_from_sniffer(ck, sites, "blob")
        _ct_table(ck)
        _ct_from_extension(ck, sites, ("target",))
        # unit attribution: slide_number= is the function's slide_number parameter
        bad = [LN(c) for c in sites if not (isinstance(SI.kwv(c, "slide_number"), ast.Name) and SI.kwv(c, "slide_number").id == "slide_number"
                                               and reaching(ck.fn, ck.pm, "slide_number", c) is not None and reaching(ck.fn, ck.pm, "slide_number", c).kind == "param")]
        ck.add("unit", "image-carries-the-number-of-its-slide", not bad and bool(sites), f"lines {bad}")
        done(ck)
    # ---- pptx: the relationship table handed to the slide processor is the one of that slide's own .rels part ----
    ck = mk(PPTX, "_PptxContext.get_slide_relationships")
    if ck:
        _per_part_table(ck)
        done(ck)
    ck = mk(PPTX, "_process_slide_from_context")
    if ck:
        calls = [n for n in ast.walk(ck.fn) if isinstance(n, ast.Call) and isinstance(n.func, ast.Attribute) and n.func.attr == "get_slide_relationships"]
        ok = len(calls) == 1 and len(calls[0].args) == 1 and isinstance(calls[0].args[0], ast.Name) and \
            reaching(ck.fn, ck.pm, calls[0].args[0].id, calls[0]) is not None and reaching(ck.fn, ck.pm, calls[0].args[0].id, calls[0]).kind == "param" and \
            calls[0].args[0].id == ck.fn.args.args[1].arg
        ck.add("resolution", "relationships-of-the-slide-being-processed", ok, "" if ok else "get_slide_relationships is not called once with the slide path parameter",
               definite=False)
        done(ck)
    # ---- xlsx ----
    ck = mk(XLSX, "_extract_images_from_zip")
    if ck:
        sites = _common(ck, "XlsxImage", "image_index", "data", ("read_bytes",), "image_counter")
        _counter_start(ck)
        _pixel_from_sniffer(ck, sites, "data")
        _ct_table(ck)
        _ct_from_extension(ck, sites, ("filename",))
        _single_traversal(ck, "XlsxImage", "image_index")
        done(ck)
    # ---- odt / ods / odg ----
    for rel, fname, thread in ((ODT, "_extract_images_from_context", False), (ODS, "_extract_images", True), (ODG, "_extract_images", False)):
        ck = mk(rel, fname)
        if not ck:
            continue
        sites = _common(ck, "OpenDocumentImage", "image_index", "data", ("read_bytes",), "image_counter")
        if not thread:
            _counter_start(ck)
        else:
            _threaded_counter(ck, "image_counter", "_extract_sheet", "read_ods")
        _odf_pixel(ck, sites)
        _ct_from_extension(ck, sites, ("href",))
        if rel != ODS:
            _single_traversal(ck, "OpenDocumentImage", "image_index")
        done(ck)
    # ---- odp: the number is handed to the helper as counter + 1, the counter is incremented when an image came back ----
    ck = mk(ODP, "_extract_slide", inline=False)     # these two analyses are about the helper call itself
    if ck:
        _odp(ck, repo)
        done(ck)
    ck = mk(ODP, "_extract_image")
    if ck:
        sites = SI.ctor_calls(ck.fn, "OpenDocumentImage")
        bad = [LN(c) for c in sites if not (isinstance(SI.kwv(c, "image_index"), ast.Name) and SI.kwv(c, "image_index").id == "image_index")]
        ck.add("numbering", "number-is-the-parameter-image_index", bool(sites) and not bad, f"lines {bad}")
        bad = [LN(c) for c in sites if not (isinstance(SI.kwv(c, "unit_name"), ast.Name) and SI.kwv(c, "unit_name").id == "slide_number")]
        ck.add("unit", "image-carries-the-number-of-its-slide", bool(sites) and not bad, f"lines {bad}")
        _payload_only(ck, sites, "data", ("read_bytes",))
        _odf_pixel(ck, sites)
        _ct_from_extension(ck, sites, ("href",))
        done(ck)
    # ---- epub ----
    ck = mk(EPUB, "_extract_images")
    if ck:
        sites = _common(ck, "EpubImage", "image_index", "data", ("read_bytes",), "image_counter")
        _counter_start(ck)
        bad = [LN(c) for c in sites if SI.kwv(c, "width") is None or SI.kwv(c, "height") is None]
        ck.add("pixel-size", "size-sniffed-from-the-payload", bool(sites) and not bad,
               f"EpubImage constructed without width= / height= (lines {bad}): the pixel size the file declares is never reported")
        # content type: the media-type the manifest declares for the same item
        ok = all(isinstance(SI.kwv(c, "content_type"), ast.Name) for c in sites) and bool(sites)
        ck.add("content-type", "declared-by-the-manifest-item", ok, "")
        _single_traversal(ck, "EpubImage", "image_index")
        done(ck)
    # ---- pdf ----
    ck = mk(PDF, "_extract_image_bytes", inline=False)
    if ck:
        _pdf(ck)
        done(ck)
    return confirm_natively({"obligations": obls, "functions": fns, "undecided": und}, repo)


def _cache_probe(e, par):
    """`self._slide_rel...[par]` / `self._slide_rel....get(par)` (no default): a probe of the per-path cache under the given path"""
    if isinstance(e, ast.Subscript) and isinstance(e.value, ast.Attribute) and e.value.attr.startswith("_slide_rel"):
        return isinstance(e.slice, ast.Name) and e.slice.id == par
    if isinstance(e, ast.Call) and isinstance(e.func, ast.Attribute) and e.func.attr == "get" and isinstance(e.func.value, ast.Attribute) \
            and e.func.value.attr.startswith("_slide_rel") and "rels_root" not in e.func.value.attr and not e.keywords:
        return len(e.args) == 1 and isinstance(e.args[0], ast.Name) and e.args[0].id == par
    return False


def _per_part_table(ck):
    """`get_slide_relationships(slide_path)`: the table returned is built in this call from the relationship root stored for the SAME
    path, and cached under the same path (relationship ids are scoped by the part that owns the .rels)."""
    from contracts.c14_flow import reaching
    fn = ck.fn
    par = fn.args.args[1].arg if len(fn.args.args) > 1 else None
    bad = []
    rets = [n for n in ast.walk(fn) if isinstance(n, ast.Return) and n.value is not None]
    fresh = set()
    for r in rets:
        v = r.value
        if isinstance(v, ast.Name):
            b = reaching(fn, ck.pm, v.id, r)
            if b is not None and b.kind == "assign" and _cache_probe(b.value, par):
                continue    # `cached = self._slide_relationships.get(slide_path)`: the cached table of the same path
            empty = b is not None and b.kind == "assign" and ((isinstance(b.value, ast.Dict) and not b.value.keys) or
                                                              (isinstance(b.value, ast.Call) and isinstance(b.value.func, ast.Name) and b.value.func.id == "dict"
                                                               and not b.value.args and not b.value.keywords))
            if not empty:
                bad.append(f"line {LN(r)}: the returned table {v.id} is not created empty in this call")
            else:
                fresh.add(v.id)
        elif isinstance(v, ast.Subscript) and isinstance(v.slice, ast.Name) and v.slice.id == par:
            pass        # cached table of the same path
        else:
            bad.append(f"line {LN(r)}: returns {ast.unparse(v)[:50]}")
    for n in ast.walk(fn):
        if isinstance(n, ast.Subscript) and isinstance(n.value, ast.Attribute) and n.value.attr.startswith("_slide_rel"):
            if not (isinstance(n.slice, ast.Name) and n.slice.id == par):
                bad.append(f"line {LN(n)}: {ast.unparse(n)[:50]} is not keyed by the slide path")
        if isinstance(n, ast.Call) and isinstance(n.func, ast.Attribute) and n.func.attr == "get" and isinstance(n.func.value, ast.Attribute) \
                and n.func.value.attr.startswith("_slide_rel"):
            if not (n.args and isinstance(n.args[0], ast.Name) and n.args[0].id == par):
                bad.append(f"line {LN(n)}: {ast.unparse(n)[:50]} is not keyed by the slide path")
        if isinstance(n, ast.Compare) and any(isinstance(c, ast.Attribute) and c.attr.startswith("_slide_rel") for c in n.comparators):
            if not (isinstance(n.left, ast.Name) and n.left.id == par):
                bad.append(f"line {LN(n)}: {ast.unparse(n)[:50]} does not test the slide path")
    # entries: table[id] = {"target": rel["target"], ...} with rel ranging over parse_relationships(<root looked up by the path>)
    stores = [n for n in ast.walk(fn) if isinstance(n, ast.Assign) and isinstance(n.targets[0], ast.Subscript) and isinstance(n.targets[0].value, ast.Name)
              and n.targets[0].value.id in fresh]
    ok_store = False
    for st in stores:
        if isinstance(st.value, ast.Dict):
            d = {k.value: v for k, v in zip(st.value.keys, st.value.values) if isinstance(k, ast.Constant)}
            tv = d.get("target")
            if isinstance(tv, ast.Subscript) and isinstance(tv.value, ast.Name) and isinstance(tv.slice, ast.Constant) and tv.slice.value == "target" \
                    and isinstance(st.targets[0].slice, ast.Name):
                kb = reaching(fn, ck.pm, st.targets[0].slice.id, st)
                if kb is not None and kb.kind == "assign" and ast.unparse(kb.value) == f"{tv.value.id}['id']":
                    ok_store = True
                    continue
        bad.append(f"line {LN(st)}: entry {ast.unparse(st)[:70]}")
    if not rets or par is None or not stores:
        return ck.unknown("resolution", "relationship-table-of-the-given-part", "shape not recognised")
    ck.add("resolution", "relationship-table-of-the-given-part", not bad and ok_store, "; ".join(bad), definite=False)


def _payload_only(ck, sites, payload_kw, reads):
    from contracts import c14_sites as SI
    from contracts.c14_flow import method_calls
    bad, ok = [], 0
    sinks = method_calls(ck.fn, reads)
    for c in sites:
        if SI.kwv(c, payload_kw) is None:
            continue
        nm, why = SI.payload_source(ck, c, payload_kw)
        rd, why2 = SI.read_def(ck, nm, c, reads) if nm is not None else (None, why)
        if rd is None or rd not in sinks:
            bad.append(f"line {LN(c)}: {why or why2}")
        else:
            ok += 1
    ck.add("bytes", "payload-is-the-container-read-of-the-resolved-name", ok > 0 and not bad, "; ".join(bad))


def _odf_pixel(ck, sites):
    from contracts import c14_sites as SI
    bad = []
    for c in sites:
        if SI.kwv(c, "data") is None:
            continue
        for dim in ("width", "height"):
            v = SI.kwv(c, dim)
            if not (isinstance(v, ast.Call) and "_get_image_pixel_dimensions" in ast.unparse(v)):
                bad.append(f"line {LN(c)}: {dim}={ast.unparse(v) if v is not None else 'missing'}")
    ck.add("pixel-size", "size-sniffed-from-the-payload", not bad and bool(sites),
           ("the frame extent (svg:width / svg:height, a length such as '1in') is stored, not the pixel size the image file declares: " + "; ".join(bad[:4])) if bad else "")


def _threaded_counter(ck, counter, via, reader):
    """ODS: counter is a parameter, returned; the reader initialises it to 0 before the sheet loop and takes it back."""
    from contracts import c14_sites as SI
    is_param = any(a.arg == counter for a in ck.fn.args.args)
    returns = [n for n in ast.walk(ck.fn) if isinstance(n, ast.Return)]
    ret_ok = bool(returns) and all(isinstance(r.value, ast.Tuple) and any(isinstance(e, ast.Name) and e.id == counter for e in r.value.elts) for r in returns)
    rd = ck.mod.functions.get(reader)
    ok = is_param and ret_ok and rd is not None
    detail = ""
    if ok:
        rk = SI.Checker("C14", ck.rel, reader, ck.mod.repo, inline=False)
        z = rk.starts_at_zero_once(counter)
        ok = z is not None and not isinstance(z, bool) and rk.obls == []
        detail = "; ".join(o["reason"] for o in rk.obls)
        mid = ck.mod.functions.get(via)
        ok = ok and mid is not None and any(isinstance(n, ast.Assign) and isinstance(n.value, ast.Call) and dotted(n.value.func) == ck.fname
                                           and any(isinstance(a, ast.Name) and a.id == counter for a in n.value.args)
                                           and any(isinstance(e, ast.Name) and e.id == counter for t in n.targets for e in ast.walk(t))
                                           for n in ast.walk(mid))
    ck.add("numbering", "counter-starts-at-zero-once-per-document", ok, detail or "counter not threaded parameter -> result through the sheet helper", definite=ok or bool(detail))


def _test_says_not_none(test, name, positive=True):
    """`test` holds exactly when `name` is an image (positive) / is None (not positive): `x is not None`, `x`, `not (x is None)`, ..."""
    t = ast.unparse(test).replace("(", "").replace(")", "")
    pos_forms = (f"{name} is not None", f"{name}", f"not {name} is None", f"{name} != None")
    neg_forms = (f"{name} is None", f"not {name}", f"not {name} is not None", f"{name} == None")
    return t in (pos_forms if positive else neg_forms)


def _guarded_not_none(pm, node, name):
    """The statement runs only when `name` is not None: inside `if name is not None:` (or the else of the opposite test), or after an
    `if name is None: continue / return / break` in an enclosing block."""
    from contracts.c14_flow import ancestors
    chain = [node] + ancestors(pm, node)
    for child, a in zip(chain, chain[1:]):
        if isinstance(a, ast.If):
            in_body = any(child is x for x in a.body)
            if (in_body and _test_says_not_none(a.test, name, True)) or (not in_body and _test_says_not_none(a.test, name, False)):
                return True
        for fld in ("body", "orelse", "finalbody"):
            lst = getattr(a, fld, None)
            if isinstance(lst, list) and any(child is x for x in lst):
                k = [i for i, x in enumerate(lst) if child is x][0]
                for prev in lst[:k]:
                    if isinstance(prev, ast.If) and not prev.orelse and _test_says_not_none(prev.test, name, False) and prev.body \
                            and isinstance(prev.body[-1], (ast.Continue, ast.Return, ast.Break, ast.Raise)):
                        return True
    return False


def _helper_style(ck, helper, fn=None):
    """The image is built by a helper that receives its number and returns the image or None; the caller appends the result and
    increments its counter when an image came back.  -> dict(call, img, counter, number_ok, why) or None when the shape is absent."""
    from contracts import c14_sites as SI
    fn = fn or ck.raw_fn
    pm = SI.parent_map(fn)
    h = ck.mod.functions.get(helper)
    if h is None:
        return None
    calls = [n for n in ast.walk(fn) if isinstance(n, ast.Call) and dotted(n.func) == helper]
    if len(calls) != 1:
        return None
    call = calls[0]
    # which parameter of the helper becomes the stored number: read on the normalised helper (keyword arguments handed over through a
    # dict literal / `**kwargs`, copies of a parameter) -- the parameter list is the real one
    try:
        import copy as _copy
        from contracts.c14_inline import propagate_param_copies
        h2, _inl = inline_helpers(ck.mod, helper)
        if h2 is not None and [a.arg for a in h2.args.args] == [a.arg for a in h.args.args]:
            h = propagate_param_copies(_copy.deepcopy(h2))
    except Exception:  # noqa  -- shape the normaliser does not handle: the helper as written
        h = ck.mod.functions.get(helper)
    pnum = None
    for n in ast.walk(h):
        if isinstance(n, ast.Call) and isinstance(n.func, ast.Name):
            for k in n.keywords:
                if k.arg in ("image_index", "index") and isinstance(k.value, ast.Name) and k.value.id in [a.arg for a in h.args.args]:
                    pnum = k.value.id
    if pnum is None:
        return None
    idx = [a.arg for a in h.args.args].index(pnum)
    arg = call.args[idx] if idx < len(call.args) else next((k.value for k in call.keywords if k.arg == pnum), None)
    incs = sorted({(n.target.id if isinstance(n, ast.AugAssign) else n.targets[0].id) for n in ast.walk(fn)
                   if (isinstance(n, ast.AugAssign) and isinstance(n.target, ast.Name) and SI.is_inc(n, n.target.id))
                   or (isinstance(n, ast.Assign) and len(n.targets) == 1 and isinstance(n.targets[0], ast.Name) and SI.is_inc(n, n.targets[0].id))})
    counter = next((c for c in incs if arg is not None and any(isinstance(x, ast.Name) and x.id == c for x in ast.walk(arg))), None)
    if counter is None:
        return None
    number_ok = arg is not None and ast.unparse(arg).replace(" ", "") in (f"{counter}+1", f"1+{counter}")
    asg = pm.get(call)
    if not (isinstance(asg, ast.Assign) and len(asg.targets) == 1 and isinstance(asg.targets[0], ast.Name)):
        return dict(call=call, img=None, counter=counter, number_ok=number_ok, arg=arg, pm=pm, fn=fn)
    return dict(call=call, img=asg.targets[0].id, counter=counter, number_ok=number_ok, arg=arg, pm=pm, fn=fn)


def _helper_style_obligations(ck, hs, helper, ids):
    """Numbering obligations for the helper style; `ids`: labels for (number, step, guard)."""
    from contracts import c14_sites as SI
    from contracts.c14_flow import reaching
    fn, pm, counter, img = hs["fn"], hs["pm"], hs["counter"], hs["img"]
    # the number handed over is counter + 1, evaluated before this iteration's increment
    b = reaching(fn, pm, counter, hs["call"])
    loops = SI.loops_around(pm, hs["call"])
    before_inc = not (b is not None and b.kind != "param" and SI.is_inc(b.node, counter) and loops and id(b.node) in set(id(x) for x in ast.walk(loops[0])))
    ck.add("numbering", ids[0], hs["number_ok"] and before_inc, f"{ast.unparse(hs['call'])[:90]}", definite=False)
    if img is None:
        return ck.unknown("numbering", ids[1], "the helper's result is not bound to a name")

    def app(n):
        return isinstance(n, ast.Call) and isinstance(n.func, ast.Attribute) and n.func.attr == "append" and len(n.args) == 1 \
            and isinstance(n.args[0], ast.Name) and n.args[0].id == img
    saved = (ck.fn, ck.pm)
    ck.fn, ck.pm = fn, pm
    try:
        ck.total |= {helper, "_extract_table", "_extract_annotations", "_get_text_recursive", "_get_shape_position"}
        ck.step_discipline(counter, app, lambda n: False, label=ids[1])
        apps = [n for n in ast.walk(fn) if app(n)]
        guarded = bool(apps) and all(_guarded_not_none(pm, SI.enclosing_stmt(pm, n), img) for n in apps)
        incn = [n for n in ast.walk(fn) if SI.is_inc(n, counter) and loops and id(n) in set(id(x) for x in ast.walk(loops[0]))]
        guarded = guarded and all(_guarded_not_none(pm, n, img) for n in incn)
        if ids[2]:
            ck.add("numbering", ids[2], guarded, "" if guarded else "the append / increment is not confined to the case in which the helper returned an image", definite=False)
        return guarded
    finally:
        ck.fn, ck.pm = saved


def _odp(ck, repo):
    from contracts import c14_sites as SI
    helper = real_name(ODP, "_extract_image", repo)
    hs = _helper_style(ck, helper)
    if hs is None:
        return ck.unknown("numbering", "one-increment-per-numbered-image", "no single call of an image helper that receives the number: shape not recognised")
    counter = hs["counter"]
    _helper_style_obligations(ck, hs, helper, ("number-handed-to-the-helper-is-counter-plus-one", "one-increment-per-numbered-image",
                                               "appended-iff-the-helper-returned-an-image"))
    # threading through the reader: the counter is a parameter, returned, initialised to 0 once by the caller
    is_param = any(a.arg == counter for a in ck.fn.args.args)
    returns = [n for n in ast.walk(ck.fn) if isinstance(n, ast.Return)]
    ret_ok = bool(returns) and all(isinstance(r.value, ast.Tuple) and any(isinstance(e, ast.Name) and e.id == counter for e in r.value.elts) for r in returns)
    rk = SI.Checker("C14", ck.rel, "read_odp", repo, inline=False)
    ok = is_param and ret_ok and rk.fn is not None
    cname = None
    if ok:
        # the caller's counter: the name it hands to this function at the counter's position
        pos_ = [a.arg for a in ck.fn.args.args].index(counter)
        for n in ast.walk(rk.fn):
            if isinstance(n, ast.Call) and dotted(n.func) == ck.real and len(n.args) > pos_ and isinstance(n.args[pos_], ast.Name):
                cname = n.args[pos_].id
        z = rk.starts_at_zero_once(cname or counter)
        ok = z is not None and not isinstance(z, bool) and rk.obls == []
    ck.add("numbering", "counter-starts-at-zero-once-per-document", ok, "; ".join(o["reason"] for o in rk.obls), definite=False)


def _arg_for(helper_fn, call, pname):
    params = [x.arg for x in helper_fn.args.args]
    if pname not in params:
        return None
    k = params.index(pname)
    if k < len(call.args):
        return call.args[k]
    return next((kw.value for kw in call.keywords if kw.arg == pname), None)


def _pdf(ck):
    """pdf: the number is the 1-based position of the candidate in the per-page candidate loop -- written as
    `enumerate(candidates, start=1)` or as a counter incremented once at the top of every iteration."""
    from contracts import c14_sites as SI
    from contracts.c14_flow import reaching
    helper = real_name(PDF, "_extract_image", ck.mod.repo)
    hfn = ck.mod.functions.get(helper)
    calls = [n for n in ast.walk(ck.fn) if isinstance(n, ast.Call) and dotted(n.func) == helper]
    if len(calls) != 1 or hfn is None:
        return ck.unknown("numbering", "one-increment-per-numbered-image", f"{len(calls)} calls of the image helper")
    call = calls[0]
    # which parameters of the helper become the image's number / unit (role: keyword of the PdfImage construction)
    ek = SI.Checker("C14", ck.rel, "_extract_image", ck.mod.repo, real=helper)
    sites = SI.ctor_calls(ek.fn, "PdfImage") if ek.fn is not None else []
    pidx = {SI.kwv(c, "index").id for c in sites if isinstance(SI.kwv(c, "index"), ast.Name)}
    punit = {SI.kwv(c, "unit_name").id for c in sites if isinstance(SI.kwv(c, "unit_name"), ast.Name)}
    params = [x.arg for x in hfn.args.args]
    idx = _arg_for(hfn, call, next(iter(pidx))) if len(pidx) == 1 and next(iter(pidx)) in params else None
    unit = _arg_for(hfn, call, next(iter(punit))) if len(punit) == 1 and next(iter(punit)) in params else None
    loops = SI.loops_around(ck.pm, call)
    lp = loops[0] if loops else None
    if not isinstance(idx, ast.Name) or lp is None:
        return ck.unknown("numbering", "one-increment-per-numbered-image", "the number handed to the image helper is not a plain local / not in a loop")
    enum_form = (isinstance(lp, ast.For) and isinstance(lp.iter, ast.Call) and dotted(lp.iter.func) == "enumerate"
                 and any(k.arg == "start" and isinstance(k.value, ast.Constant) and k.value.value == 1 for k in lp.iter.keywords)
                 and isinstance(lp.target, ast.Tuple) and isinstance(lp.target.elts[0], ast.Name) and lp.target.elts[0].id == idx.id)
    incs = [n for n in ast.walk(lp) if SI.is_inc(n, idx.id)]
    counter_form = (not enum_form and len(incs) == 1 and any(incs[0] is x for x in lp.body) and
                    not any(isinstance(n, (ast.Continue, ast.Break, ast.Return)) for x in lp.body[:[i for i, y in enumerate(lp.body) if y is incs[0]][0]] for n in ast.walk(x)))
    if counter_form:
        z = [b for b in __import__("contracts.c14_flow", fromlist=["bindings_of"]).bindings_of(ck.fn, idx.id) if b.kind == "assign" and not SI.is_inc(b.node, idx.id)]
        counter_form = len(z) == 1 and isinstance(z[0].value, ast.Constant) and z[0].value.value == 0 and not SI.loops_around(ck.pm, z[0].node)
    if not (enum_form or counter_form):
        return ck.unknown("numbering", "one-increment-per-numbered-image", "the number is neither an enumerate(..., start=1) index nor a counter incremented once per candidate")
    # every candidate advances the number; an image is appended only when the helper returns: a failing candidate leaves a gap
    in_try = any(isinstance(a, ast.Try) and any(h.type is None or "Exception" in ast.unparse(h.type) for h in a.handlers) and
                 not any(isinstance(x, ast.Call) and isinstance(x.func, ast.Attribute) and x.func.attr == "append" for h in a.handlers for x in ast.walk(h))
                 for a in SI.ancestors(ck.pm, call) if a in ast.walk(lp))
    ck.add("numbering", "one-increment-per-numbered-image", not in_try,
           "the number is the position among the candidates, but a candidate whose extraction raises is skipped: the following images keep their "
           "candidate positions (gap in 1..n)" if in_try else "")
    pu = ck.called_once_per_document()
    ck.add("numbering", "counter-starts-at-zero-once-per-document", not pu,
           f"the candidate position restarts at 1 for every page: {ck.fname} is called in the page loop of {', '.join(f'{q} (line {l})' for q, l in pu)}")
    # unit attribution: the helper stores two of its parameters as number and unit; the caller hands over the position and its own page parameter
    unit_ok = isinstance(unit, ast.Name) and (lambda b: b is not None and b.kind == "param")(reaching(ck.fn, ck.pm, unit.id, call))
    if not sites or len(pidx) != 1 or len(punit) != 1:
        return ck.unknown("unit", "image-carries-its-index-and-page", "the image helper does not store two of its parameters as number and unit")
    ck.add("unit", "image-carries-its-index-and-page", bool(unit_ok), "" if unit_ok else "the unit handed to the image helper is not the page parameter", definite=False)
    # every image put on the page's list is a result of that helper call (no other producer: copies / cached records keep the number
    # and page of another placement)
    rets = {r.value.id for r in ast.walk(ck.fn) if isinstance(r, ast.Return) and isinstance(r.value, ast.Name)}
    apps = [a for a in ast.walk(ck.fn) if isinstance(a, ast.Call) and isinstance(a.func, ast.Attribute) and a.func.attr in ("append", "extend", "insert")
            and isinstance(a.func.value, ast.Name) and a.func.value.id in rets]
    other = []
    for a in apps:
        v, at = (a.args[-1] if a.args else None), a
        for _ in range(3):
            if isinstance(v, ast.Name):
                b = reaching(ck.fn, ck.pm, v.id, at)
                if b is None or b.kind != "assign":
                    v = None
                    break
                v, at = b.value, b.node
            else:
                break
        if not (v is call):
            other.append(f"line {LN(a)}: {ast.unparse(a)[:60]}")
    if not apps:
        ck.unknown("unit", "images-of-a-page-are-built-for-that-page", "no append to the returned list found")
    else:
        ck.add("unit", "images-of-a-page-are-built-for-that-page", not other, "a record from another source than the image helper is put on the page: " + "; ".join(other) if other else "", definite=False)


# =====================================================================================
# (e) unit view and document view coincide (data_types.py)
# =====================================================================================
from contracts.c03_exec import fld_len, fld_at   # noqa: E402
from pyvc.verify import p_ext, p_bool             # noqa: E402

TABLE = "__table__"
# class -> (list field, element class, image class, element has a list of tables (True) / is itself one table via .data (False), kwargs)
VIEWS = {
    "PdfContent": ("pages", "PdfPage", "PdfImage", True, ()),
    "PptxContent": ("slides", "PptxSlide", "PptxImage", True, ("include_image_captions",)),
    "XlsxContent": ("sheets", "XlsxSheet", "XlsxImage", False, ()),
    "OdpContent": ("slides", "OdpSlide", "OpenDocumentImage", True, ()),
    "OdsContent": ("sheets", "OdsSheet", "OpenDocumentImage", False, ()),
}


# document view only (the units of these types carry no images of their own, or are heading sections):
NESTED_IMAGES = {"PptContent": ("slides", "PptSlideContent", "PptImage")}
FLAT_IMAGES = {"DocContent": "DocImage", "DocxContent": "DocxImage", "XlsContent": "XlsImage", "OdgContent": "OpenDocumentImage",
               "OdtContent": "OpenDocumentImage", "RtfContent": "RtfImage", "EpubContent": "EpubImage"}


def _install_views():
    E = C14Executor
    for cls, (lf, ecls, icls) in NESTED_IMAGES.items():
        E.ZFIELDS[(ecls, "images")] = icls
    for cls, icls in FLAT_IMAGES.items():
        E.ZFIELDS[(cls, "images")] = icls
    for cls, (lf, ecls, icls, has_tables, _kw) in VIEWS.items():
        E.ZFIELDS[(ecls, "images")] = icls
        if has_tables:
            E.ZFIELDS[(ecls, "tables")] = TABLE
        else:
            E.OFIELDS[(ecls, "data")] = TABLE
    E.OFIELDS[("TableData", "data")] = TABLE


def _self_of(st):
    """The iterator's own `self`: bound in the frame of the method under verification (the current frame may be the one of a generator
    helper the method delegates to with `yield from`)."""
    for f in st.frames:
        v = f.env.get("self")
        if isinstance(v, VExt):
            return v.t
    raise ops.Unsupported("no `self` in scope of the loop")


def prefix_ext(t, j):
    """Sequence lemma used by the inner-loop invariants (proved once per element sort in lemmas())."""
    return z3.And(z3.Implies(z3.And(j >= 0, j < z3.Length(t)), z3.SubSeq(t, 0, j + 1) == z3.Concat(z3.SubSeq(t, 0, j), z3.Unit(t[j]))),
                  z3.SubSeq(t, 0, z3.Length(t)) == t, z3.SubSeq(t, 0, 0) == z3.Empty(t.sort()))


class ViewSpec:
    def __init__(self, cls):
        self.cls = cls
        self.lf, self.ecls, self.icls, self.has_tables, self.kwargs = VIEWS[cls]
        self.IS = z3.SeqSort(ext_sort(self.icls))
        self.TS = z3.SeqSort(ext_sort(TABLE))
        self.FLATI = z3.Function(f"{cls}.images_of_first", ext_sort(cls), z3.IntSort(), self.IS)    # concat of the image lists of elements 0..i-1
        self.FLATT = z3.Function(f"{cls}.tables_of_first", ext_sort(cls), z3.IntSort(), self.TS)

    def n(self, me):
        return fld_len(self.cls, self.lf)(me)

    def elem(self, me, k):
        return fld_at(self.cls, self.lf, ext_sort(self.ecls))(me, k)

    def iseq(self, e):
        return X.zfield(self.ecls, "images", self.icls)(e)

    def tseq(self, e):
        """document tables contributed by element e"""
        if self.has_tables:
            return X.zfield(self.ecls, "tables", TABLE)(e)
        return z3.Unit(X.ofield(self.ecls, "data", TABLE)(e))

    def defn(self, me, i):
        """prefix definition of the flattenings at i"""
        inr = z3.And(i >= 0, i < self.n(me))
        return z3.And(self.FLATI(me, 0) == z3.Empty(self.IS), self.FLATT(me, 0) == z3.Empty(self.TS),
                      z3.Implies(inr, self.FLATI(me, i + 1) == z3.Concat(self.FLATI(me, i), self.iseq(self.elem(me, i)))),
                      z3.Implies(inr, self.FLATT(me, i + 1) == z3.Concat(self.FLATT(me, i), self.tseq(self.elem(me, i)))))


def view_contracts():
    out = []
    for cls in VIEWS:
        v = ViewSpec(cls)
        out.extend(_view_contracts(v))
    for cls, (lf, ecls, icls) in NESTED_IMAGES.items():
        VIEWS[cls] = (lf, ecls, icls, True, ())
        try:
            out.append(_view_contracts(ViewSpec(cls), images_only=True)[0])
        finally:
            del VIEWS[cls]
    for cls, icls in FLAT_IMAGES.items():
        out.append(_flat_images_contract(cls, icls))
    return out


def _flat_images_contract(cls, icls):
    """iterate_images() of a type with one document-level image list yields exactly that list, in order."""
    IS = z3.SeqSort(ext_sort(icls))

    def whole(me):
        return X.zfield(cls, "images", icls)(me)

    def req(c):
        c.ex.yz_init(c.st, {"img": z3.Empty(IS)})
        c.ex.yz_init(c.entry, {"img": z3.Empty(IS)})
        return z3.BoolVal(True)

    def inv(lc):
        t = lc.ex.zterm(lc.st, lc.seq) if lc.seq is not None else None
        if t is None:
            return z3.BoolVal(False)
        lc.st.assume(prefix_ext(t, lc.i))
        return z3.And(lc.st.ghost["YZ"]["img"] == z3.SubSeq(t, 0, lc.i), t == whole(_self_of(lc.entry)))
    tgt = f"{DT}::{cls}.iterate_images"
    C14Executor.VIEW[tgt] = "images"
    return FnContract(target=tgt, params=[("self", p_ext(cls))], generator=True, requires=req,
                      ensures=[("document-images-are-the-image-list-in-order", lambda c: c.st.ghost["YZ"]["img"] == whole(c.args["self"].t))],
                      raises=[], loops={0: LoopSpec(inv=inv, label="images")},
                      note="iterate_images() yields every entry of self.images, in order, nothing else")


def _view_contracts(v: ViewSpec, images_only=False):
    cls = v.cls
    params = [("self", p_ext(cls))]

    def me_of(x):
        return x.args["self"].t

    def start(comps):
        def req(c):
            c.ex.yz_init(c.st, comps(v))
            c.ex.yz_init(c.entry, comps(v))
            c.st.assume(z3.And(v.n(me_of(c)) >= 0, v.defn(me_of(c), z3.IntVal(0))))
            return z3.BoolVal(True)
        return req

    def Y(st, k):
        return st.ghost["YZ"][k]

    # ---- iterate_images: the document view is the flattening ----
    def img_outer(lc):
        me = _self_of(lc.entry)
        lc.st.assume(v.defn(me, lc.i))
        return Y(lc.st, "img") == v.FLATI(me, lc.i)

    def img_inner(lc):
        t = lc.ex.zterm(lc.st, lc.seq) if lc.seq is not None else None
        if t is None:
            return z3.BoolVal(False)
        lc.st.assume(prefix_ext(t, lc.i))        # proved lemma (lemmas()): t[:j+1] == t[:j] ++ [t[j]]
        return Y(lc.st, "img") == z3.Concat(Y(lc.entry, "img"), z3.SubSeq(t, 0, lc.i))

    out = [FnContract(
        target=f"{DT}::{cls}.iterate_images", params=params, generator=True,
        requires=start(lambda v: {"img": z3.Empty(v.IS)}),
        ensures=[("document-images-are-the-image-lists-of-the-elements-in-order",
                  lambda c: Y(c.st, "img") == v.FLATI(me_of(c), v.n(me_of(c))))],
        raises=[], loops={0: LoopSpec(inv=img_outer, label="elements"), 1: LoopSpec(inv=img_inner, label="images-of-element")},
        note="iterate_images() yields concat(e.images for e in self.<elements>)")]
    C14Executor.VIEW[out[-1].target] = "images"
    if images_only:
        return out

    # ---- iterate_tables ----
    def tab_outer(lc):
        me = _self_of(lc.entry)
        lc.st.assume(v.defn(me, lc.i))
        return Y(lc.st, "tab") == v.FLATT(me, lc.i)

    def tab_inner(lc):
        t = lc.ex.zterm(lc.st, lc.seq) if lc.seq is not None else None
        if t is None:
            return z3.BoolVal(False)
        lc.st.assume(prefix_ext(t, lc.i))
        return Y(lc.st, "tab") == z3.Concat(Y(lc.entry, "tab"), z3.SubSeq(t, 0, lc.i))

    loops = {0: LoopSpec(inv=tab_outer, label="elements")}
    if v.has_tables:
        loops[1] = LoopSpec(inv=tab_inner, label="tables-of-element")
    out.append(FnContract(
        target=f"{DT}::{cls}.iterate_tables", params=params, generator=True,
        requires=start(lambda v: {"tab": z3.Empty(v.TS)}),
        ensures=[("document-tables-are-the-tables-of-the-elements-in-order",
                  lambda c: Y(c.st, "tab") == v.FLATT(me_of(c), v.n(me_of(c))))],
        raises=[], loops=loops, note="iterate_tables() yields the tables of every element, in order"))
    C14Executor.VIEW[out[-1].target] = "tables"

    # ---- iterate_units: concat(u.get_images()) is the same flattening; unit tables are tables of the same element ----
    def counters(lc):
        """`k += 1` once per iteration (a hand-written enumerate): k == k at loop entry + number of iterations"""
        out = []
        try:
            fnode = getattr(lc.st.frame, "fnode", None)
            loop = next((n for n in ast.walk(fnode) if isinstance(n, ast.For)), None) if fnode is not None else None
            for b in (loop.body if loop is not None else ()):
                nm = None
                if isinstance(b, ast.AugAssign) and isinstance(b.op, ast.Add) and isinstance(b.target, ast.Name) and isinstance(b.value, ast.Constant) \
                        and b.value.value == 1 and type(b.value.value) is int:
                    nm = b.target.id
                elif isinstance(b, ast.Assign) and len(b.targets) == 1 and isinstance(b.targets[0], ast.Name) \
                        and ast.unparse(b.value) in (f"{b.targets[0].id} + 1", f"1 + {b.targets[0].id}"):
                    nm = b.targets[0].id
                if nm is None:
                    continue
                stores = [x for x in ast.walk(loop) if isinstance(x, ast.Name) and x.id == nm and isinstance(x.ctx, ast.Store)]
                v0, v1 = lc.entry.lookup(nm), lc.st.lookup(nm)
                if len(stores) == 1 and isinstance(v0, VInt) and isinstance(v1, VInt):
                    out.append(v1.t == v0.t + lc.i)
        except Exception:  # noqa
            return []
        return out

    def unit_inv(lc):
        me = _self_of(lc.entry)
        lc.st.assume(v.defn(me, lc.i))
        return Conj([("images", Y(lc.st, "img") == v.FLATI(me, lc.i)), ("count", z3.And([Y(lc.st, "cnt") == lc.i] + counters(lc)))])

    def unit_spec(ex, st):
        e = ex.current_element(st, v.ecls)
        if e is None:
            raise ops.Unsupported("no current element at the yield of a unit")
        return v.tseq(e.t)

    tgt = f"{DT}::{cls}.iterate_units"
    out.append(FnContract(
        target=tgt, params=params + [(k, p_bool()) for k in v.kwargs], generator=True,
        requires=start(lambda v: {"img": z3.Empty(v.IS), "cnt": z3.IntVal(0)}),
        ensures=[("concatenated-unit-images-are-the-document-images", lambda c: Y(c.st, "img") == v.FLATI(me_of(c), v.n(me_of(c)))),
                 ("one-unit-per-element", lambda c: Y(c.st, "cnt") == v.n(me_of(c)))],
        raises=[], loops={0: LoopSpec(inv=unit_inv, label="units")},
        note="concat(u.get_images() for u in iterate_units()) == list(iterate_images()); u.get_tables() ⊆ tables of the same element"))
    def unit_num(ex, st, before):
        """the stored number of the element when it has one (slides: `slide_number`, set by the extractor, also stamped on the slide's
        pictures), else the 1-based position (pages, sheets)"""
        sch = ex.schema(v.ecls) or {}
        if sch.get("slide_number") == "int":
            e = ex.current_element(st, v.ecls)
            if e is None:
                raise ops.Unsupported("no current element at the yield of a unit")
            from contracts.c03_exec import fld
            return fld(v.ecls, "slide_number", z3.IntSort())(e.t)
        return before + 1
    C14Executor.VIEW[tgt] = "units"
    C14Executor.UNIT_SPEC[tgt] = unit_spec
    C14Executor.UNIT_NUM[tgt] = unit_num
    return out


# =====================================================================================
# pdf: content type of an image = what its LAST stream filter says (the filters of an array are applied in order when decoding;
# the last one is the encoding of the image itself: [/FlateDecode /DCTDecode] is a deflated JPEG)
# =====================================================================================
PDF_FILTER_NAME = z3.String("pdf.image./Filter.name")
PDF_FILTER_LIST = z3.Const("pdf.image./Filter.array", X.SS)
PDF_SPEC_TYPES = {"/DCTDecode": "image/jpeg", "/JPXDecode": "image/jp2"}


def _m_pdf_dict_get(ex, st, obj, args, kwargs, node):
    """image dictionary .get(key, default): /Filter is a name, an array of names (any length) or absent; other entries are unknown values"""
    key = args[0].const() if args and isinstance(args[0], VStr) else None
    if key in ("/Width", "/Height"):
        t = z3.Int(f"pdf.image.{key}")
        st.assume(t >= 0)
        st.ghost["pdf" + key] = t
        return [(st, VInt(t))]
    if key != "/Filter":
        return ex.havoc_call(st, "PdfImageDict.get", [], node)
    out = []
    s1 = st.fork()
    s1.ghost["pdf_last_filter"] = PDF_FILTER_NAME
    out.append((s1, VStr(PDF_FILTER_NAME)))
    s2 = st.fork()
    n = z3.Length(PDF_FILTER_LIST)
    s2.ghost["pdf_last_filter"] = z3.If(n > 0, PDF_FILTER_LIST[n - 1], z3.StringVal(""))
    out.append((s2, X.zl(s2, ex, PDF_FILTER_LIST, fresh=False, ekind="str")))
    if len(args) > 1:
        s3 = st.fork()
        s3.ghost["pdf_last_filter"] = args[1].t if isinstance(args[1], VStr) else z3.StringVal("")
        out.append((s3, args[1]))
    return out


def pdf_image_contract(reg):
    from pyvc.verify import p_ext, p_int, p_unk
    reg.method_models[("PdfImageDict", "get")] = _m_pdf_dict_get
    qn = real_name(PDF, "_extract_image")
    fn = loader.module(PDF).functions.get(qn)
    names = [a.arg for a in fn.args.args] if fn is not None else ["image_obj", "name", "index", "page_num", "caption"]
    makers = [p_ext("PdfImageDict"), p_unk(), p_int(1, None), p_int(1, None), p_str()]
    params = list(zip(names, makers[:len(names)] + [p_unk()] * max(0, len(names) - len(makers))))

    def content_type_of(c):
        r = c.result
        if isinstance(r, VRef) and c.st.obj(r.ref).kind == "obj":
            v = c.st.obj(r.ref).data.get("content_type")
            return v if isinstance(v, VStr) else None
        return None

    def e_ct(c):
        last = c.st.ghost.get("pdf_last_filter")
        ct = content_type_of(c)
        if last is None or ct is None:
            return z3.BoolVal(False)
        return z3.And([z3.Implies(last == z3.StringVal(f), ct.t == z3.StringVal(t)) for f, t in PDF_SPEC_TYPES.items()])
    def fld_of(c, f):
        r = c.result
        if isinstance(r, VRef) and c.st.obj(r.ref).kind == "obj":
            return c.st.obj(r.ref).data.get(f)
        return None

    def e_size(c):
        w, h = fld_of(c, "width"), fld_of(c, "height")
        gw, gh = c.st.ghost.get("pdf/Width"), c.st.ghost.get("pdf/Height")
        if not isinstance(w, VInt) or not isinstance(h, VInt) or gw is None or gh is None:
            return z3.BoolVal(False)
        return z3.And(ops.int_term(w) == gw, ops.int_term(h) == gh)

    def e_ids(c):
        i, u = fld_of(c, "index"), fld_of(c, "unit_name")
        if not isinstance(i, VInt) or not isinstance(u, VInt) or len(names) < 4:
            return z3.BoolVal(False)
        return z3.And(ops.int_term(i) == c.args[names[2]].t, ops.int_term(u) == c.args[names[3]].t)
    c = FnContract(target=f"{PDF}::{qn}", oid_name="_extract_image", params=params,
                   ensures=[("content-type-of-the-last-filter", e_ct), ("size-is-the-declared-width-and-height", e_size),
                            ("number-and-page-are-the-arguments", e_ids)], raises=[Raises("Exception", sub=True)],
                   note="content type = the type named by the last filter of the image's filter chain (name, array of any length, or absent)")
    return c


def pdf_content_type(repo, tier):
    """pdf `_extract_image`: symbolic execution of the real function (private helpers inlined at AST level, everything else abstracted) over an
    image dictionary whose /Filter is a name, an array of names of any length, or absent."""
    from pyvc import verify
    from pyvc.contracts import Registry
    from pyvc.exctypes import Universe
    reg = Registry()
    for c0 in contracts(reg):
        reg.add(c0)
    uni = Universe(repo)
    c = pdf_image_contract(reg)
    mod = loader.module(PDF, repo)
    qn = real_name(PDF, "_extract_image", repo)
    oid = "C14/pdf_extractor.py::_extract_image/ensures#content-type-of-the-last-filter"
    if mod.functions.get(qn) is None:
        return {"obligations": [], "functions": [], "undecided": [{"obligation": f"{PDF}::_extract_image", "why": "contract-target-missing"}]}
    fn, _inl = inline_helpers(mod, qn)
    ex = C14Executor(mod, reg, uni, abstract=True, inline_calls=False)
    ex.contract = c
    ex.oid_prefix = "pdf"
    labels = ("content-type-of-the-last-filter", "size-is-the-declared-width-and-height", "number-and-page-are-the-arguments")
    base = "C14/pdf_extractor.py::_extract_image/ensures#"
    ds = []
    try:
        got, _cov = verify.generate(ex, c, mod, fn)
        for lab in labels:
            ob = got.get(f"pdf/ensures#{lab}")
            if ob is None:
                raise ops.Unsupported("no normal outcome")
            d = _unvalidated_to_unknown(verify.discharge(ob, None, getattr(ex, "witness_terms", {})))
            d.update(id=base + lab, function=f"{PDF}::{qn}", loc=PDF)
            ds.append(d)
    except Exception as e:  # noqa
        ds = []
        for lab in labels:
            d = ground_obligation(base + lab, False, f"not executable: {type(e).__name__}: {e}", PDF, kind="ensures", definite=False)
            d.update(function=f"{PDF}::{qn}")
            ds.append(d)
    return confirm_natively({"obligations": ds, "functions": [dict(mod.fn_info(qn), obligations=len(ds))]}, repo)


def contracts(reg):
    X.install_models(reg)
    out = [resolver_contract()] + delegating_resolvers()
    for rel in (DOCX, PPTX, XLSX):
        out.append(sniffer_contract(rel))
    out.extend(image_utils_contracts())
    from contracts import C03
    C03.install_opaque()
    _install_views()
    out.extend(view_contracts())
    pdf_image_contract(reg)       # (verified by the EXTRA pdf_content_type on the function with its small helpers inlined)
    return out


def sniffers_agree(repo, tier):
    """(b) the three OOXML copies of the sniffer agree on every input (relational, contracts/c14_agree.py)."""
    from pyvc.contracts import Registry
    from pyvc.exctypes import Universe
    from contracts import c14_agree as AG
    reg = Registry()
    for c in contracts(reg):
        reg.add(c)
    uni = Universe(repo)
    obls = []
    for (ra, rb, label) in ((DOCX, PPTX, "docx-pptx"), (DOCX, XLSX, "docx-xlsx")):
        obls.extend(AG.agree(repo, ra, rb, "_get_image_pixel_dimensions", label, reg, uni, C14Executor,
                             quals=(real_name(ra, "_get_image_pixel_dimensions", repo), real_name(rb, "_get_image_pixel_dimensions", repo))))
    return confirm_natively({"obligations": obls, "functions": []}, repo)


def seq_lemmas(repo, tier):
    """Sequence lemmas used (assumed) by the inner-loop invariants of the views: t[:j+1] == t[:j] ++ [t[j]], t[:len t] == t, t[:0] == [].
    Discharged by cvc5 first (0.02 s each; z3's sequence solver needs between 0.05 s and its timeout on the same formula), z3 as fallback."""
    from pyvc import solve
    import time
    out = []
    jj = z3.Int("j")
    for sort in sorted({v[2] for v in VIEWS.values()} | {v[2] for v in NESTED_IMAGES.values()} | set(FLAT_IMAGES.values()) | {TABLE}) + ["<str>"]:
        t = z3.Const("t", z3.SeqSort(ext_sort(sort))) if sort != "<str>" else z3.Const("t", z3.SeqSort(z3.StringSort()))
        parts = prefix_ext(t, jj).children()
        for label, goal in ((f"prefix-extension-{sort.strip('_<>')}", parts[0]), (f"prefix-whole-and-empty-{sort.strip('_<>')}", z3.And(parts[1:]))):
            t0 = time.time()
            sv = z3.Solver()
            sv.add(z3.Not(goal))
            smt2 = "\n".join(l for l in sv.to_smt2().splitlines() if not l.startswith("(check-sat)") and not l.startswith("(set-info") and not l.startswith("; benchmark"))
            r = solve._cvc5(smt2, 10.0)
            backend, status = "cvc5", ("proved" if r == "unsat" else "unknown")
            if status != "proved":
                rr = solve.check_vc([], goal, None, want_model=False)
                backend, status = rr.backend, ("proved" if rr.status == "proved" else "unknown")
            out.append({"id": f"C14/data_types.py::sequences/lemma#{label}", "kind": "lemma", "status": status, "vcs": 1, "seconds": round(time.time() - t0, 4),
                        "backends": {backend: 1}, "witness": None, "reason": "", "loc": "spec"})
    return {"obligations": out, "functions": []}


def accessors(repo, tier):
    """Round 7: the observation accessors (get_metadata / get_content_type / get_bytes) of the six image classes of the formats the property
    quantifies over, each under a contract verified on its real body (contracts/c14_access.py); a refutation counts when the native grid
    (replay/C14.py::check_accessors) reproduces it."""
    try:
        from contracts import c14_access as A
        return confirm_natively(A.run(repo, tier, contracts), repo)
    except Exception as e:  # noqa
        g = ground_obligation("C14/data_types.py::image-accessors/ensures#executable", False, f"not executable: {type(e).__name__}: {e}"[:300], DT,
                              kind="ensures", definite=False)
        return {"obligations": [g], "functions": []}


def metadata_mirror(repo, tier):
    """Round 7: `ImageMetadata.__post_init__` -- the dict view the statement observes holds the fields of the same name (c14_access)."""
    try:
        from contracts import c14_access as A
        return confirm_natively(A.run_metadata_mirror(repo, tier, contracts), repo)
    except Exception as e:  # noqa
        g = ground_obligation("C14/data_types.py::ImageMetadata.__post_init__/ensures#executable", False, f"not executable: {type(e).__name__}: {e}"[:300], DT,
                              kind="ensures", definite=False)
        return {"obligations": [g], "functions": []}


def content_type_helpers(repo, tier):
    """Round 7: the content-type helpers of the library (xlsx `_get_content_type`, ODF `guess_content_type`) under a contract verified on the
    real body over a symbolic part name (contracts/c14_access.py::run_helpers); the call sites keep the syntactic `content-type#` view, which
    the verified contract implies for the raster extensions."""
    try:
        from contracts import c14_access as A
        return confirm_natively(A.run_helpers(repo, tier, contracts), repo)
    except Exception as e:  # noqa
        g = ground_obligation("C14/xlsx_extractor.py::_get_content_type/ensures#executable", False, f"not executable: {type(e).__name__}: {e}"[:300], XLSX,
                              kind="ensures", definite=False)
        return {"obligations": [g], "functions": []}


EXTRA = [_site_runner(i) for i in range(len(SITES))] + [image_sites, sniffers_agree, seq_lemmas, pdf_content_type, rel_type_selection, odf_length, accessors,
                                                        content_type_helpers, metadata_mirror]


def lemmas():
    """JPEG tail lemma by induction on N - o: a frame header needs 10 bytes."""
    D = z3.Array("L.D", z3.IntSort(), z3.IntSort())
    N = z3.Int("L.len")
    d = SP.Data(D, N)
    j = SP.Jpeg(d)
    o = z3.Int("o")
    L = d.u(o + 2, 2)

    def ih(x):
        return z3.Implies(z3.And(x >= 0, x + 10 > N), j.KIND(x) == SP.OTHER)
    out = [("C14/image_utils.py::jpeg-chain/lemma#no-frame-header-in-the-last-9-bytes",
            [N >= 0, X.byte_range(D), o >= 0, j.defn(o), ih(o + 1), ih(o + 2 + L)], ih(o))]
    return out


TRUSTED = ["zipfile member reads (ZipFile.read returns the stored member)", "pypdf image decoding (get_data of a DCT stream is the embedded file)",
           "mimetypes table (ODF content types): `guess_content_type` is verified relative to the uninterpreted answer of mimetypes.guess_type; that the "
           "table knows the raster extensions case-insensitively is validated natively (replay/C14.py::check_ct_helper), not proved",
           "io.BytesIO at the extractors' store sites: BytesIO(x) holds exactly x (the accessors' stream model is listed under assumed models)",
           "AST dataflow back end (contracts/c14_sites.py, c14_flow.py): numbering discipline => numbers 1..n in append order by the loop invariant "
           "`counter == number of images appended`; only calls outside TOTAL_CALLS / proved-total repo functions are raise points",
           "program slices (c14_flow.py): nearest dominating definition; a shape the slicer does not follow is UNDECIDED"]
ASSUMED_MODELS = ["str.split('/') = SEGS, '/'.join = JOINS (uninterpreted; replay validates the executable twin against CPython)",
                  "int.from_bytes / struct.unpack on (clamped) slices", "bytes.startswith / == on byte strings",
                  "round 7 (accessor / helper contracts, contracts/c14_access.py): str.strip = STRIP, str.lower = LOWER (uninterpreted functions; "
                  "validated natively on part names and content types of every casing)",
                  "mimetypes.guess_type(path) = (MIME(path) or None, encoding): uninterpreted answer in the contract of open_office/_shared.guess_content_type",
                  "io.BytesIO stream model: a stream is (content, position); BytesIO(b) / BytesIO() / BytesIO(None) hold b / nothing at position 0; seek(n) sets "
                  "the position; any other stream operation is outside the model (-> unknown); replay reads every accessor's stream twice",
                  "data_types._odf_length_to_px AT ITS CALL SITE in OpenDocumentImage.get_metadata: None for None (implied by the verified contract), result == PX(argument) for a str (determinism only); "
                  "the function's own 96-dpi contract is VERIFIED on its body (odf_length) and is not weakened by this view",
                  "ImageMetadata.__setattr__ mirrors each field assignment into the dict view (dict.__setitem__ through super(); not modelled); what "
                  "__post_init__ writes is VERIFIED (metadata_mirror); replay/C14.py::check_metadata_mirror / check_accessors compare attribute view and "
                  "dict view natively (construction by keyword / position / defaults, later assignment)"]
ASSUMPTIONS = ["JPEG: a stream that leaves the T.81 marker chain before a frame header (non-FF byte at a marker position, standalone marker, "
               "EOI/SOS first, truncated frame header) declares no size in the sense of the statement: result unconstrained there",
               "BMP: signed little-endian width / height at 18 / 22 as in the property's format clause (BITMAPINFOHEADER family)"]
BOUNDED = ["each recorded finding: behaviour OUTSIDE its exclusion is checked by a native sweep of 12 generated documents (replay/C14.py::exclusion_sweep), not proved",
           "refutations: every solver model is re-validated natively (grid of 8 base dirs x 15 targets for resolvers; generated PNG/GIF/BMP/JPEG files incl. fill "
           "bytes, 1-3 leading segments and 6000 random marker sequences for the sniffers; <= 3 elements x <= 2 images for the data_types views)",
           "content-type obligations at the extractor sites stay dataflow claims (content_type= is the table image of a key computed from the part name), but "
           "since round 7 the KEY is proved == LOWER(text after the last dot) over a symbolic part name where the engine's exact string models apply "
           "(rsplit(sep, 1), rpartition, `in`, conditional expressions) and the helpers `_get_content_type` / `guess_content_type` are under contracts "
           "verified on their bodies; `n.lower().rsplit('.', 1)[-1]` (lower first) is still accepted by shape; a key expression of another pure shape "
           "(posixpath.splitext ...) is executed by CPython on EXT_CORPUS (13 part names) and counted as bounded-ok, never as proved",
           "accessor / helper obligations: a solver refutation or a body outside the subset counts only when the native grid reproduces it "
           "(replay/C14.py::check_accessors: 2 numbers x units x 4-6 sizes squared x 2 content types, payloads None / empty / 264 bytes with the stored "
           "stream left at 0 / 5 / end; check_ct_helper: 5 extensions x 3 casings x 7 stems)"]


def known_findings(kf, violations, repo, tier):
    """Recorded genuine defects (known_findings.json).  Per finding: the recorded witness is replayed on the real code; a finding
    whose witness still fails prints KNOWN-FINDING and covers exactly its own obligation -- unless the bounded native sweep
    OUTSIDE the recorded exclusion also fails (then the obligation stays a new violation)."""
    import json
    import subprocess
    from concurrent.futures import ThreadPoolExecutor
    vio_ids = {v["id"] for v in violations}
    root = os.path.dirname(os.path.dirname(os.path.abspath(__file__)))

    def one(f):
        req = {"property": "C14", "obligation": f["obligation"], "known_finding": f["id"], "witness": f.get("witness"), "repo": repo}
        try:
            p = subprocess.run(["/venv/bin/python", os.path.join(root, "replay", "run.py")], input=json.dumps(req), capture_output=True, text=True,
                               timeout=600, cwd=root, env=dict(os.environ, VERIF_REPO=repo))
            lines = [l for l in p.stdout.splitlines() if l.startswith("{")]
            res = json.loads(lines[-1]) if lines else {"reproduced": False, "note": (p.stderr or p.stdout)[-500:]}
        except Exception as e:  # noqa
            res = {"reproduced": False, "note": str(e)}
        still = bool(res.get("reproduced"))
        outside = res.get("outside_exclusion")
        import re as _re
        fam = _re.sub(r"-\d+$", "", f["obligation"])
        covers = [v for v in vio_ids if _re.sub(r"-\d+$", "", v) == fam] if still and outside is None else []
        return {"finding": f["id"], "still_fails": still, "line": f"{f['id']}: {f['what']}", "covers": covers, "exclusion": f.get("exclusion"),
                "witness_replay": str(res.get("observed", res.get("note", "")))[:300],
                "outside_exclusion": "nothing fails outside the exclusion (bounded native sweep)" if outside is None else str(outside)[:400]}
    with ThreadPoolExecutor(max_workers=8) as ex:
        return list(ex.map(one, kf))
