"""C14 -- images are returned bit-exact, numbered, on the right unit.

Obligations (all generated from the real source on every run):

(a) TARGET RESOLUTION = the OPC spec function RESOLVE(base_dir, target) (c14_spec): the shared resolver
    by symbolic execution with a loop invariant over the folded segment prefix (unbounded), every
    read site (pptx / docx / xlsx / epub / ODF) as a program slice of the real statements whose result
    must be RESOLVE(directory of the source part, target);
(b) DIMENSION SNIFFERS = format specifications over a byte string of symbolic length: PNG / GIF / BMP
    loop-free, JPEG by the tail-recursive chain invariant `chain(i) == chain(2)` (unbounded number of
    markers); three OOXML copies + image_utils;
(c) NUMBERING discipline of every image counter (AST path counting);
(d) BYTES DATAFLOW from the container read to the image object, content type from the extension table;
(e) VIEWS COINCIDE in data_types.py (symbolic lists of symbolic lists, invariants over the yielded prefix).
"""
import ast
import os

import z3

from pyvc import loader, ops
from pyvc.contracts import FnContract, LoopSpec, Raises
from pyvc.flow import dotted, ground_obligation
from pyvc.values import NONE, VBool, VExt, VInt, VNoneT, VRef, VSeq, VStr, VTuple, VUnk, ext_sort, fresh_name
from pyvc.verify import Maker, p_str

from contracts import c14_exec as X
from contracts import c14_spec as SP
from contracts.c14_exec import C14Executor, p_symbytes, data_of
from contracts.c03_exec import Conj

EX = "sharepoint2text/parsing/extractors/"
DOCX = EX + "ms_modern/docx_extractor.py"
PPTX = EX + "ms_modern/pptx_extractor.py"
XLSX = EX + "ms_modern/xlsx_extractor.py"
IMGU = EX + "util/image_utils.py"
ZIPU = EX + "util/zip_utils.py"
EPUB = EX + "epub_extractor.py"
DT = EX + "data_types.py"

EXECUTOR = C14Executor
EXECUTOR_KW = {}
REPLAY_UNKNOWN = True      # DESIGN 2.5.3c: what the solver leaves open goes to the native small-scope search


# =====================================================================================
# (b) dimension sniffers
# =====================================================================================
def _item_is(item, want, optional):
    """Bool: a returned component equals the expected integer `want` (Int term); with `optional`, 0 is reported as None."""
    if isinstance(item, VNoneT):
        return (want == 0) if optional else z3.BoolVal(False)
    if isinstance(item, (VInt, VBool)):
        t = ops.int_term(item)
        return z3.And(t == want, want != 0) if optional else t == want
    return z3.BoolVal(False)


def result_is(c, w, h, optional):
    r = c.result
    if not isinstance(r, VTuple) or len(r.items) != 2:
        return z3.BoolVal(False)
    return z3.And(_item_is(r.items[0], w, optional), _item_is(r.items[1], h, optional))


def result_is_none(c):
    r = c.result
    return z3.BoolVal(isinstance(r, VTuple) and len(r.items) == 2 and all(isinstance(x, VNoneT) for x in r.items))


def result_positive_or_none(c):
    r = c.result
    if not isinstance(r, VTuple) or len(r.items) != 2:
        return z3.BoolVal(False)
    cs = []
    for x in r.items:
        if isinstance(x, VNoneT):
            continue
        if isinstance(x, (VInt, VBool)):
            cs.append(ops.int_term(x) > 0)
        else:
            return z3.BoolVal(False)
    return z3.And(cs + [z3.BoolVal(True)])


def _d(c, name):
    D, N = data_of(c.args[name])
    return SP.Data(D, N)


def _jpeg(c, name):
    return SP.Jpeg(_d(c, name))


def sniffer_contract(rel, fill=True):
    """docx / pptx / xlsx `_get_image_pixel_dimensions(image_data) -> (w | None, h | None)`."""
    def jp(c):
        return SP.Jpeg(_d(c, "image_data"), fill=fill)

    def e_png(c):
        d = _d(c, "image_data")
        w, h = SP.png_size(d)
        return z3.Implies(SP.png_declares(d), result_is(c, w, h, True))

    def e_gif(c):
        d = _d(c, "image_data")
        w, h = SP.gif_size(d)
        return z3.Implies(SP.gif_declares(d), result_is(c, w, h, True))

    def e_bmp(c):
        d = _d(c, "image_data")
        w, h = SP.bmp_size(d)
        return z3.Implies(SP.bmp_declares(d), result_is(c, SP.zabs(w), SP.zabs(h), True))

    def e_jpeg(c):
        j = jp(c)
        w, h = j.size()
        return z3.Implies(j.declares(), result_is(c, w, h, True))

    def e_none(c):
        d = _d(c, "image_data")
        return z3.Implies(z3.Not(SP.known_signature(d)), result_is_none(c))

    def inv(lc):
        j = SP.Jpeg(SP.Data(*data_of(lc.entry.lookup("image_data"))), fill=fill)
        i = ops.int_term(lc["i"])
        two = z3.IntVal(2)
        lc.st.assume(j.defn(i))          # definitional instance of the chain at the current offset (spec function, not a claim)
        return z3.And(i >= 2, z3.Or(j.KIND(two) == SP.OTHER, j.same(i, two)))

    return FnContract(
        target=f"{rel}::_get_image_pixel_dimensions",
        params=[("image_data", p_symbytes())],
        hyps=lambda c: jp(c).defn(z3.IntVal(2)),
        ensures=[("png-ihdr", e_png), ("gif-screen", e_gif), ("bmp-infoheader", e_bmp), ("jpeg-first-sof", e_jpeg),
                 ("no-known-signature-no-size", e_none), ("size-positive-or-none", result_positive_or_none)],
        raises=[],
        loops={0: LoopSpec(inv=inv, label="jpeg-chain")},
        note="pixel size = the size the file declares (PNG IHDR / GIF screen / BMP info header / first JPEG SOFn on the marker chain)",
    )


def image_utils_contracts():
    def jp(c, name="data"):
        return SP.Jpeg(_d(c, name))

    def hyps(c):
        j = jp(c)
        return z3.And(j.axiom(), j.tail_lemma())

    def inv(lc):
        j = SP.Jpeg(SP.Data(*data_of(lc.entry.lookup("data"))))
        o = ops.int_term(lc["offset"])
        two = z3.IntVal(2)
        lc.st.assume(z3.And(j.defn(o), j.tail_at(o)))   # definitional instance + proved tail lemma at the current offset
        return z3.And(o >= 2, z3.Or(j.KIND(two) == SP.OTHER, j.same(o, two)))

    def e_jpeg(c):
        j = jp(c)
        w, h = j.size()
        return z3.Implies(j.declares(), result_is(c, w, h, False))

    gj = FnContract(
        target=f"{IMGU}::get_jpeg_dimensions",
        params=[("data", p_symbytes())],
        hyps=lambda c: jp(c).defn(z3.IntVal(2)),
        ensures=[("jpeg-first-sof", e_jpeg)],
        raises=[],
        loops={0: LoopSpec(inv=inv, label="jpeg-chain")},
        inline=True,          # callers execute the real body; its loop is cut by the same (separately proved) invariant
        note="(width, height) of the first SOFn frame header on the marker chain",
    )

    def typ(c, *names):
        return z3.Or([c.args["image_type"].t == z3.StringVal(n) for n in names])

    def g_png(c):
        d = _d(c, "data")
        w, h = SP.png_size(d)
        return z3.Implies(z3.And(typ(c, "png"), SP.png_declares(d)), result_is(c, w, h, False))

    def g_gif(c):
        d = _d(c, "data")
        w, h = SP.gif_size(d)
        return z3.Implies(z3.And(typ(c, "gif"), SP.gif_declares(d)), result_is(c, w, h, False))

    def g_bmp(c):
        d = _d(c, "data")
        w, h = SP.bmp_size(d)
        return z3.Implies(z3.And(typ(c, "bmp"), SP.bmp_declares(d), w > 0), result_is(c, w, SP.zabs(h), False))

    def g_jpeg(c):
        j = jp(c)
        w, h = j.size()
        return z3.Implies(z3.And(typ(c, "jpeg", "jpg"), j.declares()), result_is(c, w, h, False))

    def g_other(c):
        return z3.Implies(z3.Not(typ(c, "png", "gif", "bmp", "jpeg", "jpg")), result_is_none(c))

    gi = FnContract(
        target=f"{IMGU}::get_image_dimensions",
        params=[("data", p_symbytes()), ("image_type", p_str())],
        hyps=lambda c: jp(c).defn(z3.IntVal(2)),      # definitional instance of the chain at its start
        ensures=[("png-ihdr", g_png), ("gif-screen", g_gif), ("bmp-infoheader", g_bmp), ("jpeg-first-sof", g_jpeg),
                 ("unknown-type-no-size", g_other)],
        raises=[],
        note="size declared by the file for the type the caller names",
    )

    return [gj, gi]


# =====================================================================================
# (a) target resolution: resolver functions
# =====================================================================================
def resolver_contract():
    """zip_utils.resolve_part_name(base_dir, target) == RESOLVE(base_dir, target), for all strings (unbounded)."""
    def inv(lc):
        ex = lc.ex
        parts = ex.zterm(lc.st, lc["parts"])
        resolved = ex.zterm(lc.st, lc["resolved"])
        if parts is None or resolved is None:
            return z3.BoolVal(False)
        lc.st.assume(SP.fold_defn(parts, lc.i))      # definition of the spec fold at the current prefix
        return resolved == SP.FOLD(z3.SubSeq(parts, 0, lc.i))

    return FnContract(
        target=f"{ZIPU}::resolve_part_name",
        params=[("base_dir", p_str()), ("target", p_str())],
        returns=lambda c: VStr(SP.RESOLVE(c.args["base_dir"].t, c.args["target"].t)),
        raises=[],
        loops={0: LoopSpec(inv=inv, label="segment-fold")},
        note="OPC part-name resolution: absolute targets are package-root relative, '..' pops, '.' and empty segments are dropped",
    )


def delegating_resolvers():
    """Format-level resolvers: their result must be RESOLVE(<directory of the source part>, target)."""
    out = []
    out.append(FnContract(
        target=f"{PPTX}::_normalize_relative_path",
        params=[("base_dir", p_str()), ("target", p_str())],
        returns=lambda c: VStr(SP.RESOLVE(c.args["base_dir"].t, c.args["target"].t)),
        raises=[], note="pptx: relationship target against the slide directory"))
    out.append(FnContract(
        target=f"{XLSX}::_resolve_drawing_path",
        params=[("target", p_str())],
        returns=lambda c: VStr(SP.RESOLVE(z3.StringVal("xl/worksheets"), c.args["target"].t)),
        raises=[], note="xlsx: sheet -> drawing relationship target; the source part is xl/worksheets/sheetN.xml"))
    return out


# =====================================================================================
# (a) target resolution: read sites (program slices of the real statements)
# =====================================================================================
ODT = EX + "open_office/odt_extractor.py"
ODP = EX + "open_office/odp_extractor.py"
ODS = EX + "open_office/ods_extractor.py"
ODG = EX + "open_office/odg_extractor.py"
HREF_KEYS = ("_ATTR_XLINK_HREF", "href")

# base: how the spec obtains the directory of the part that holds the reference
SITES = [
    dict(rel=PPTX, fn="_process_slide_from_context", sinks=("get_image_data",), keys=("target",), base=("dirname", "slide_path"), label="slide-image",
         why="source part = the slide part `slide_path`"),
    dict(rel=DOCX, fn="_extract_images_from_context", sinks=("get_image_data",), keys=("target",), base=("const", "word"), label="document-image",
         why="source part = word/document.xml"),
    dict(rel=XLSX, fn="_extract_images_from_zip", sinks=("read_bytes",), keys=("target",), base=("dirname", "drawing_path"), label="drawing-image",
         why="source part = the drawing part `drawing_path`"),
    dict(rel=EPUB, fn="_extract_images", sinks=("read_bytes",), keys=("href",), base=("field", "ctx", "_opf_dir"), label="manifest-image",
         why="source part = the OPF package document", makers={"ctx": ("obj", "_EpubContext", ("_opf_dir",))}),
    dict(rel=ODT, fn="_extract_images_from_context", sinks=("read_bytes",), keys=HREF_KEYS, base=("const", ""), label="frame-image",
         why="ODF: package-relative IRI resolved against the package root"),
    dict(rel=ODP, fn="_extract_image", sinks=("read_bytes",), keys=HREF_KEYS, base=("const", ""), label="frame-image", why="ODF root"),
    dict(rel=ODS, fn="_extract_images", sinks=("read_bytes",), keys=HREF_KEYS, base=("const", ""), label="frame-image", why="ODF root"),
    dict(rel=ODG, fn="_extract_images", sinks=("read_bytes",), keys=HREF_KEYS, base=("const", ""), label="frame-image", why="ODF root"),
]


def _unvalidated_to_unknown(o):
    """A solver model of a VC over uninterpreted spec functions (SEGS / FOLD / JOINS / jpeg chain) is not a refutation
    (DESIGN 2.5.3b): the obligation stays open and goes to the native small-scope search (REPLAY_UNKNOWN)."""
    if o["status"] == "refuted":
        o["status"] = "unknown"
        o["reason"] = ("solver model not validated against the real functions; " + (o.get("reason") or "")).strip("; ")
    return o


def post_report(c, rep):
    rep.obligations = [_unvalidated_to_unknown(o) for o in rep.obligations]


def run_site(site, repo, reg=None, uni=None):
    from pyvc import verify
    from pyvc.contracts import Registry
    from pyvc.exctypes import Universe
    from pyvc.verify import p_obj
    from contracts import c14_flow as F
    rel, fname = site["rel"], site["fn"]
    short = rel.split("/")[-1]
    mod = loader.module(rel, repo)
    fn = mod.functions.get(fname)
    base_id = f"C14/{short}::{fname}/resolution#{site['label']}"
    if fn is None:
        return {"obligations": [], "functions": [], "undecided": [{"obligation": f"{rel}::{fname}", "why": "contract-target-missing"}]}
    if reg is None:
        reg = Registry()
        for c in contracts(reg):
            reg.add(c)
        uni = Universe(repo)
    sinks = F.method_calls(fn, site["sinks"])
    obls = []
    if not sinks:
        obls.append(ground_obligation(base_id, False, f"no {site['sinks']} call found: shape not recognised", rel, kind="resolution", definite=False))
    keys = site["keys"]
    for k, call in enumerate(sinks):
        oid = f"{base_id}-{k}" if len(sinks) > 1 else base_id
        extra = [site["base"][1]] if site["base"][0] in ("dirname", "field") else []
        f, sl = F.build_slice_function(fn, call.args[0], call, lambda e: F.is_lookup_of(e, keys), extra_params=extra, extra_sources=extra)
        if f is None:
            obls.append(ground_obligation(oid, False, f"slice not computable: {sl.why}", rel, kind="resolution", definite=False))
            continue
        if "__target" not in sl.sources:
            obls.append(ground_obligation(oid, False, "the name read does not depend on a relationship target / href", rel, kind="resolution", definite=False))
            continue
        makers = site.get("makers", {})
        params = []
        for a in f.args.args:
            m = makers.get(a.arg)
            if m is not None and m[0] == "obj":
                params.append((a.arg, p_obj(m[1], {fld: p_str() for fld in m[2]})))
            else:
                params.append((a.arg, p_str()))
        b = site["base"]

        def returns(c, b=b):
            t = c.args["__target"].t
            if b[0] == "const":
                base = z3.StringVal(b[1])
            elif b[0] == "dirname":
                base = SP.DIRNAME(c.args[b[1]].t)
            else:
                base = c.entry.obj(c.args[b[1]].ref).data[b[2]].t
            return VStr(SP.RESOLVE(base, t))
        c = FnContract(target=f"{rel}::{fname}", params=params, returns=returns, raises=[Raises("Exception", sub=True)])
        ex = C14Executor(mod, reg, uni)
        ex.contract = c
        ex.oid_prefix = "slice"
        try:
            got, _cov = verify.generate(ex, c, mod, f)
        except Exception as e:  # noqa  (Unsupported, PathLimit: the slice left the subset -> undecided)
            obls.append(ground_obligation(oid, False, f"slice not executable: {type(e).__name__}: {e}", rel, kind="resolution", definite=False))
            continue
        ob = got.get("slice/returns")
        if ob is None:
            obls.append(ground_obligation(oid, False, "slice has no normal outcome", rel, kind="resolution", definite=False))
            continue
        d = verify.discharge(ob, None, getattr(ex, "witness_terms", {}))
        d = _unvalidated_to_unknown(d)
        d.update(id=oid, kind="resolution", loc=f"{rel}:{call.lineno}", function=f"{rel}::{fname}",
                 replay_hint={"site": site["label"], "slice": ast.unparse(f), "base": list(b)})
        obls.append(d)
    return {"obligations": obls, "functions": [dict(mod.fn_info(fname), obligations=len(obls))]}


def _site_runner(i):
    def run(repo, tier):
        return run_site(SITES[i], repo)
    run.__name__ = f"site_{SITES[i]['rel'].split('/')[-1].split('.')[0]}_{SITES[i]['fn']}"
    return run


EXTRA = [_site_runner(i) for i in range(len(SITES))]


def contracts(reg):
    X.install_models(reg)
    out = [resolver_contract()] + delegating_resolvers()
    for rel in (DOCX, PPTX, XLSX):
        out.append(sniffer_contract(rel))
    out.extend(image_utils_contracts())
    return out


def lemmas():
    """JPEG tail lemma by induction on N - o: a frame header needs 10 bytes."""
    D = z3.Array("L.D", z3.IntSort(), z3.IntSort())
    N = z3.Int("L.len")
    d = SP.Data(D, N)
    j = SP.Jpeg(d)
    o = z3.Int("o")
    L = d.u(o + 2, 2)

    def ih(x):
        return z3.Implies(z3.And(x >= 0, x + 10 > N), j.KIND(x) == SP.OTHER)
    return [("C14/image_utils.py::jpeg-chain/lemma#no-frame-header-in-the-last-9-bytes",
             [N >= 0, X.byte_range(D), o >= 0, j.defn(o), ih(o + 1), ih(o + 2 + L)], ih(o))]


TRUSTED = ["zipfile member reads (ZipFile.read returns the stored member)", "pypdf image decoding", "mimetypes.guess_type (ODF content types)"]
ASSUMED_MODELS = ["str.split('/') = SEGS, '/'.join = JOINS (uninterpreted; replay validates the executable twin against CPython)",
                  "int.from_bytes / struct.unpack on (clamped) slices", "bytes.startswith / == on byte strings"]
ASSUMPTIONS = ["JPEG: a stream that leaves the T.81 marker chain before a frame header (non-FF byte at a marker position, standalone marker, "
               "EOI/SOS first, truncated frame header) declares no size in the sense of the statement: result unconstrained there",
               "BMP: signed little-endian width / height at 18 / 22 as in the property's format clause (BITMAPINFOHEADER family)"]
BOUNDED = []
