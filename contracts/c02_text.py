"""C02 text abstractions: whitespace-erasing homomorphism `nw` and whitespace-collapsing `sq`.

The property speaks about text *modulo whitespace* in two strengths:

* `nw` -- the monoid homomorphism String -> String that erases every whitespace
  character.  `nw(result) == nw(piece_1) + ... + nw(piece_n)` says that nothing is
  lost, duplicated, reordered or invented, without fixing padding / separators.
* `sq` -- the homomorphism into the monoid M of whitespace-collapsed strings
  (every maximal whitespace run becomes one blank; product = concatenation followed
  by collapsing the seam).  It additionally observes *that* two pieces are separated
  ("paragraph, cell, line-break and tab boundaries are whitespace").  Elements of M
  are carried by z3 Strings in *D-form*: the plain concatenation of the images of the
  atoms, adjacent literals merged with seam collapse.  Equal D-forms imply equal
  elements of M (collapse is a function of the D-form), so proving D-form equality is
  sound; it is finer than equality in M, i.e. possibly incomplete, never unsound.

Both are *uninterpreted* on atoms (`nw!(x)`, `sq!(x)`); the homomorphism law is applied
structurally (every instance `h(a+b) = h(a)+h(b)` is an instance of the law), literals are
evaluated with Python's own whitespace class, and the library functions that only move
whitespace are erased:  strip/lstrip/rstrip, ljust/rjust, `_RE_WS.sub(" ", .)`.
Assumption WS-CLASS: str.strip, str.split, `\\s` and str.isspace agree on what whitespace is.
"""
from __future__ import annotations

import re

import z3

S, I, B = z3.StringSort(), z3.IntSort(), z3.BoolSort()

# uninterpreted library functions on strings (shared by code models and specs)
STRIP = z3.Function("str_strip", S, S)
LSTRIP = z3.Function("str_lstrip", S, S)
RSTRIP = z3.Function("str_rstrip", S, S)
RJUST = z3.Function("str_rjust", S, I, S)
LJUST = z3.Function("str_ljust", S, I, S)
WSSUB = z3.Function("re_ws_sub_blank", S, S)          # re.sub(r"\s+", " ", x)
REP = z3.Function("str_repeat", S, I, S)              # x * n for n > 0
INT_OK = z3.Function("int_parses", S, B)              # int(x) does not raise ValueError
INT_VAL = z3.Function("int_value", S, I)              # its value
STR_OF = z3.Function("str_of_int", I, S)

NWF = z3.Function("nw!", S, S)
SQF = z3.Function("sq!", S, S)
SQTRIM = z3.Function("sq_trim", S, S)                 # M -> M: drop one leading / trailing blank (image of strip)

_WS_ERASED = {"str_strip", "str_lstrip", "str_rstrip", "str_rjust", "str_ljust", "re_ws_sub_blank"}


def lit(s: str):
    return z3.StringVal(s)


def is_lit(t):
    return z3.is_string_value(t)


def is_ws_literal(t):
    return is_lit(t) and t.as_string() != "" and py_str(t).strip() == ""


def py_str(t) -> str:
    """Python value of a z3 string literal (z3 escapes non-ASCII / control characters as \\u{..})."""
    s = t.as_string()
    return re.sub(r"\\u\{([0-9a-fA-F]+)\}", lambda m: chr(int(m.group(1), 16)), s)


def _concat(parts):
    parts = [p for p in parts if not (is_lit(p) and p.as_string() == "")]
    if not parts:
        return lit("")
    if len(parts) == 1:
        return parts[0]
    return z3.Concat(*parts)


def _flat(t):
    if z3.is_app_of(t, z3.Z3_OP_SEQ_CONCAT):
        out = []
        for c in t.children():
            out.extend(_flat(c))
        return out
    return [t]


def nw_lit(s: str) -> str:
    return "".join(ch for ch in s if not ch.isspace())


def sq_lit(s: str) -> str:
    return re.sub(r"\s+", " ", s)


_NW_CACHE: dict = {}
_SQ_CACHE: dict = {}


def NW(t):
    """nw(t), pushed through the structure of t."""
    k = t.get_id()
    r = _NW_CACHE.get(k)
    if r is not None:
        return r[1]
    if is_lit(t):
        r = lit(nw_lit(py_str(t)))
    elif z3.is_app_of(t, z3.Z3_OP_SEQ_CONCAT):
        parts, buf = [], []
        for c in _flat(t):
            x = NW(c)
            if is_lit(x):
                buf.append(py_str(x))
            else:
                if buf:
                    parts.append(lit("".join(buf)))
                    buf = []
                parts.append(x)
        if buf:
            parts.append(lit("".join(buf)))
        r = _concat(parts)
    elif z3.is_app_of(t, z3.Z3_OP_ITE):
        c, a, b = t.children()
        r = z3.If(c, NW(a), NW(b))
    elif z3.is_app(t) and t.decl().kind() == z3.Z3_OP_UNINTERPRETED and t.decl().name() in _WS_ERASED:
        r = NW(t.arg(0))
    elif z3.is_app(t) and t.decl().kind() == z3.Z3_OP_UNINTERPRETED and t.decl().name() == "str_repeat" \
            and is_lit(t.arg(0)) and py_str(t.arg(0)).strip() == "":
        r = lit("")                               # whitespace * n
    elif z3.is_app(t) and t.decl().kind() == z3.Z3_OP_UNINTERPRETED and t.decl().name() == "nw!":
        r = t                                     # idempotent
    else:
        r = NWF(t)
    _NW_CACHE[k] = (t, r)
    return r


def _merge_sq(parts):
    """Adjacent literals merged with seam collapse (valid in M)."""
    out = []
    for p in parts:
        if is_lit(p) and p.as_string() == "":
            continue
        if out and is_lit(p) and is_lit(out[-1]):
            out[-1] = lit(sq_lit(py_str(out[-1]) + py_str(p)))
        else:
            out.append(p)
    return out


def SQ(t):
    """D-form of sq(t)."""
    k = t.get_id()
    r = _SQ_CACHE.get(k)
    if r is not None:
        return r[1]
    if is_lit(t):
        r = lit(sq_lit(py_str(t)))
    elif z3.is_app_of(t, z3.Z3_OP_SEQ_CONCAT):
        parts = []
        for c in _flat(t):
            parts.extend(_flat(SQ(c)))
        r = _concat(_merge_sq(parts))
    elif z3.is_app_of(t, z3.Z3_OP_ITE):
        c, a, b = t.children()
        r = z3.If(c, SQ(a), SQ(b))
    elif z3.is_app(t) and t.decl().kind() == z3.Z3_OP_UNINTERPRETED and t.decl().name() == "re_ws_sub_blank":
        r = SQ(t.arg(0))                          # collapsing is the identity on M
    elif z3.is_app(t) and t.decl().kind() == z3.Z3_OP_UNINTERPRETED and t.decl().name() == "str_strip":
        r = SQTRIM(SQ(t.arg(0)))
    elif z3.is_app(t) and t.decl().kind() == z3.Z3_OP_UNINTERPRETED and t.decl().name() == "str_repeat" \
            and is_lit(t.arg(0)) and py_str(t.arg(0)).strip() == "" and py_str(t.arg(0)) != "":
        r = lit(" ")                              # (whitespace * n), n > 0  (REP is only built for n > 0)
    elif z3.is_app(t) and t.decl().kind() == z3.Z3_OP_UNINTERPRETED and t.decl().name() == "sq!":
        r = t
    else:
        r = SQF(t)
    _SQ_CACHE[k] = (t, r)
    return r


def trim(m):
    """Outer strip on M (idempotent)."""
    if z3.is_app(m) and m.decl().kind() == z3.Z3_OP_UNINTERPRETED and m.decl().name() == "sq_trim":
        return m
    if is_lit(m):
        return lit(py_str(m).strip(" "))
    return SQTRIM(m)


def blank(x):
    """x consists of whitespace only (possibly empty)  <=>  nw(x) == ''."""
    return NW(x) == lit("")


def strip_facts(x):
    """Instances of the laws tying strip/truthiness to nw, for a term x whose strip() the code inspects."""
    return [(z3.Length(STRIP(x)) == 0) == (NW(x) == lit("")),
            z3.Implies(NW(x) == lit(""), z3.Or(SQ(x) == lit(""), SQ(x) == lit(" ")))]


GLOBAL_AXIOMS = [
    INT_OK(lit("1")), INT_VAL(lit("1")) == 1,
    NWF(lit("")) == lit(""), SQF(lit("")) == lit(""), SQTRIM(lit("")) == lit(""),
]
