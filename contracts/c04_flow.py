"""C04: per-site obligations decided on the AST of the real source (whole parsing package).

* image-constructor call sites: class invariant `size_bytes == len(payload)` and `image number >= 1`;
* stores to payload / size / number fields after construction;
* UTF-8 well-formedness wf(s) (no code point in D800-DFFF) at every own-code source of characters:
  `chr(n)` sites (integer range of n on the path, small SMT query), `bytes.decode` / `str(b, enc)` sites
  (codec and error handler), string literals.
Site ids are ordinals within the enclosing function (stable under line shifts).  A shape that is not
recognised is `unknown` (UNDECIDED, then searched natively by replay/C04.py), never a violation by itself.
"""
from __future__ import annotations

import ast

import z3

from pyvc import loader
from pyvc.flow import dotted, ground_obligation

from contracts import c04_regex as R

EX = "sharepoint2text/parsing/extractors/"
DT = EX + "data_types.py"
PAYLOAD_FIELDS = ("data", "blob")
SIZE_FIELD = "size_bytes"
NUMBER_FIELDS = ("image_index", "image_number", "index")
STORED_NUMBER_FIELDS = set()      # number fields of unit / page classes (filled by unit_number_sites): a copy of one is covered by its own site
SUR_LO, SUR_HI = 0xD800, 0xDFFF


# ------------------------------------------------------------------ helpers --
def modules(repo):
    out = {}
    for f in loader.all_package_files(repo):
        if "/sharepoint_io/" in f:
            continue
        out[f] = loader.module(f, repo)
    return out


class Index:
    """Per module: parent links, enclosing function of every node, ordinals."""

    def __init__(self, mod):
        self.mod = mod
        self.parent = {}
        for n in ast.walk(mod.tree):
            for ch in ast.iter_child_nodes(n):
                self.parent[id(ch)] = n
        self.fn_of = {}
        by_node = {id(fn): q for q, fn in mod.functions.items()}
        self._by_node = by_node

    def enclosing(self, node):
        """(qualname, fnode) of the innermost def containing node ('<module>', tree for module level)."""
        p = self.parent.get(id(node))
        while p is not None:
            if isinstance(p, (ast.FunctionDef, ast.AsyncFunctionDef)) and id(p) in self._by_node:
                return self._by_node[id(p)], p
            p = self.parent.get(id(p))
        return "<module>", self.mod.tree

    def ancestors(self, node):
        p = self.parent.get(id(node))
        while p is not None:
            yield p
            p = self.parent.get(id(p))

    def stmt_of(self, node):
        n = node
        while n is not None and not isinstance(n, ast.stmt):
            n = self.parent.get(id(n))
        return n


def own_walk(fnode):
    """Nodes of a function excluding nested def bodies (lambdas included)."""
    stack = list(ast.iter_child_nodes(fnode))
    while stack:
        n = stack.pop()
        yield n
        if isinstance(n, (ast.FunctionDef, ast.AsyncFunctionDef, ast.ClassDef)):
            continue
        stack.extend(ast.iter_child_nodes(n))


def ordered(nodes):
    return sorted(nodes, key=lambda n: (n.lineno, n.col_offset))


def short(rel):
    return rel.split("/")[-1]


def call_kwargs(call, field_order):
    """{field: expr} of a dataclass constructor call (positional arguments mapped by field order)."""
    out = {}
    for f, a in zip(field_order, call.args):
        out[f] = a
    for k in call.keywords:
        if k.arg is not None:
            out[k.arg] = k.value
    return out


def dataclass_fields(dt, cls):
    """[(field, default expr | None)] including dataclass bases, in constructor order."""
    node = dt.classes.get(cls)
    if node is None:
        return []
    out = []
    for b in node.bases:
        bn = ast.unparse(b).split(".")[-1]
        if bn in dt.classes and bn != cls and any("dataclass" in ast.unparse(d) for d in dt.classes[bn].decorator_list):
            out.extend(dataclass_fields(dt, bn))
    for b in node.body:
        if isinstance(b, ast.AnnAssign) and isinstance(b.target, ast.Name) and "ClassVar" not in ast.unparse(b.annotation):
            out.append((b.target.id, b.value))
    return out


def image_classes(dt):
    return [n for n, c in dt.classes.items() if "ImageInterface" in [ast.unparse(b).split(".")[-1] for b in c.bases]]


def single_defs(fnode, name):
    """All binding sites of local `name` in fnode: list of ('assign', value) | ('aug', op, value) | ('for', iter, pos) | ('param',)
    | ('other', node)."""
    out = []
    if isinstance(fnode, (ast.FunctionDef, ast.AsyncFunctionDef)):
        a = fnode.args
        if name in [x.arg for x in a.posonlyargs + a.args + a.kwonlyargs] or (a.vararg and a.vararg.arg == name) or (a.kwarg and a.kwarg.arg == name):
            out.append(("param",))
    for n in own_walk(fnode):
        if isinstance(n, ast.Assign):
            for t in n.targets:
                if isinstance(t, ast.Name) and t.id == name:
                    out.append(("assign", n.value, n))
                elif isinstance(t, (ast.Tuple, ast.List)):
                    for i, e in enumerate(t.elts):
                        if isinstance(e, ast.Name) and e.id == name:
                            out.append(("unpack", n.value, i, n))
        elif isinstance(n, ast.AnnAssign) and isinstance(n.target, ast.Name) and n.target.id == name and n.value is not None:
            out.append(("assign", n.value, n))
        elif isinstance(n, ast.AugAssign) and isinstance(n.target, ast.Name) and n.target.id == name:
            out.append(("aug", n.op, n.value, n))
        elif isinstance(n, (ast.For, ast.comprehension)):
            tgt = n.target
            if isinstance(tgt, ast.Name) and tgt.id == name:
                out.append(("for", n.iter, None, n))
            elif isinstance(tgt, (ast.Tuple, ast.List)):
                for i, e in enumerate(tgt.elts):
                    if isinstance(e, ast.Name) and e.id == name:
                        out.append(("for", n.iter, i, n))
        elif isinstance(n, ast.NamedExpr) and n.target.id == name:
            out.append(("assign", n.value, n))
        elif isinstance(n, (ast.With,)):
            for it in n.items:
                if isinstance(it.optional_vars, ast.Name) and it.optional_vars.id == name:
                    out.append(("other", n))
        elif isinstance(n, ast.ExceptHandler) and n.name == name:
            out.append(("other", n))
        elif isinstance(n, ast.Lambda):
            if name in [x.arg for x in n.args.args]:
                out.append(("lambda-param", n))
    return out


def enclosing_loop_def(ix, node, name, fnode):
    """The innermost enclosing `for` whose target binds `name` (and whose body does not rebind it): ('for', iter, pos, loop)."""
    cur = node
    for a in ix.ancestors(node):
        if isinstance(a, ast.For) and _within(cur, a.body):
            tgt = a.target
            pos = None
            hit = isinstance(tgt, ast.Name) and tgt.id == name
            if isinstance(tgt, (ast.Tuple, ast.List)):
                for i, e in enumerate(tgt.elts):
                    if isinstance(e, ast.Name) and e.id == name:
                        hit, pos = True, i
            if hit:
                rebound = any(isinstance(n, ast.Name) and n.id == name and isinstance(n.ctx, ast.Store) for s_ in a.body for n in ast.walk(s_))
                return None if rebound else ("for", a.iter, pos, a)
        if a is fnode:
            break
        cur = a
    return None


def _enumerate_start(it):
    """start value of enumerate(...) (int) or None."""
    if not (isinstance(it, ast.Call) and dotted(it.func) == "enumerate"):
        return None
    start = it.args[1] if len(it.args) > 1 else next((k.value for k in it.keywords if k.arg == "start"), None)
    if start is None:
        return 0
    if isinstance(start, ast.Constant) and isinstance(start.value, int):
        return start.value
    return None


# ------------------------------------------------ image constructor sites --
LEN = z3.Function("len", z3.DeclareSort("PyVal"), z3.IntSort())
PYVAL = LEN.domain(0)


class SiteTerms:
    """Translation of the (pure) argument expressions of one call into z3 terms: equal source text = equal value
    (arguments of one call are evaluated without intervening assignments); names bound by exactly one plain
    assignment in the function are replaced by their defining expression."""

    def __init__(self, fnode):
        self.fnode = fnode
        self.exact = True
        self.atoms = {}

    def resolve(self, e, depth=0):
        if isinstance(e, ast.Name) and depth < 3 and self.fnode is not None:
            defs = single_defs(self.fnode, e.id)
            if len(defs) == 1 and defs[0][0] == "assign":
                return self.resolve(defs[0][1], depth + 1)
        return e

    def val(self, e):
        e = self.resolve(e)
        if isinstance(e, ast.Call) and dotted(e.func) in ("io.BytesIO", "BytesIO") and len(e.args) == 1 and not e.keywords:
            return self.val(e.args[0])            # payload of a BytesIO built over X is X
        key = ast.dump(e)
        if not isinstance(e, (ast.Name, ast.Attribute, ast.Constant, ast.Subscript)):
            self.exact = False
        if key not in self.atoms:
            self.atoms[key] = z3.Const(f"v{len(self.atoms)}", PYVAL)
        return self.atoms[key]

    def integer(self, e):
        e = self.resolve(e)
        if isinstance(e, ast.Constant) and isinstance(e.value, int) and not isinstance(e.value, bool):
            return z3.IntVal(e.value)
        if isinstance(e, ast.Call) and isinstance(e.func, ast.Name) and e.func.id == "len" and len(e.args) == 1:
            return LEN(self.val(e.args[0]))
        if isinstance(e, ast.BinOp) and isinstance(e.op, (ast.Add, ast.Sub)):
            l, r = self.integer(e.left), self.integer(e.right)
            return l + r if isinstance(e.op, ast.Add) else l - r
        self.exact = False
        key = "int:" + ast.dump(e)
        if key not in self.atoms:
            self.atoms[key] = z3.Int(f"n{len(self.atoms)}")
        return self.atoms[key]


def _is_empty_payload(e):
    return e is None or (isinstance(e, ast.Constant) and e.value in (None, b""))


def image_constructor_sites(repo, tier):
    dt = loader.module(DT, repo)
    classes = image_classes(dt)
    obls, fns = [], []
    n_sites = 0
    n_none = 0
    for rel, mod in modules(repo).items():
        ix = Index(mod)
        per_fn = {}
        for n in ast.walk(mod.tree):
            if isinstance(n, ast.Call) and dotted(n.func).split(".")[-1] in classes:
                q, fnode = ix.enclosing(n)
                per_fn.setdefault((q, dotted(n.func).split(".")[-1]), []).append((n, fnode))
        for (q, cls), sites in sorted(per_fn.items()):
            fields = dataclass_fields(dt, cls)
            names = [f for f, _d in fields]
            defaults = dict(fields)
            pf = next((f for f in PAYLOAD_FIELDS if f in names), None)
            nf = next((f for f in NUMBER_FIELDS if f in names), None)
            for k, call in enumerate(ordered([c for c, _f in sites])):
                fnode = dict((id(c), f) for c, f in sites)[id(call)]
                n_sites += 1
                kw = call_kwargs(call, names)
                star = [k_ for k_ in call.keywords if k_.arg is None]
                expanded = True
                for k_ in star:
                    lit = None
                    if isinstance(k_.value, ast.Name) and isinstance(fnode, (ast.FunctionDef, ast.AsyncFunctionDef)):
                        defs = single_defs(fnode, k_.value.id)
                        if len(defs) == 1 and defs[0][0] == "assign":
                            lit = defs[0][1]
                        # later item stores kwargs["k"] = v are not followed
                        if any(isinstance(n, ast.Subscript) and isinstance(n.value, ast.Name) and n.value.id == k_.value.id and isinstance(n.ctx, ast.Store)
                               for n in own_walk(fnode)) or any(isinstance(n, ast.Call) and isinstance(n.func, ast.Attribute) and isinstance(n.func.value, ast.Name)
                                                                and n.func.value.id == k_.value.id and n.func.attr in ("update", "setdefault", "pop") for n in own_walk(fnode)):
                            lit = None
                    elif isinstance(k_.value, (ast.Dict, ast.Call)):
                        lit = k_.value
                    if isinstance(lit, ast.Dict) and all(isinstance(x, ast.Constant) and isinstance(x.value, str) for x in lit.keys):
                        kw.update({x.value: v for x, v in zip(lit.keys, lit.values)})
                    elif isinstance(lit, ast.Call) and dotted(lit.func) == "dict" and not lit.args and all(x.arg for x in lit.keywords):
                        kw.update({x.arg: x.value for x in lit.keywords})
                    else:
                        expanded = False
                if star and not expanded:
                    obls.append(ground_obligation(f"C04/{short(rel)}::{q}/call-pre#{cls}-invariants@{k}", False,
                                                  f"{rel}:{call.lineno} **kwargs constructor call", rel, definite=False))
                    continue
                # ---- size_bytes == len(payload)
                if SIZE_FIELD in names and pf is not None:
                    oid = f"C04/{short(rel)}::{q}/call-pre#{cls}-size_bytes-is-len-of-payload@{k}"
                    p_e, z_e = kw.get(pf, defaults.get(pf)), kw.get(SIZE_FIELD, defaults.get(SIZE_FIELD))
                    obls.append(_size_obligation(oid, rel, call, fnode, cls, pf, p_e, z_e, pf in kw, SIZE_FIELD in kw))
                # ---- declared types at the constructor (DT-TYPED is what the accessor contracts assume): no recognised source of
                # None may reach a field declared int / str / bytes
                anns = _field_annotations(dt, cls)
                for f_, e_ in sorted(kw.items()):
                    if anns.get(f_) in ("int", "str", "bytes", "float", "bool") and isinstance(fnode, (ast.FunctionDef, ast.AsyncFunctionDef)):
                        why = may_be_none(mod, fnode, e_, 0, ix, ix.stmt_of(call))
                        if why:
                            o = ground_obligation(f"C04/{short(rel)}::{q}/call-pre#{cls}-{f_}-not-from-a-None-source@{k}", False,
                                                  f"{rel}:{call.lineno} {cls}({f_}={ast.unparse(e_)[:40]}): the field is declared {anns[f_]} but {why}; the accessors "
                                                  f"compare / strip it without a None test", rel, definite=False)
                            o["replay_hint"] = {"kind": "image-type", "class": cls}
                            obls.append(o)
                            n_none += 1
                # ---- image number >= 1
                if nf is not None:
                    oid = f"C04/{short(rel)}::{q}/call-pre#{cls}-{nf}-positive@{k}"
                    obls.append(_number_obligation(oid, rel, mod, ix, call, fnode, cls, nf, kw.get(nf), defaults.get(nf), nf in kw))
    # ---- indirect construction: an image class used as a value (alias, functools.partial, factory argument) would build
    # images outside the call sites above
    n_val = 0
    for rel, mod in modules(repo).items():
        ix = Index(mod)
        per_fn = {}
        for n in ast.walk(mod.tree):
            if isinstance(n, ast.Name) and n.id in classes and isinstance(n.ctx, ast.Load) and _is_value_use(ix, n):
                q, _f = ix.enclosing(n)
                per_fn.setdefault(q, []).append(n)
        for q, nodes in sorted(per_fn.items()):
            for k, n in enumerate(ordered(nodes)):
                n_val += 1
                o = ground_obligation(f"C04/{short(rel)}::{q}/call-pre#{n.id}-class-used-as-a-value@{k}", False,
                                      f"{rel}:{n.lineno} the image class {n.id} is passed around as a value: objects may be built at a call "
                                      f"site that is not checked for size_bytes == len(payload) / number >= 1", rel, definite=False)
                o["replay_hint"] = {"kind": "image-size", "class": n.id}
                obls.append(o)
    obls.append(ground_obligation("C04/package/call-pre#image-constructor-sites-scanned", n_sites >= 20,
                                  f"{n_sites} image constructor call sites in the parsing package", "package"))
    return {"obligations": obls, "functions": fns}


def _field_annotations(dt, cls):
    out = {}
    node = dt.classes.get(cls)
    if node is None:
        return out
    for b in node.bases:
        bn = ast.unparse(b).split(".")[-1]
        if bn in dt.classes and bn != cls:
            out.update(_field_annotations(dt, bn))
    for b in node.body:
        if isinstance(b, ast.AnnAssign) and isinstance(b.target, ast.Name):
            out[b.target.id] = ast.unparse(b.annotation)
    return out


def may_be_none(mod, fnode, e, depth=0, ix=None, at=None):
    """Reason why expression e can be None according to the recognised sources (None constant, a package function whose return
    annotation / return statements include None at that position, dict.get without default), '' otherwise.  A name that the
    function tests against None / falsiness or re-binds with `or <default>` is considered handled."""
    if depth > 4 or e is None:
        return ""
    if isinstance(e, ast.Constant):
        return "it is the constant None" if e.value is None else ""
    if isinstance(e, ast.IfExp):
        return may_be_none(mod, fnode, e.body, depth + 1) or may_be_none(mod, fnode, e.orelse, depth + 1)
    if isinstance(e, ast.BoolOp) and isinstance(e.op, ast.Or):
        return may_be_none(mod, fnode, e.values[-1], depth + 1)
    if isinstance(e, ast.Call):
        if isinstance(e.func, ast.Attribute) and e.func.attr == "get" and len(e.args) == 1 and not e.keywords:
            return f"{ast.unparse(e)[:30]} is None for a missing key"
        if isinstance(e.func, ast.Attribute) and e.func.attr == "get" and len(e.args) == 2 and not e.keywords:
            w = may_be_none(mod, fnode, e.args[1], depth + 1, ix, at)       # the default of a lookup is what a missing key yields
            return f"the default of {ast.unparse(e)[:40]} may be None: {w}" if w else ""
        if isinstance(e.func, ast.Name) and e.func.id == "getattr" and len(e.args) == 3:
            w = may_be_none(mod, fnode, e.args[2], depth + 1, ix, at)
            return f"the default of {ast.unparse(e)[:40]} may be None: {w}" if w else ""
        return _call_none(mod, e, None, depth)
    if isinstance(e, ast.Subscript) and isinstance(e.value, ast.Call) and isinstance(e.slice, ast.Constant) and isinstance(e.slice.value, int):
        return _call_none(mod, e.value, e.slice.value, depth)               # f(...)[i]: position i of the returned tuple
    if isinstance(e, ast.Name):
        for n in own_walk(fnode):
            if isinstance(n, ast.Compare) and isinstance(n.left, ast.Name) and n.left.id == e.id and any(isinstance(o, (ast.Is, ast.IsNot)) for o in n.ops):
                return ""
            if isinstance(n, ast.UnaryOp) and isinstance(n.op, ast.Not) and isinstance(n.operand, ast.Name) and n.operand.id == e.id:
                return ""
            if isinstance(n, (ast.If, ast.IfExp, ast.While)) and isinstance(n.test, ast.Name) and n.test.id == e.id:
                return ""
            if isinstance(n, ast.BoolOp) and any(isinstance(v, ast.Name) and v.id == e.id for v in n.values[:-1]):
                return ""
        defs = single_defs(fnode, e.id)
        if at is not None and ix is not None:
            dom = _dominating_def(ix, fnode, at, e.id)
            if dom is not None:
                defs = [dom]
        for d in defs:
            if d[0] == "assign":
                w = may_be_none(mod, fnode, d[1], depth + 1)
            elif d[0] == "unpack" and isinstance(d[1], ast.Call):
                w = _call_none(mod, d[1], d[2])
            else:
                w = ""
            if w:
                return w
    return ""


def _dominating_def(ix, fnode, stmt, name):
    """The latest unconditional binding of `name` that precedes `stmt` in its block or an enclosing block (as a single_defs
    record), else None."""
    cur = stmt
    while cur is not None and cur is not fnode:
        parent = ix.parent.get(id(cur))
        if parent is None:
            return None
        for fld_ in ("body", "orelse", "finalbody"):
            blk = getattr(parent, fld_, None)
            if isinstance(blk, list) and cur in blk:
                for s_ in reversed(blk[:blk.index(cur)]):
                    if isinstance(s_, ast.Assign) and len(s_.targets) == 1:
                        t = s_.targets[0]
                        if isinstance(t, ast.Name) and t.id == name:
                            return ("assign", s_.value, s_)
                        if isinstance(t, (ast.Tuple, ast.List)):
                            for i, x in enumerate(t.elts):
                                if isinstance(x, ast.Name) and x.id == name:
                                    return ("unpack", s_.value, i, s_)
                    if any(isinstance(n, ast.Name) and n.id == name and isinstance(n.ctx, ast.Store) for n in ast.walk(s_)):
                        return None          # bound conditionally in between: all definitions count
        cur = parent if isinstance(parent, (ast.stmt, ast.ExceptHandler)) else ix.stmt_of(parent)
    return None


# standard-library calls documented to answer None when they do not know ("value" / position of the tuple -> why)
STDLIB_OPTIONAL = {
    "mimetypes.guess_type": ("tuple", "mimetypes.guess_type() answers (None, None) for a name it has no type for"),
    "mimetypes.guess_extension": ("value", "mimetypes.guess_extension() answers None for a type it has no extension for"),
    "shutil.which": ("value", "shutil.which() answers None when the command is not found"),
    "imghdr.what": ("value", "imghdr.what() answers None for an unknown format"),
    "os.environ.get": ("value", "os.environ.get() answers None for an unset variable"),
    "os.getenv": ("value", "os.getenv() answers None for an unset variable"),
}


def _call_none(mod, call, index, depth=0):
    full = dotted(call.func)
    origin = mod.imports.get(full.split(".")[0], "") if full else ""
    std = STDLIB_OPTIONAL.get(full) or STDLIB_OPTIONAL.get(origin + full[len(full.split(".")[0]):] if origin else "")
    if std is not None and full.split(".")[0] not in mod.functions:
        if (std[0] == "tuple") == (index is not None) and not (full.endswith(".get") and len(call.args) > 1) and not (full == "os.getenv" and len(call.args) > 1):
            return std[1]
        return ""
    name = full.split(".")[-1]
    gmod = mod
    g = mod.functions.get(name)
    if g is None:
        cands = [f for q, f in mod.functions.items() if q.split(".")[-1] == name and "<locals>" not in q]
        g = cands[0] if len(cands) == 1 else None
    if g is None and isinstance(call.func, ast.Name):
        # a helper imported from another module of the package: its returns are judged in its own module
        try:
            m2, k = _module_of_import(mod, name, getattr(mod, "repo", None))
        except Exception:  # noqa
            m2, k = None, None
        if m2 is not None and k in m2.functions:
            gmod, g = m2, m2.functions[k]
    if g is None:
        return ""
    ann = g.returns
    if ann is not None:
        if isinstance(ann, ast.Constant) and isinstance(ann.value, str):
            try:
                ann = ast.parse(ann.value, mode="eval").body
            except SyntaxError:
                ann = None
    if ann is not None:
        part = ann
        if index is not None and isinstance(ann, ast.Subscript) and dotted(ann.value).split(".")[-1] in ("tuple", "Tuple") and isinstance(ann.slice, ast.Tuple) \
                and index < len(ann.slice.elts):
            part = ann.slice.elts[index]
        txt = ast.unparse(part)
        if "None" in txt or "Optional" in txt:
            return f"{name}() is annotated to return {txt}" + (f" at position {index}" if index is not None else "")
    for r in [n.value for n in own_walk(g) if isinstance(n, ast.Return) and n.value is not None]:
        v = r.elts[index] if index is not None and isinstance(r, ast.Tuple) and index < len(r.elts) else (r if index is None else None)
        if isinstance(v, ast.Constant) and v.value is None:
            return f"{name}() returns None" + (f" at position {index}" if index is not None else "")
        if v is not None and depth < 3 and isinstance(g, (ast.FunctionDef, ast.AsyncFunctionDef)):
            # a return value built from a recognised source of None (in the helper's own module; bounded depth)
            w = may_be_none(gmod, g, v, depth + 1)
            if w:
                return f"{name}() may return None" + (f" at position {index}" if index is not None else "") + f" ({short(gmod.rel)}:{r.lineno}: {w})"
    return ""


def _is_value_use(ix, name_node):
    """An image class name that is neither called, nor part of an annotation / isinstance / class header / typing construct."""
    p = ix.parent.get(id(name_node))
    if isinstance(p, ast.Call) and p.func is name_node:
        return False
    if isinstance(p, ast.Call) and isinstance(p.func, ast.Name) and p.func.id in ("isinstance", "issubclass", "cast", "TypeVar"):
        return False
    if isinstance(p, ast.Attribute):           # Class.attr (class constants): not construction
        return False
    cur = name_node
    for a in ix.ancestors(name_node):
        if isinstance(a, ast.AnnAssign) and cur is a.annotation:
            return False
        if isinstance(a, ast.arg) or (isinstance(a, (ast.FunctionDef, ast.AsyncFunctionDef)) and cur is a.returns):
            return False
        if isinstance(a, ast.ClassDef) and cur in a.bases:
            return False
        if isinstance(a, ast.Subscript) and dotted(a.value).split(".")[-1] in ("List", "list", "Optional", "Dict", "dict", "Tuple", "tuple", "Iterator",
                                                                                   "Generator", "Sequence", "Iterable", "Union", "Type", "type", "ClassVar"):
            return False
        if isinstance(a, ast.ExceptHandler):
            return False
        if isinstance(a, ast.stmt):
            break
        cur = a
    return True


def _size_obligation(oid, rel, call, fnode, cls, pf, p_e, z_e, p_given, z_given):
    loc = f"{rel}:{call.lineno}"
    T = SiteTerms(fnode if isinstance(fnode, (ast.FunctionDef, ast.AsyncFunctionDef)) else None)
    # copy of another image: data=o.data, size_bytes=o.size_bytes (invariant of the source object)
    if isinstance(p_e, ast.Attribute) and isinstance(z_e, ast.Attribute) and p_e.attr in PAYLOAD_FIELDS and z_e.attr == SIZE_FIELD \
            and ast.dump(p_e.value) == ast.dump(z_e.value):
        return ground_obligation(oid, True, f"{loc} payload and size copied from the same image object (its invariant)", rel)
    if _is_empty_payload(p_e):
        size = T.integer(z_e) if z_e is not None else z3.IntVal(0)
        goal = size == 0
        pc = []
    else:
        payload = T.val(p_e)
        size = T.integer(z_e) if z_e is not None else z3.IntVal(0)
        goal = size == LEN(payload)
        pc = [LEN(payload) >= 0]
    s = z3.Solver()
    s.set("timeout", 5000)
    s.add(*pc)
    s.add(z3.Not(goal))
    r = s.check()
    if r == z3.unsat:
        return ground_obligation(oid, True, f"{loc} size_bytes is len() of the payload expression", rel, backend="z3")
    why = f"{loc} {cls}({pf}={ast.unparse(p_e) if p_e is not None else 'default'}, {SIZE_FIELD}={ast.unparse(z_e) if z_e is not None else 'default'}): " \
          f"the reported size is not len() of the stored payload"
    definite = r == z3.sat and T.exact and len(T.atoms) <= 1
    o = ground_obligation(oid, False, why, rel, definite=definite, backend="z3")
    o["replay_hint"] = {"kind": "image-size", "class": cls}
    return o


def _dominating_increment(ix, fnode, site_stmt, name):
    """An unconditional `name += k` (k >= 1) statement that precedes the site in its block or in an enclosing block."""
    cur = site_stmt
    while cur is not None and cur is not fnode:
        parent = ix.parent.get(id(cur))
        if parent is None:
            break
        for fld_ in ("body", "orelse", "finalbody"):
            blk = getattr(parent, fld_, None)
            if isinstance(blk, list) and cur in blk:
                for s in blk[:blk.index(cur)]:
                    if isinstance(s, ast.AugAssign) and isinstance(s.target, ast.Name) and s.target.id == name and isinstance(s.op, ast.Add) \
                            and isinstance(s.value, ast.Constant) and isinstance(s.value.value, int) and s.value.value >= 1:
                        return True
                    if isinstance(s, ast.Assign) and len(s.targets) == 1 and isinstance(s.targets[0], ast.Name) and s.targets[0].id == name \
                            and (_is_self_increment(s.value, name) or 0) >= 1:
                        return True
        if isinstance(parent, ast.ExceptHandler):
            # handler of a try: statements of the try body need not have run
            pass
        cur = parent if isinstance(parent, ast.stmt) or isinstance(parent, ast.ExceptHandler) else ix.stmt_of(parent)
    return False


def _is_self_increment(value, name):
    """k for `name + k` / `k + name` with a constant k >= 0, else None."""
    if isinstance(value, ast.BinOp) and isinstance(value.op, ast.Add):
        for a, b in ((value.left, value.right), (value.right, value.left)):
            if isinstance(a, ast.Name) and a.id == name and isinstance(b, ast.Constant) and isinstance(b.value, int) and b.value >= 0:
                return b.value
    return None


def _counter_discipline(fnode, name):
    """All bindings of `name` keep it >= 0 and non-decreasing: `= const >= 0`, `+= const >= 1`, parameter, re-binding from a
    tuple-returning call that is handed the counter itself.  Returns (ok, min_initial, why)."""
    lo = None
    for d in single_defs(fnode, name):
        if d[0] == "assign" and isinstance(d[1], ast.Constant) and isinstance(d[1].value, int) and d[1].value >= 0:
            lo = d[1].value if lo is None else min(lo, d[1].value)
        elif d[0] == "aug" and isinstance(d[1], ast.Add) and isinstance(d[2], ast.Constant) and isinstance(d[2].value, int) and d[2].value >= 0:
            continue
        elif d[0] == "aug" and isinstance(d[1], ast.Add) and isinstance(d[2], ast.Call) and dotted(d[2].func) == "len":
            continue
        elif d[0] == "assign" and _is_self_increment(d[1], name) is not None:
            continue
        elif d[0] == "param":
            lo = 0 if lo is None else min(lo, 0)          # obligation on the callers: checked by _param_nonneg
        elif d[0] == "unpack" and isinstance(d[1], ast.Call) and any(isinstance(a, ast.Name) and a.id == name for a in d[1].args):
            continue                                         # threaded through a helper that returns the updated counter
        else:
            return False, None, f"binding of {name} not recognised as a counter: {d[0]}"
    return True, lo, ""


def _number_obligation(oid, rel, mod, ix, call, fnode, cls, nf, e, default, given):
    loc = f"{rel}:{call.lineno}"
    hint = {"kind": "image-number", "class": cls}

    def res(ok, why, definite=True):
        # the number at the constructor can be overwritten before the object is published (renumbering passes): a failed
        # site obligation is a question for the native replayer, never a refutation by itself
        o = ground_obligation(oid, ok, f"{loc} {why}", rel, definite=False)
        o["replay_hint"] = hint
        return o
    if isinstance(e, ast.BinOp) and isinstance(e.op, ast.Add) and any(isinstance(x, ast.Constant) and isinstance(x.value, int) and x.value >= 1 for x in (e.left, e.right)) \
            and any(isinstance(x, ast.Call) and dotted(x.func) == "len" for x in (e.left, e.right)):
        return res(True, f"{nf}=len(...) + k with k >= 1")
    if isinstance(e, ast.BinOp) and isinstance(e.op, ast.Add) and isinstance(fnode, (ast.FunctionDef, ast.AsyncFunctionDef)):
        okp, whyp = _store_positive(ix, fnode, ix.stmt_of(call), e)
        if okp:
            return res(True, f"{nf}={ast.unparse(e)}: {whyp}")
    if not given:
        d = default.value if isinstance(default, ast.Constant) else None
        if isinstance(d, int) and d >= 1:
            return res(True, f"default {nf}={d}")
        return res(False, f"{cls}(...) built without {nf}: the image number stays at its default {d!r} (not a positive number)")
    if isinstance(e, ast.Constant) and isinstance(e.value, int):
        return res(e.value >= 1, f"{nf}={e.value}")
    if isinstance(e, ast.Attribute) and (e.attr in NUMBER_FIELDS or e.attr in STORED_NUMBER_FIELDS):
        return res(True, f"{nf} copied from another image object (its invariant)")
    if isinstance(e, ast.Name) and isinstance(fnode, (ast.FunctionDef, ast.AsyncFunctionDef)):
        ld = enclosing_loop_def(ix, call, e.id, fnode)
        if ld is not None and ld[2] == 0 and _enumerate_start(ld[1]) is not None:
            st_ = _enumerate_start(ld[1])
            return res(st_ >= 1, f"{nf}={e.id}: enumerate(..., start={st_})")
        defs = single_defs(fnode, e.id)
        # enumerate(..., start >= 1)
        if defs and all(d[0] == "for" for d in defs):
            ok = True
            for d in defs:
                it = d[1]
                if not (isinstance(it, ast.Call) and dotted(it.func) == "enumerate" and d[2] == 0):
                    ok = False
                    break
                start = it.args[1] if len(it.args) > 1 else next((k.value for k in it.keywords if k.arg == "start"), None)
                if not (isinstance(start, ast.Constant) and isinstance(start.value, int) and start.value >= 1):
                    ok = False
            if ok:
                return res(True, f"{nf}={e.id}: enumerate(..., start>=1)")
            return res(False, f"{nf}={e.id}: loop variable of an iteration that does not start at >= 1", definite=False)
        ok, lo, why = _counter_discipline(fnode, e.id)
        if not ok:
            return res(False, f"{nf}={e.id}: {why}", definite=False)
        if lo is not None and lo >= 1 and not any(d[0] == "param" for d in defs):
            return res(True, f"{nf}={e.id}: counter initialised at {lo} and never decreased")
        if _dominating_increment(ix, fnode, ix.stmt_of(call), e.id):
            if any(d[0] == "param" for d in defs):
                okp, whyp = _param_nonneg(mod, ix, fnode, e.id)
                if not okp:
                    return res(False, f"{nf}={e.id}: parameter; {whyp}", definite=False)
            return res(True, f"{nf}={e.id}: counter >= 0, incremented before the constructor on every path")
        if any(d[0] == "param" for d in defs) and not any(d[0] in ("aug", "assign") for d in defs):
            okp, whyp = _param_positive(mod, ix, fnode, e.id)
            return res(okp, f"{nf}={e.id}: parameter; {whyp}", definite=False if not okp else True)
        return res(False, f"{nf}={e.id}: counter may still be {lo} at the constructor (no increment dominates it)", definite=False)
    return res(False, f"{nf}={ast.unparse(e)}: shape not recognised", definite=False)


def _call_sites_of(mod, fname):
    return [n for n in ast.walk(mod.tree) if isinstance(n, ast.Call) and dotted(n.func).split(".")[-1] == fname]


def _arg_for(call, fnode, pname):
    params = [a.arg for a in fnode.args.posonlyargs + fnode.args.args]
    if params and params[0] in ("self", "cls"):
        params = params[1:] if isinstance(call.func, ast.Attribute) else params
    for k in call.keywords:
        if k.arg == pname:
            return k.value
    if pname in params and params.index(pname) < len(call.args):
        return call.args[params.index(pname)]
    return None


def _param_nonneg(mod, ix, fnode, pname, depth=0):
    """Every call site in the module passes a value >= 0 for parameter pname (a constant >= 0 or a counter)."""
    if depth > 3:
        return False, "call chain too deep"
    sites = _call_sites_of(mod, fnode.name)
    if not sites:
        return False, "no call site found in the module"
    for c in sites:
        a = _arg_for(c, fnode, pname)
        if a is None:
            return False, f"call at line {c.lineno} does not pass {pname} recognisably"
        if isinstance(a, ast.Constant) and isinstance(a.value, int) and a.value >= 0:
            continue
        if isinstance(a, ast.Name):
            q, caller = ix.enclosing(c)
            if isinstance(caller, (ast.FunctionDef, ast.AsyncFunctionDef)):
                ok, lo, why = _counter_discipline(caller, a.id)
                if ok and not any(d[0] == "param" for d in single_defs(caller, a.id)):
                    continue
                if ok and _param_nonneg(mod, ix, caller, a.id, depth + 1)[0]:
                    continue
        return False, f"call at line {c.lineno} passes {ast.unparse(a)}"
    return True, "all call sites pass a counter >= 0"


def _param_positive(mod, ix, fnode, pname):
    """Every call site passes a value >= 1: constant, enumerate(start>=1) variable, or counter incremented before the call."""
    sites = _call_sites_of(mod, fnode.name)
    if not sites:
        return False, "no call site found in the module"
    for c in sites:
        a = _arg_for(c, fnode, pname)
        if a is None:
            return False, f"call at line {c.lineno} does not pass {pname} recognisably"
        if isinstance(a, ast.Constant) and isinstance(a.value, int) and a.value >= 1:
            continue
        if isinstance(a, ast.Name):
            q, caller = ix.enclosing(c)
            if isinstance(caller, (ast.FunctionDef, ast.AsyncFunctionDef)):
                defs = single_defs(caller, a.id)
                if defs and all(d[0] == "for" and isinstance(d[1], ast.Call) and dotted(d[1].func) == "enumerate" and d[2] == 0 and
                                isinstance((d[1].args[1] if len(d[1].args) > 1 else next((k.value for k in d[1].keywords if k.arg == "start"), None)), ast.Constant)
                                and (d[1].args[1] if len(d[1].args) > 1 else next((k.value for k in d[1].keywords if k.arg == "start"), None)).value >= 1
                                for d in defs):
                    continue
                ok, lo, why = _counter_discipline(caller, a.id)
                if ok and not any(d[0] == "param" for d in defs) and (lo is not None and lo >= 1 or _dominating_increment(ix, caller, ix.stmt_of(c), a.id)):
                    continue
        if isinstance(a, ast.BinOp) and isinstance(a.op, ast.Add) and isinstance(a.right, ast.Constant) and isinstance(a.right.value, int) \
                and a.right.value >= 1 and isinstance(a.left, ast.Call) and dotted(a.left.func) == "len":
            continue
        if isinstance(a, ast.BinOp) and isinstance(a.op, ast.Add) and isinstance(a.right, ast.Constant) and isinstance(a.right.value, int) \
                and a.right.value >= 1 and isinstance(a.left, ast.Name):
            q, caller = ix.enclosing(c)
            if isinstance(caller, (ast.FunctionDef, ast.AsyncFunctionDef)):
                ok, lo, why = _counter_discipline(caller, a.left.id)
                if ok and (not any(d[0] == "param" for d in single_defs(caller, a.left.id)) or _param_nonneg(mod, ix, caller, a.left.id)[0]):
                    continue
        return False, f"call at line {c.lineno} passes {ast.unparse(a)}"
    return True, "all call sites pass a number >= 1"


# ------------------------------------------------------------ field stores --
def field_store_sites(repo, tier):
    """After construction nobody may overwrite the payload or the reported size of an image, and a number field may only be
    overwritten by a value >= 1."""
    dt = loader.module(DT, repo)
    img = set(image_classes(dt))
    non_image_with_payload_name = {n for n, c in dt.classes.items() if n not in img and any(f in PAYLOAD_FIELDS + (SIZE_FIELD,) for f, _d in dataclass_fields(dt, n))}
    obls = []
    for rel, mod in modules(repo).items():
        ix = Index(mod)
        per_fn = {}
        for n in ast.walk(mod.tree):
            tgts = []
            if isinstance(n, ast.Assign):
                tgts = [(t, n.value) for t in n.targets]
            elif isinstance(n, (ast.AugAssign, ast.AnnAssign)):
                tgts = [(n.target, n.value)]
            for t, value in tgts:
                if isinstance(t, ast.Attribute) and t.attr in PAYLOAD_FIELDS + (SIZE_FIELD,) + NUMBER_FIELDS[:2]:
                    q, fnode = ix.enclosing(n)
                    per_fn.setdefault(q, []).append((t, value, fnode, n))
        for q, sites in sorted(per_fn.items()):
            for k, (t, value, fnode, stmt) in enumerate(sorted(sites, key=lambda x: (x[0].lineno, x[0].col_offset))):
                oid = f"C04/{short(rel)}::{q}/call-pre#store-{t.attr}@{k}"
                loc = f"{rel}:{t.lineno}"
                base = t.value
                cls_q = q.split(".")[0] if "." in q else None
                # self.<field> inside a class that is not an image class
                if isinstance(base, ast.Name) and base.id == "self" and cls_q is not None and cls_q not in img:
                    obls.append(ground_obligation(oid, True, f"{loc} field of {cls_q} (not an image)", rel))
                    continue
                if t.attr in NUMBER_FIELDS:
                    ok, why = _store_positive(ix, fnode, stmt, value)
                    obls.append(ground_obligation(oid, ok, f"{loc} {ast.unparse(t)} = {ast.unparse(value)}: {why}", rel, definite=False))
                    continue
                # local bound to a constructor of a non-image class
                if isinstance(base, ast.Name) and isinstance(fnode, (ast.FunctionDef, ast.AsyncFunctionDef)):
                    defs = single_defs(fnode, base.id)
                    ctor = [d for d in defs if d[0] == "assign" and isinstance(d[1], ast.Call) and dotted(d[1].func).split(".")[-1] in non_image_with_payload_name]
                    if defs and len(ctor) == len(defs):
                        obls.append(ground_obligation(oid, True, f"{loc} {base.id} is a {dotted(ctor[0][1].func)} (not an image)", rel))
                        continue
                obls.append(ground_obligation(oid, False, f"{loc} store to {ast.unparse(t)}: may overwrite the payload / size of an image after construction",
                                              rel, definite=False))
    # ---- indirect stores: dataclasses.replace(obj, <field>=...) and setattr(obj, "<field>", ...)
    protected = set(PAYLOAD_FIELDS) | {SIZE_FIELD} | set(NUMBER_FIELDS[:2])
    n_ind = 0
    for rel, mod in modules(repo).items():
        ix = Index(mod)
        per_fn = {}
        for n in ast.walk(mod.tree):
            if not isinstance(n, ast.Call):
                continue
            hits = []
            d = dotted(n.func)
            if d.split(".")[-1] == "replace" and (d in ("replace", "dataclasses.replace") and mod.imports.get("replace", "dataclasses.replace").startswith("dataclasses")
                                                  or d == "dataclasses.replace") and not isinstance(n.func, ast.Attribute) | (d == "dataclasses.replace"):
                n_ind += 1
                if any(k.arg is None for k in n.keywords):
                    hits.append(("**", None))
                hits += [(k.arg, k.value) for k in n.keywords if k.arg in protected]
            elif isinstance(n.func, ast.Name) and n.func.id == "setattr" and len(n.args) == 3:
                n_ind += 1
                names = _possible_strings(ix, n, n.args[1])
                if names is None:
                    hits.append(("?", n.args[2]))
                else:
                    hits += [(a, n.args[2]) for a in sorted(names & protected)]
            elif isinstance(n.func, ast.Attribute) and n.func.attr == "__setattr__" and len(n.args) == 2:
                n_ind += 1
                names = _possible_strings(ix, n, n.args[0])
                hits += [("?", n.args[1])] if names is None else [(a, n.args[1]) for a in sorted(names & protected)]
            if hits:
                q, fnode = ix.enclosing(n)
                per_fn.setdefault(q, []).append((n, fnode, hits))
        for q, sites in sorted(per_fn.items()):
            for k, (call, fnode, hits) in enumerate(sorted(sites, key=lambda x: (x[0].lineno, x[0].col_offset))):
                loc = f"{rel}:{call.lineno}"
                kws = dict(hits)
                oid = f"C04/{short(rel)}::{q}/call-pre#store-indirect-{'-'.join(sorted(str(h[0]) for h in hits))}@{k}"
                target = call.args[0] if call.args else None
                cls_q = q.split(".")[0] if "." in q else None
                if isinstance(call.func, ast.Attribute) and call.func.attr == "__setattr__":
                    target = call.func.value
                is_self = (isinstance(target, ast.Name) and target.id == "self") or \
                    (isinstance(target, ast.Call) and isinstance(target.func, ast.Name) and target.func.id == "super" and not target.args)
                if is_self and cls_q is not None and cls_q not in img and "**" not in kws:
                    obls.append(ground_obligation(oid, True, f"{loc} field of {cls_q} (not an image)", rel))
                    continue
                # the target is an object built by the constructor of a result class that is not an image class
                if isinstance(target, ast.Name) and isinstance(fnode, (ast.FunctionDef, ast.AsyncFunctionDef)) and "**" not in kws:
                    tdefs = single_defs(fnode, target.id)
                    if tdefs and all(d[0] == "assign" and isinstance(d[1], ast.Call) and dotted(d[1].func).split(".")[-1] in dt.classes
                                     and dotted(d[1].func).split(".")[-1] not in img for d in tdefs):
                        obls.append(ground_obligation(oid, True, f"{loc} {target.id} is a {dotted(tdefs[0][1].func)} (not an image)", rel))
                        continue
                pf = next((f for f in PAYLOAD_FIELDS if f in kws), None)
                if pf is not None and SIZE_FIELD in kws and not (set(kws) & set(NUMBER_FIELDS)):
                    o = _size_obligation(oid, rel, call, fnode, "replace", pf, kws[pf], kws[SIZE_FIELD], True, True)
                elif set(kws) <= set(NUMBER_FIELDS[:2]) and all(_store_positive(ix, fnode, ix.stmt_of(call), v)[0] for v in kws.values()):
                    o = ground_obligation(oid, True, f"{loc} number field set to a value >= 1", rel)
                else:
                    o = ground_obligation(oid, False, f"{loc} {ast.unparse(call)[:90]}: payload / size / number of an object is rewritten after construction "
                                                       f"without re-establishing size_bytes == len(payload) and number >= 1", rel, definite=False)
                    o["replay_hint"] = {"kind": "image-size", "class": None}
                obls.append(o)
    obls.append(ground_obligation("C04/package/field-store#indirect-store-sites-scanned", True,
                                  f"{n_ind} dataclasses.replace / setattr sites scanned for payload, size and number fields", "package"))
    return {"obligations": obls, "functions": []}


def _possible_strings(ix, at, e, depth=0):
    """Set of strings a name-argument can denote (constant; loop variable over a literal sequence, over a list built by
    append() of tuples, or over a literal list returned by a module function), else None."""
    if isinstance(e, ast.Constant) and isinstance(e.value, str):
        return {e.value}
    if not isinstance(e, ast.Name) or depth > 3:
        return None
    q, fnode = ix.enclosing(at)
    # name bound once to a lookup in a constant dict: TABLE.get(key[, default]) / TABLE[key]
    if isinstance(fnode, (ast.FunctionDef, ast.AsyncFunctionDef)):
        defs = single_defs(fnode, e.id)
        if len(defs) == 1 and defs[0][0] == "assign":
            v = defs[0][1]
            tab = None
            if isinstance(v, ast.Call) and isinstance(v.func, ast.Attribute) and v.func.attr == "get" and v.args:
                tab = _const_container(ix, fnode, v.func.value)
                dflt = v.args[1] if len(v.args) > 1 else None
                if dflt is not None and not (isinstance(dflt, ast.Constant) and (dflt.value is None or isinstance(dflt.value, str))):
                    tab = None
            elif isinstance(v, ast.Subscript):
                tab = _const_container(ix, fnode, v.value)
                dflt = None
            if isinstance(tab, ast.Dict) and all(isinstance(x, ast.Constant) for x in tab.values):
                out = {x.value for x in tab.values if isinstance(x.value, str)}
                if isinstance(v, ast.Call) and len(v.args) > 1 and isinstance(v.args[1].value, str):
                    out.add(v.args[1].value)
                return out
            if isinstance(v, ast.Constant) and isinstance(v.value, str):
                return {v.value}
    cur = at
    for a in ix.ancestors(at):
        if isinstance(a, ast.For) and _within(cur, a.body):
            pos = None
            if isinstance(a.target, ast.Name) and a.target.id == e.id:
                pos = -1
            elif isinstance(a.target, (ast.Tuple, ast.List)):
                for i, t in enumerate(a.target.elts):
                    if isinstance(t, ast.Name) and t.id == e.id:
                        pos = i
            if pos is not None:
                return _strings_of_iterable(ix, a, a.iter, pos, fnode, depth)
        if a is fnode:
            break
        cur = a
    return None


def _const_container(ix, fnode, e):
    """The literal display a name denotes: bound once in the function, or a module-level constant never rebound."""
    if isinstance(e, (ast.Dict, ast.List, ast.Tuple, ast.Set)):
        return e
    if isinstance(e, ast.Name):
        if isinstance(fnode, (ast.FunctionDef, ast.AsyncFunctionDef)):
            defs = single_defs(fnode, e.id)
            if defs:
                return defs[0][1] if len(defs) == 1 and defs[0][0] == "assign" and isinstance(defs[0][1], (ast.Dict, ast.List, ast.Tuple, ast.Set)) else None
        v = ix.mod.assigns.get(e.id)
        if isinstance(v, (ast.Dict, ast.List, ast.Tuple, ast.Set)):
            n_bind = sum(1 for n in ast.walk(ix.mod.tree) if isinstance(n, ast.Name) and n.id == e.id and isinstance(n.ctx, ast.Store))
            return v if n_bind == 1 else None
    return None


def _elem_strings(ix, at, elt, pos, depth):
    """Strings at position `pos` (-1: the element itself) of one element expression."""
    if pos >= 0:
        if not isinstance(elt, ast.Tuple) or pos >= len(elt.elts):
            return None
        elt = elt.elts[pos]
    return _possible_strings(ix, at, elt, depth + 1)


def _strings_of_iterable(ix, at, it, pos, fnode, depth):
    if isinstance(it, ast.Call) and isinstance(it.func, ast.Attribute) and it.func.attr == "items" and isinstance(it.func.value, ast.Dict):
        it = it.func.value
    if isinstance(it, ast.Dict):
        return {c.value for c in ast.walk(it) if isinstance(c, ast.Constant) and isinstance(c.value, str)}
    if isinstance(it, (ast.List, ast.Tuple, ast.Set)):
        out = set()
        for elt in it.elts:
            r = _elem_strings(ix, at, elt, pos, depth)
            if r is None:
                return None
            out |= r
        return out
    if isinstance(it, ast.Name) and isinstance(fnode, (ast.FunctionDef, ast.AsyncFunctionDef)) and depth <= 3 and not single_defs(fnode, it.id):
        c = _const_container(ix, fnode, it)
        return _strings_of_iterable(ix, at, c, pos, fnode, depth + 1) if c is not None else None
    if isinstance(it, ast.Call) and isinstance(it.func, ast.Attribute) and it.func.attr == "items" and isinstance(it.func.value, ast.Name):
        c = _const_container(ix, fnode, it.func.value)
        if isinstance(c, ast.Dict):
            ks = [k for k in c.keys] if pos == 0 else ([v for v in c.values] if pos == 1 else list(c.keys) + list(c.values))
            if all(isinstance(x, ast.Constant) for x in ks):
                return {x.value for x in ks if isinstance(x.value, str)}
        return None
    if isinstance(it, ast.Name) and isinstance(fnode, (ast.FunctionDef, ast.AsyncFunctionDef)) and depth <= 3:
        defs = single_defs(fnode, it.id)
        out = set()
        for d in defs:
            if d[0] == "assign" and isinstance(d[1], (ast.List, ast.Tuple, ast.Set, ast.Dict)):
                r = _strings_of_iterable(ix, d[2], d[1], pos, fnode, depth + 1)
            elif d[0] == "unpack" and isinstance(d[1], ast.Call) and isinstance(d[1].func, ast.Name) and d[1].func.id in ix.mod.functions:
                # name, ... = helper(): every return value of the helper is a tuple whose d[2]-th component is a literal sequence
                callee = ix.mod.functions[d[1].func.id]
                r = set()
                rets = [n for n in own_walk(callee) if isinstance(n, ast.Return) and n.value is not None]
                if not rets:
                    r = None
                for ret in rets:
                    v = ret.value
                    if not (isinstance(v, ast.Tuple) and d[2] < len(v.elts)):
                        r = None
                        break
                    rr = _strings_of_iterable(ix, ret, v.elts[d[2]], pos, callee, depth + 1)
                    if rr is None:
                        r = None
                        break
                    r |= rr
            else:
                r = None
            if r is None:
                return None
            out |= r
        # elements added by <name>.append(<tuple>)
        for n in own_walk(fnode):
            if isinstance(n, ast.Call) and isinstance(n.func, ast.Attribute) and n.func.attr == "append" and isinstance(n.func.value, ast.Name) \
                    and n.func.value.id == it.id and len(n.args) == 1:
                r = _elem_strings(ix, n, n.args[0], pos, depth)
                if r is None:
                    return None
                out |= r
            elif isinstance(n, ast.Call) and isinstance(n.func, ast.Attribute) and n.func.attr in ("extend", "insert", "__iadd__") \
                    and isinstance(n.func.value, ast.Name) and n.func.value.id == it.id:
                return None
        return out if defs else None
    return None


def _store_positive(ix, fnode, stmt, value):
    if isinstance(value, ast.BinOp) and isinstance(value.op, ast.Add):
        for a, b in ((value.left, value.right), (value.right, value.left)):
            if isinstance(a, ast.Name) and isinstance(b, ast.Constant) and isinstance(b.value, int):
                ld = enclosing_loop_def(ix, stmt, a.id, fnode)
                if ld is not None and ld[2] == 0 and _enumerate_start(ld[1]) is not None:
                    tot = _enumerate_start(ld[1]) + b.value
                    return tot >= 1, f"enumerate(..., start={_enumerate_start(ld[1])}) + {b.value}"
            if isinstance(a, ast.Call) and dotted(a.func) == "len" and isinstance(b, ast.Constant) and isinstance(b.value, int) and b.value >= 1:
                return True, "len(...) + k with k >= 1"
    if isinstance(value, ast.Name):
        ld = enclosing_loop_def(ix, stmt, value.id, fnode)
        if ld is not None and ld[2] == 0 and _enumerate_start(ld[1]) is not None:
            return _enumerate_start(ld[1]) >= 1, f"enumerate(..., start={_enumerate_start(ld[1])})"
    if isinstance(value, ast.Constant) and isinstance(value.value, int):
        return value.value >= 1, f"constant {value.value}"
    if isinstance(value, ast.Attribute) and value.attr in ("slide_number", "unit_number", "page_number") + NUMBER_FIELDS:
        return True, "copied from a stored number (its invariant)"
    if isinstance(value, ast.Name):
        if value.id == "value" and isinstance(fnode, ast.FunctionDef) and any("setter" in ast.unparse(d) for d in fnode.decorator_list):
            return True, "property setter (alias of the number field; callers are sites of their own)"
        defs = single_defs(fnode, value.id) if isinstance(fnode, (ast.FunctionDef, ast.AsyncFunctionDef)) else []
        if defs and all(d[0] == "for" and isinstance(d[1], ast.Call) and dotted(d[1].func) == "enumerate" and d[2] == 0 for d in defs):
            starts = [(d[1].args[1] if len(d[1].args) > 1 else next((k.value for k in d[1].keywords if k.arg == "start"), None)) for d in defs]
            if all(isinstance(s_, ast.Constant) and isinstance(s_.value, int) and s_.value >= 1 for s_ in starts):
                return True, "enumerate(..., start>=1)"
    return False, "value not recognised as >= 1"


# ----------------------------------------------------------- wf: chr sites --
class Range:
    """Integer facts about one expression: z3 Int term + constraints; `exact` = every value admitted by the constraints is
    reachable for some input (then `sat` is a counter-model), `why` = provenance."""

    def __init__(self, term, cons=(), exact=True, why=""):
        self.term, self.cons, self.exact, self.why = term, list(cons), exact, why


_fresh = [0]


def _iv(prefix="x"):
    _fresh[0] += 1
    return z3.Int(f"{prefix}{_fresh[0]}")


STRUCT_RANGES = {"B": (0, 255), "H": (0, 65535), "I": (0, 2 ** 32 - 1), "L": (0, 2 ** 32 - 1), "Q": (0, 2 ** 64 - 1),
                 "b": (-128, 127), "h": (-32768, 32767), "i": (-2 ** 31, 2 ** 31 - 1), "l": (-2 ** 31, 2 ** 31 - 1), "q": (-2 ** 63, 2 ** 63 - 1)}


class ChrAnalysis:
    def __init__(self, mod, ix, fnode, patterns):
        self.mod, self.ix, self.fnode, self.patterns = mod, ix, fnode, patterns
        self.names = {}
        self.elem_of = {}      # iterable name -> z3 term of "an arbitrary element" under analysis

    # -- which compiled pattern does match variable `m` belong to? ----------------
    def pattern_of_match(self, name, at):
        """Group table of the pattern whose match object is bound to `name` at node `at`."""
        # lambda parameter of PATTERN.sub(lambda m: ...)
        for a in self.ix.ancestors(at):
            if isinstance(a, ast.Lambda) and name in [x.arg for x in a.args.args]:
                call = self.ix.parent.get(id(a))
                if isinstance(call, ast.Call) and isinstance(call.func, ast.Attribute) and call.func.attr in ("sub", "subn") and a in call.args:
                    return self.patterns.get(dotted(call.func.value))
                return None
        # parameter of a named function that is only ever used as the replacement callback of PATTERN.sub(fn, ...)
        if isinstance(self.fnode, (ast.FunctionDef, ast.AsyncFunctionDef)):
            params = [a.arg for a in self.fnode.args.posonlyargs + self.fnode.args.args if a.arg not in ("self", "cls")]
            if params and params[0] == name and not [d for d in single_defs(self.fnode, name) if d[0] != "param"]:
                tab = self._callback_pattern(self.fnode.name)
                if tab is not None:
                    return tab
        if isinstance(self.fnode, (ast.FunctionDef, ast.AsyncFunctionDef)):
            defs = single_defs(self.fnode, name)
            tabs = []
            for d in defs:
                if d[0] == "assign" and isinstance(d[1], ast.Call) and isinstance(d[1].func, ast.Attribute) \
                        and d[1].func.attr in ("match", "search", "fullmatch"):
                    tabs.append(self.patterns.get(dotted(d[1].func.value)))
                elif d[0] == "for" and isinstance(d[1], ast.Call) and isinstance(d[1].func, ast.Attribute) and d[1].func.attr == "finditer":
                    tabs.append(self.patterns.get(dotted(d[1].func.value)))
                else:
                    return None
            if tabs and all(t is not None for t in tabs) and all(t == tabs[0] for t in tabs):
                return tabs[0]
        return None

    def _callback_pattern(self, fname):
        """Group table of the pattern when every reference to function `fname` in the module is the replacement argument of
        <compiled pattern>.sub / subn (so its parameter is a match object of that pattern); None otherwise."""
        tabs = []
        for n in ast.walk(self.mod.tree):
            ref = (isinstance(n, ast.Name) and n.id == fname and isinstance(n.ctx, ast.Load)) or \
                  (isinstance(n, ast.Attribute) and n.attr == fname and isinstance(n.ctx, ast.Load))
            if not ref:
                continue
            call = self.ix.parent.get(id(n))
            if isinstance(call, ast.Call) and isinstance(call.func, ast.Attribute) and call.func.attr in ("sub", "subn") and call.args and call.args[0] is n:
                tabs.append(self.patterns.get(dotted(call.func.value)))
            else:
                return None
        if tabs and all(t is not None and t == tabs[0] for t in tabs):
            return tabs[0]
        return None

    def int_of_text(self, e, base, at):
        """Range of int(<e>, base)."""
        # m.group(k) of a known pattern
        if isinstance(e, ast.Call) and isinstance(e.func, ast.Attribute) and e.func.attr == "group" and isinstance(e.func.value, ast.Name) \
                and len(e.args) == 1 and isinstance(e.args[0], ast.Constant):
            tab = self.pattern_of_match(e.func.value.id, at)
            info = tab.get(e.args[0].value) if tab else None
            r = R.int_range_of_group(info, base)
            if r is None:
                return None
            v = _iv("g")
            if r[0] == "unbounded":
                return Range(v, [] if r[1] else [v >= 0], True, f"int() of regex group {e.args[0].value} (unbounded digits)")
            return Range(v, [v >= r[0], v <= r[1]], True, f"int() of regex group {e.args[0].value} ({info['width'][1]} {info['cls']} digits)")
        # comprehension / loop variable over PATTERN.findall(...) of a pattern with exactly one group: the group's text
        if isinstance(e, ast.Name):
            src = None
            for a in self.ix.ancestors(at):
                if isinstance(a, (ast.ListComp, ast.GeneratorExp, ast.SetComp, ast.DictComp)):
                    for g in a.generators:
                        if isinstance(g.target, ast.Name) and g.target.id == e.id:
                            src = g.iter
                if a is self.fnode:
                    break
            if src is None and isinstance(self.fnode, (ast.FunctionDef, ast.AsyncFunctionDef)):
                defs = single_defs(self.fnode, e.id)
                if len(defs) == 1 and defs[0][0] == "for" and defs[0][2] is None:
                    src = defs[0][1]
            if isinstance(src, ast.Call) and isinstance(src.func, ast.Attribute) and src.func.attr == "findall":
                tab = self.patterns.get(dotted(src.func.value))
                if tab and sorted(tab) == [1]:
                    r = R.int_range_of_group(tab[1], base)
                    if r is not None:
                        v = _iv("g")
                        if r[0] == "unbounded":
                            return Range(v, [] if r[1] else [v >= 0], True, "int() of the group of a findall() match (unbounded digits)")
                        return Range(v, [v >= r[0], v <= r[1]], True, f"int() of the group of a findall() match ({tab[1]['width'][1]} {tab[1]['cls']} digits)")
            return None
        # text[a:b] with constant width
        if isinstance(e, ast.Subscript) and isinstance(e.slice, ast.Slice) and e.slice.lower is not None and e.slice.upper is not None and e.slice.step is None:
            w = _const_difference(e.slice.upper, e.slice.lower)
            if w is not None and 0 < w <= 8:
                v = _iv("s")
                top = base ** w - 1
                return Range(v, [v >= -top, v <= top], False, f"int() of a {w}-character slice")
        return None

    def guards(self, at):
        """Conditions that hold at node `at`: enclosing if-tests (and their negation in else branches), comprehension conditions,
        and `if c: break/continue/return/raise` statements preceding it in an enclosing block."""
        out = []
        cur = at
        for a in self.ix.ancestors(at):
            if isinstance(a, ast.If):
                if _within(cur, a.body):
                    out.append((a.test, True))
                elif _within(cur, a.orelse):
                    out.append((a.test, False))
            elif isinstance(a, ast.IfExp):
                if cur is a.body:
                    out.append((a.test, True))
                elif cur is a.orelse:
                    out.append((a.test, False))
            elif isinstance(a, (ast.ListComp, ast.GeneratorExp, ast.SetComp, ast.DictComp)):
                for g in a.generators:
                    for c in g.ifs:
                        if cur is not c:
                            out.append((c, True))
            for fld_ in ("body", "orelse", "finalbody"):
                blk = getattr(a, fld_, None)
                if isinstance(blk, list) and cur in blk:
                    for s in blk[:blk.index(cur)]:
                        if isinstance(s, ast.If) and not s.orelse and s.body and isinstance(s.body[-1], (ast.Break, ast.Continue, ast.Return, ast.Raise)):
                            out.append((s.test, False))
            if a is self.fnode:
                break
            cur = a
        return out

    def expr(self, e, at):
        """Range of integer expression e (None: not an integer expression we understand)."""
        if isinstance(e, ast.Constant) and isinstance(e.value, int) and not isinstance(e.value, bool):
            return Range(z3.IntVal(e.value), [], True, "constant")
        if isinstance(e, ast.BinOp) and isinstance(e.op, ast.BitAnd):
            for x, m in ((e.left, e.right), (e.right, e.left)):
                if isinstance(m, ast.Constant) and isinstance(m.value, int) and m.value >= 0:
                    inner = self.expr(x, at)
                    v = _iv("and")
                    full = m.value & (m.value + 1) == 0        # mask of the form 2^k - 1
                    unconstrained = inner is not None and not inner.cons and inner.exact
                    return Range(v, [v >= 0, v <= m.value], bool(full and unconstrained),
                                 f"(...) & {hex(m.value)}" + (" of an unbounded integer" if unconstrained else ""))
        if isinstance(e, ast.BinOp) and isinstance(e.op, (ast.Add, ast.Sub)):
            l, r = self.expr(e.left, at), self.expr(e.right, at)
            if l is not None and r is not None:
                t = l.term + r.term if isinstance(e.op, ast.Add) else l.term - r.term
                return Range(t, l.cons + r.cons, l.exact and r.exact, "sum")
        if isinstance(e, ast.Call) and isinstance(e.func, ast.Name) and e.func.id == "int" and e.args:
            base = 10
            if len(e.args) > 1:
                if not (isinstance(e.args[1], ast.Constant) and isinstance(e.args[1].value, int)):
                    return None
                base = e.args[1].value
            return self.int_of_text(e.args[0], base, at)
        if isinstance(e, ast.Call) and isinstance(e.func, ast.Name) and e.func.id == "ord" and len(e.args) == 1:
            v = _iv("ord")
            return Range(v, [v >= 0, v <= 0x10FFFF], False, "ord() of a character of unknown provenance")
        if isinstance(e, ast.Subscript) and isinstance(e.value, ast.Call) and dotted(e.value.func) == "struct.unpack" and e.value.args \
                and isinstance(e.value.args[0], ast.Constant) and isinstance(e.value.args[0].value, str) and isinstance(e.slice, ast.Constant):
            fmt = e.value.args[0].value.lstrip("<>=!@")
            k = e.slice.value
            if isinstance(k, int) and 0 <= k < len(fmt) and fmt[k] in STRUCT_RANGES and fmt.isalpha():
                lo, hi = STRUCT_RANGES[fmt[k]]
                v = _iv("u")
                return Range(v, [v >= lo, v <= hi], True, f"struct.unpack('{e.value.args[0].value}')[{k}] of input bytes")
        if isinstance(e, ast.Name):
            return self.name(e.id, at)
        return None

    def name(self, name, at):
        key = name
        if key in self.names:
            return self.names[key]
        res = None
        # comprehension / lambda scope first
        for a in self.ix.ancestors(at):
            if isinstance(a, (ast.ListComp, ast.GeneratorExp, ast.SetComp, ast.DictComp)):
                for g in a.generators:
                    if isinstance(g.target, ast.Name) and g.target.id == name:
                        res = self.element(g.iter, at)
                        self.names[key] = res
                        return res
            if a is self.fnode:
                break
        if isinstance(self.fnode, (ast.FunctionDef, ast.AsyncFunctionDef, ast.Module)):
            defs = single_defs(self.fnode, name)
            if len(defs) == 1 and defs[0][0] == "assign":
                res = self.expr(defs[0][1], defs[0][2])
            elif len(defs) == 1 and defs[0][0] == "for" and defs[0][2] is None:
                res = self.element(defs[0][1], at)
            elif defs and all(d[0] == "for" for d in defs):
                ld = enclosing_loop_def(self.ix, at, name, self.fnode)
                if ld is not None and ld[2] is None:
                    res = self.element(ld[1], at)
        if res is not None:
            # one z3 variable per program variable so that guards talk about the same value
            v = z3.Int(f"var_{name}")
            res = Range(v, res.cons + [v == res.term], res.exact, res.why)
        self.names[key] = res
        return res

    def element(self, it, at, depth=0):
        """Range of an arbitrary element of iterable expression `it` (None when not derivable).  The element is registered
        under the iterable's name so that quantified guards (`not any(P(v) for v in X)`, `all(...)`) constrain it."""
        r = self.iter_range(it, at)
        if r is not None:
            return r
        if isinstance(it, (ast.ListComp, ast.GeneratorExp, ast.SetComp)) and len(it.generators) == 1:
            r = self.expr(it.elt, it.elt)
            if r is None:
                return None
            for c in it.generators[0].ifs:
                b = self.cond(c, True)
                if b is not None:
                    r = Range(r.term, r.cons + [b], r.exact, r.why)
                else:
                    r = Range(r.term, r.cons, False, r.why)
            return r
        if isinstance(it, (ast.List, ast.Tuple)) and it.elts and len(it.elts) <= 16:
            rs = [self.expr(e, at) for e in it.elts]
            if all(x is not None for x in rs):
                v = _iv("el")
                return Range(v, [z3.Or([z3.And([v == x.term] + x.cons) for x in rs])], all(x.exact for x in rs), "literal sequence")
        if isinstance(it, ast.Name) and depth < 3 and isinstance(self.fnode, (ast.FunctionDef, ast.AsyncFunctionDef)):
            defs = single_defs(self.fnode, it.id)
            if len(defs) == 1 and defs[0][0] == "assign":
                r = self.element(defs[0][1], defs[0][2], depth + 1)
                if r is not None:
                    v = z3.Int(f"elem_{it.id}")
                    r = Range(v, r.cons + [v == r.term], r.exact, f"element of {it.id}: " + r.why)
                    self.elem_of[it.id] = r.term
                return r
        if isinstance(it, ast.Call) and isinstance(it.func, ast.Name) and it.func.id in ("list", "tuple", "sorted", "reversed", "iter", "set") and len(it.args) == 1:
            return self.element(it.args[0], at, depth + 1)
        return None

    def iter_range(self, it, at):
        if isinstance(it, ast.Call) and isinstance(it.func, ast.Name) and it.func.id == "range" and all(isinstance(a, ast.Constant) and isinstance(a.value, int) for a in it.args):
            vals = [a.value for a in it.args]
            lo, hi = (0, vals[0]) if len(vals) == 1 else (vals[0], vals[1])
            if len(vals) <= 2:
                v = _iv("i")
                return Range(v, [v >= lo, v < hi], True, f"range({', '.join(map(str, vals))})")
        return None

    def cond(self, test, positive):
        """z3 Bool for a guard over analysed names (None if not understood)."""
        if isinstance(test, ast.UnaryOp) and isinstance(test.op, ast.Not):
            return self.cond(test.operand, not positive)
        # any(P(v) for v in X) is false / all(P(v) for v in X) is true: P / not P holds for the element of X under analysis
        if isinstance(test, ast.Call) and isinstance(test.func, ast.Name) and test.func.id in ("any", "all") and len(test.args) == 1 \
                and isinstance(test.args[0], (ast.GeneratorExp, ast.ListComp)) and len(test.args[0].generators) == 1:
            g = test.args[0].generators[0]
            if isinstance(g.iter, ast.Name) and g.iter.id in self.elem_of and isinstance(g.target, ast.Name) and not g.ifs:
                if (test.func.id == "any") == positive:
                    return None                       # some element / not all: says nothing about this one
                saved = self.names.get(g.target.id, "<unset>")
                self.names[g.target.id] = Range(self.elem_of[g.iter.id], [], True, "element")
                try:
                    b = self.cond(test.args[0].elt, True)
                finally:
                    if saved == "<unset>":
                        self.names.pop(g.target.id, None)
                    else:
                        self.names[g.target.id] = saved
                if b is None:
                    return None
                return z3.Not(b) if test.func.id == "any" else b
            return None
        if isinstance(test, ast.BoolOp):
            parts = [self.cond(v, True) for v in test.values]
            if isinstance(test.op, ast.And):
                if positive:
                    parts = [p for p in parts if p is not None]
                    return z3.And(parts) if parts else None
                if any(p is None for p in parts):
                    return None
                return z3.Not(z3.And(parts))
            if any(p is None for p in parts):
                return None if positive else (z3.And([z3.Not(p) for p in parts if p is not None]) if any(p is not None for p in parts) else None)
            return z3.Or(parts) if positive else z3.Not(z3.Or(parts))
        if isinstance(test, ast.Compare) and len(test.ops) == 1:
            l, r = self._cterm(test.left), self._cterm(test.comparators[0])
            op = test.ops[0]
            if isinstance(op, (ast.In, ast.NotIn)) and l is not None and isinstance(test.comparators[0], (ast.Tuple, ast.List, ast.Set)) \
                    and all(isinstance(x, ast.Constant) and isinstance(x.value, int) for x in test.comparators[0].elts):
                b = z3.Or([l == x.value for x in test.comparators[0].elts] + [z3.BoolVal(False)])
                b = b if isinstance(op, ast.In) else z3.Not(b)
                return b if positive else z3.Not(b)
            if l is None or r is None:
                return None
            b = {ast.Eq: l == r, ast.NotEq: l != r, ast.Lt: l < r, ast.LtE: l <= r, ast.Gt: l > r, ast.GtE: l >= r}.get(type(op))
            if b is None:
                return None
            return b if positive else z3.Not(b)
        if isinstance(test, ast.Compare) and len(test.ops) == 2:
            a = self.cond(ast.Compare(test.left, [test.ops[0]], [test.comparators[0]]), True)
            b = self.cond(ast.Compare(test.comparators[0], [test.ops[1]], [test.comparators[1]]), True)
            if a is None or b is None:
                return None
            return z3.And(a, b) if positive else z3.Not(z3.And(a, b))
        return None

    def _cterm(self, e):
        if isinstance(e, ast.Constant) and isinstance(e.value, int) and not isinstance(e.value, bool):
            return z3.IntVal(e.value)
        if isinstance(e, ast.Name) and self.names.get(e.id) is not None:
            return self.names[e.id].term
        return None


def _within(node, block):
    return any(node is s or any(node is x for x in ast.walk(s)) for s in block)


def _const_difference(hi, lo):
    """hi - lo when both are `<same expr> + const` (e.g. i + 4 and i + 2)."""
    def split(e):
        if isinstance(e, ast.BinOp) and isinstance(e.op, ast.Add) and isinstance(e.right, ast.Constant) and isinstance(e.right.value, int):
            return ast.dump(e.left), e.right.value
        if isinstance(e, ast.Constant) and isinstance(e.value, int):
            return "", e.value
        return ast.dump(e), 0
    (a, x), (b, y) = split(hi), split(lo)
    return x - y if a == b else None


def _patterns_of(mod):
    out = {}
    for name in mod.assigns:
        p = R.pattern_literal(mod, name)
        if p is not None:
            out[name] = R.groups(p)
    return out


def char_source_sites(mod, ix):
    """Every own-code construct that makes a character from an integer, as (node, kind, payload):
      ('call', E)      chr(E)
      ('map', X)       map(chr, X) -- one character per element of X
      ('value', None)  any other use of the builtin `chr` as a value (alias, argument of an unknown function, builtins.chr)
      ('format', E)    f"{E:c}", format(E, "c"), "%c" % E, "{:c}".format(E)
      ('table', E)     an int ordinal as the value of a str.maketrans table."""
    if "chr" in mod.functions:
        return []
    out = []
    for n in ast.walk(mod.tree):
        if isinstance(n, ast.Call) and isinstance(n.func, ast.Name) and n.func.id == "chr" and len(n.args) == 1 and not n.keywords:
            out.append((n, "call", n.args[0]))
        elif (isinstance(n, ast.Name) and n.id == "chr" and isinstance(n.ctx, ast.Load)) or \
                (isinstance(n, ast.Attribute) and n.attr == "chr" and dotted(n.value) in ("builtins", "__builtins__")):
            p = ix.parent.get(id(n))
            if isinstance(p, ast.Call) and p.func is n:
                if len(p.args) == 1 and not p.keywords and isinstance(n, ast.Name):
                    continue                      # the plain call form above
                out.append((n, "value", None))
            elif isinstance(p, ast.Call) and isinstance(p.func, ast.Name) and p.func.id == "map" and len(p.args) == 2 and p.args[0] is n:
                out.append((p, "map", p.args[1]))
            else:
                out.append((n, "value", None))
        elif isinstance(n, ast.FormattedValue) and isinstance(n.format_spec, ast.JoinedStr) \
                and any(isinstance(v, ast.Constant) and str(v.value).endswith("c") for v in n.format_spec.values):
            out.append((n, "format", n.value))
        elif isinstance(n, ast.Call) and isinstance(n.func, ast.Name) and n.func.id == "format" and len(n.args) == 2 \
                and isinstance(n.args[1], ast.Constant) and str(n.args[1].value).endswith("c"):
            out.append((n, "format", n.args[0]))
        elif isinstance(n, ast.BinOp) and isinstance(n.op, ast.Mod) and isinstance(n.left, ast.Constant) and isinstance(n.left.value, str) \
                and "%c" in n.left.value:
            out.append((n, "format", n.right if not isinstance(n.right, ast.Tuple) else None))
        elif isinstance(n, ast.Call) and isinstance(n.func, ast.Attribute) and n.func.attr == "format" and isinstance(n.func.value, ast.Constant) \
                and isinstance(n.func.value.value, str) and ":c}" in n.func.value.value:
            out.append((n, "format", n.args[0] if len(n.args) == 1 else None))
        elif isinstance(n, ast.Call) and dotted(n.func) == "str.maketrans" and n.args and isinstance(n.args[0], ast.Dict):
            for v in n.args[0].values:
                if isinstance(v, ast.Constant) and isinstance(v.value, int) and not isinstance(v.value, bool):
                    out.append((v, "table", v))
    return out


def chr_sites(repo, tier):
    obls = []
    n_sites = 0
    for rel, mod in modules(repo).items():
        ix = Index(mod)
        pats = _patterns_of(mod)
        per_fn = {}
        for (n, kind, payload) in char_source_sites(mod, ix):
            q, fnode = ix.enclosing(n)
            per_fn.setdefault(q, []).append((n, fnode, kind, payload))
        for q, sites in sorted(per_fn.items()):
            for k, (node, fnode, kind, payload) in enumerate(sorted(sites, key=lambda x: (x[0].lineno, x[0].col_offset))):
                n_sites += 1
                oid = f"C04/{short(rel)}::{q}/call-pre#chr-wf@{k}"
                obls.append(_chr_obligation(oid, rel, mod, ix, fnode, node, pats, q, k, kind, payload))
    obls.append(ground_obligation("C04/package/wf#chr-sites-scanned", True, f"{n_sites} int->character sites (chr calls, chr as a value, "
                                  f"'c' formats, translate tables) in the parsing package", "package"))
    return {"obligations": obls, "functions": []}


def _chr_obligation(oid, rel, mod, ix, fnode, call, pats, q, k, kind="call", payload=None):
    loc = f"{rel}:{call.lineno}"
    src = ast.unparse(call)
    hint = {"kind": "chr", "file": rel, "function": q, "ordinal": k, "source": src}
    # a character used only as a dictionary key is not a source of output text
    p = ix.parent.get(id(call))
    if kind == "call" and isinstance(p, ast.Subscript) and p.slice is call and isinstance(p.ctx, ast.Store):
        return ground_obligation(oid, True, f"{loc} {src} is only used as a dictionary key (not a source of text)", rel)
    if kind == "call" and isinstance(p, ast.Assign) and len(p.targets) == 1 and isinstance(p.targets[0], ast.Name) and p.value is call:
        v = p.targets[0].id
        uses = [n for n in own_walk(fnode) if isinstance(n, ast.Name) and n.id == v and isinstance(n.ctx, ast.Load)]
        def key_use(n):
            pp = ix.parent.get(id(n))
            return (isinstance(pp, ast.Subscript) and pp.slice is n) or (isinstance(pp, ast.Compare) and any(isinstance(o, (ast.In, ast.NotIn)) for o in pp.ops) and pp.left is n)
        n_bind = len(single_defs(fnode, v))
        if uses and n_bind == 1 and all(key_use(n) for n in uses):
            return ground_obligation(oid, True, f"{loc} {src} is only used (via {v}) as a dictionary key (not a source of text)", rel)
    A = ChrAnalysis(mod, ix, fnode, pats)
    if kind == "value" or payload is None:
        o = ground_obligation(oid, False, f"{loc} `{src}`: the builtin chr / a character format is used in a way whose integer argument "
                                           f"is not visible here", rel, definite=False)
        o["replay_hint"] = hint
        return o
    r = A.element(payload, call) if kind == "map" else A.expr(payload, call)
    if r is None:
        o = ground_obligation(oid, False, f"{loc} {src}: integer range of the argument not derivable", rel, definite=False)
        o["replay_hint"] = hint
        return o
    cons = list(r.cons)
    for test, pos in A.guards(call):
        c = A.cond(test, pos)
        if c is not None:
            cons.append(c)
    n = r.term
    # chr() itself raises ValueError outside [0, 0x10FFFF]: then no character is produced
    goal = z3.Or(n < SUR_LO, n > SUR_HI)
    s = z3.Solver()
    s.set("timeout", 5000)
    s.add(*cons)
    s.add(z3.Not(goal))
    res = s.check()
    if res == z3.unsat:
        return ground_obligation(oid, True, f"{loc} {src}: {r.why}: never in U+D800..U+DFFF", rel, backend="z3")
    wit = None
    if res == z3.sat:
        wit = s.model().eval(n, model_completion=True).as_long()
    o = ground_obligation(oid, False, f"{loc} {src}: {r.why}: the code point can be a surrogate (e.g. {hex(wit) if wit is not None else '?'}) -> "
                                       f"the text is not well-formed Unicode (not encodable as UTF-8)", rel, definite=bool(res == z3.sat and r.exact), backend="z3")
    o["witness"] = {"n": wit}
    o["replay_hint"] = hint
    return o


# -------------------------------------------------------- wf: decode sites --
SAFE_ERRORS = {"strict", "replace", "ignore", "backslashreplace", "xmlcharrefreplace", "namereplace"}
UNSAFE_ERRORS = {"surrogateescape", "surrogatepass"}
# codecs whose decoder can emit lone surrogates even with a safe error handler (CPython): escape codecs and UTF-7
UNSAFE_CODECS = {"unicode_escape", "unicode-escape", "raw_unicode_escape", "raw-unicode-escape", "utf_7", "utf-7", "utf7", "u7", "unicode_internal"}


def _norm_codec(s):
    return s.lower().replace("-", "_")


def _codec_values(A_fnode, e, depth=0, ix=None):
    """Set of constant strings (codec names / error handlers) an expression can take, or None when it depends on the input.
    Follows local bindings, loops over literal sequences, hoisted module constants and -- for a parameter -- the arguments at
    every call site of the function in the module."""
    if e is None:
        return {"utf-8"}
    if isinstance(e, ast.Constant) and isinstance(e.value, str):
        return {e.value}
    if isinstance(e, ast.IfExp):
        a, b = _codec_values(A_fnode, e.body, depth, ix), _codec_values(A_fnode, e.orelse, depth, ix)
        return None if a is None or b is None else a | b
    if isinstance(e, ast.BoolOp) and isinstance(e.op, ast.Or):
        vals = [_codec_values(A_fnode, v, depth, ix) for v in e.values]
        return None if any(v is None for v in vals) else set().union(*vals)
    if isinstance(e, ast.Name) and depth < 4:
        defs = single_defs(A_fnode, e.id) if isinstance(A_fnode, (ast.FunctionDef, ast.AsyncFunctionDef)) else []
        if not defs:
            if ix is not None and e.id in ix.mod.assigns:
                n_bind = sum(1 for n in ast.walk(ix.mod.tree) if isinstance(n, ast.Name) and n.id == e.id and isinstance(n.ctx, ast.Store))
                return _codec_values(None, ix.mod.assigns[e.id], depth + 1, ix) if n_bind == 1 else None
            return None
        out = set()
        for d in defs:
            if d[0] == "assign":
                v = _codec_values(A_fnode, d[1], depth + 1, ix)
            elif d[0] == "for" and d[2] is None:
                seq = d[1]
                if isinstance(seq, ast.Name) and ix is not None:
                    seq = _const_container(ix, A_fnode, seq)
                v = {x.value for x in seq.elts} if isinstance(seq, (ast.Tuple, ast.List)) and all(isinstance(x, ast.Constant) and isinstance(x.value, str) for x in seq.elts) else None
            elif d[0] == "param" and ix is not None:
                v = _param_strings(ix, A_fnode, e.id, depth)
            else:
                v = None
            if v is None:
                return None
            out |= v
        return out
    return None


def _param_strings(ix, fnode, pname, depth):
    """Constant strings passed for parameter `pname` at every call site of fnode in the module (default included)."""
    sites = [c for c in _call_sites_of(ix.mod, fnode.name)]
    if not sites:
        return None
    out = set()
    a = fnode.args
    names = [x.arg for x in a.posonlyargs + a.args]
    dflt = dict(zip(names[len(names) - len(a.defaults):], a.defaults))
    dflt.update({k.arg: v for k, v in zip(a.kwonlyargs, a.kw_defaults) if v is not None})
    for c in sites:
        arg = _arg_for(c, fnode, pname)
        if arg is None:
            arg = dflt.get(pname)
            if arg is None:
                return None
        q, caller = ix.enclosing(c)
        v = _codec_values(caller, arg, depth + 1, ix)
        if v is None:
            return None
        out |= v
    return out


def decode_sites(repo, tier):
    obls = []
    n_sites = 0
    for rel, mod in modules(repo).items():
        ix = Index(mod)
        per_fn = {}
        for n in ast.walk(mod.tree):
            if not isinstance(n, ast.Call):
                continue
            is_decode = isinstance(n.func, ast.Attribute) and n.func.attr == "decode" and dotted(n.func.value) not in ("base64", "codecs", "binascii", "quopri")
            is_codecs = dotted(n.func) == "codecs.decode"
            is_str = isinstance(n.func, ast.Name) and n.func.id == "str" and (len(n.args) >= 2 or any(k.arg in ("encoding", "errors") for k in n.keywords))
            if is_decode or is_str or is_codecs:
                q, fnode = ix.enclosing(n)
                per_fn.setdefault(q, []).append((n, fnode, "decode" if is_decode else ("codecs.decode" if is_codecs else "str")))
        for q, sites in sorted(per_fn.items()):
            for k, (call, fnode, kind) in enumerate(sorted(sites, key=lambda x: (x[0].lineno, x[0].col_offset))):
                n_sites += 1
                oid = f"C04/{short(rel)}::{q}/call-pre#decode-wf@{k}"
                pos = list(call.args[1:] if kind in ("str", "codecs.decode") else call.args)
                kw = {k_.arg: k_.value for k_ in call.keywords}
                enc = kw.get("encoding", pos[0] if pos else None)
                err = kw.get("errors", pos[1] if len(pos) > 1 else None)
                loc = f"{rel}:{call.lineno}"
                src = ast.unparse(call)
                hint = {"kind": "decode", "file": rel, "function": q, "ordinal": k, "source": src}
                # error handler
                if err is None:
                    ev = "strict"
                elif isinstance(err, ast.Constant) and isinstance(err.value, str):
                    ev = err.value
                elif _codec_values(fnode, err, 0, ix) is not None and len(_codec_values(fnode, err, 0, ix)) >= 1:
                    evs = _codec_values(fnode, err, 0, ix)
                    ev = next((x for x in sorted(evs) if x in UNSAFE_ERRORS), None) or next((x for x in sorted(evs) if x not in SAFE_ERRORS), None) or sorted(evs)[0]
                else:
                    ev = None
                if ev in UNSAFE_ERRORS:
                    o = ground_obligation(oid, False, f"{loc} {src}: errors={ev!r} passes lone surrogates into the text", rel)
                    o["replay_hint"] = hint
                    obls.append(o)
                    continue
                if ev is None or ev not in SAFE_ERRORS:
                    o = ground_obligation(oid, False, f"{loc} {src}: error handler is not a constant from {sorted(SAFE_ERRORS)}", rel, definite=False)
                    o["replay_hint"] = hint
                    obls.append(o)
                    continue
                codecs_ = _codec_values(fnode, enc, 0, ix)
                if codecs_ is None:
                    o = ground_obligation(oid, False, f"{loc} {src}: the codec name comes from the input; codecs such as unicode_escape / raw_unicode_escape / "
                                                       f"utf-7 decode to lone surrogates even with errors={ev!r}", rel, definite=False)
                    o["replay_hint"] = hint
                    obls.append(o)
                    continue
                bad = sorted(c for c in codecs_ if _norm_codec(c) in {_norm_codec(x) for x in UNSAFE_CODECS})
                if bad:
                    o = ground_obligation(oid, False, f"{loc} {src}: codec {bad} can decode to lone surrogates", rel)
                    o["replay_hint"] = hint
                    obls.append(o)
                    continue
                obls.append(ground_obligation(oid, True, f"{loc} codec in {sorted(codecs_)}, errors={ev!r}: the decoder never emits surrogates", rel))
    # ---- other text producers: a call that takes an `errors=` handler (open, TextIOWrapper, read_text, ...) and decoders of
    # escape syntax (json.loads, ast.literal_eval, codecs.escape_decode ...), which turn "\\ud800" into a lone surrogate
    ESCAPE_DECODERS = ("json.loads", "json.load", "ast.literal_eval", "codecs.escape_decode", "codecs.getdecoder", "codecs.getreader",
                       "codecs.iterdecode", "codecs.getincrementaldecoder", "codecs.open")
    n_other = 0
    for rel, mod in modules(repo).items():
        ix = Index(mod)
        per_fn = {}
        for n in ast.walk(mod.tree):
            if not isinstance(n, ast.Call):
                continue
            d = dotted(n.func)
            canon = d
            if d and d.split(".")[0] in mod.imports:
                canon = mod.imports[d.split(".")[0]] + d[len(d.split(".")[0]):]
            err = next((k.value for k in n.keywords if k.arg == "errors"), None)
            is_decode_like = (isinstance(n.func, ast.Attribute) and n.func.attr in ("decode", "encode")) or (isinstance(n.func, ast.Name) and n.func.id == "str") \
                or d == "codecs.decode"
            why = None
            definite = False
            if err is not None and not is_decode_like:
                if isinstance(err, ast.Constant) and err.value in UNSAFE_ERRORS:
                    why, definite = f"errors={err.value!r} passes lone surrogates into the text", True
                elif not (isinstance(err, ast.Constant) and err.value in SAFE_ERRORS):
                    why = "error handler is not a constant from the safe list"
            if why is None and canon in ESCAPE_DECODERS:
                why = f"{canon} decodes escape syntax: a \\\\uD800 escape in the input becomes a lone surrogate"
            if why is None:
                if err is not None and not is_decode_like:
                    n_other += 1
                continue
            n_other += 1
            q, fnode = ix.enclosing(n)
            per_fn.setdefault(q, []).append((n, why, definite))
        for q, sites in sorted(per_fn.items()):
            for k, (call, why, definite) in enumerate(sorted(sites, key=lambda x: (x[0].lineno, x[0].col_offset))):
                o = ground_obligation(f"C04/{short(rel)}::{q}/call-pre#text-producer-wf@{k}", False, f"{rel}:{call.lineno} {ast.unparse(call)[:80]}: {why}", rel, definite=definite)
                o["replay_hint"] = {"kind": "decode", "file": rel, "function": q, "ordinal": k, "source": ast.unparse(call)[:80]}
                obls.append(o)
    obls.append(ground_obligation("C04/package/wf#other-text-producers-scanned", True,
                                  f"{n_other} calls with an errors= handler or escape-syntax decoders outside the decode sites", "package"))
    obls.append(ground_obligation("C04/package/wf#decode-sites-scanned", n_sites >= 20, f"{n_sites} bytes->str decode sites in the parsing package", "package"))
    return {"obligations": obls, "functions": []}


def literal_sites(repo, tier):
    """No string literal of the package that can reach a result contains a surrogate code point.  Literals used as a regex
    pattern, as a key of a translate table or in a membership / comparison test (typically code that REMOVES surrogates) are
    not sources of text."""
    bad = []
    n = 0
    for rel, mod in modules(repo).items():
        ix = Index(mod)
        for node in ast.walk(mod.tree):
            if isinstance(node, ast.Constant) and isinstance(node.value, str):
                n += 1
                if any(SUR_LO <= ord(ch) <= SUR_HI for ch in node.value):
                    p = ix.parent.get(id(node))
                    if isinstance(p, ast.Call) and dotted(p.func) in ("re.compile", "re.sub", "re.search", "re.match", "re.findall", "re.split") and p.args and p.args[0] is node:
                        continue
                    if isinstance(p, ast.Compare) or (isinstance(p, ast.Dict) and node in p.keys):
                        continue
                    bad.append(f"{rel}:{node.lineno}")
    return {"obligations": [ground_obligation("C04/package/wf#string-literals-have-no-surrogates", not bad,
                                              "; ".join(bad[:5]) or f"{n} string literals scanned", "package", definite=False)], "functions": []}


# ------------------------------------------------ fresh metadata objects --
IMMUTABLE_CALLS = ("re.compile", "frozenset", "tuple", "str", "int", "float", "bytes", "bool", "logging.getLogger", "struct.Struct", "object",
                   "namedtuple", "TypeVar", "Path", "pathlib.Path")


def _module_of_import(mod, name, repo):
    """(module, attribute name) for a name imported from a package module, else (None, None)."""
    import os
    origin = mod.imports.get(name)
    if not origin or not origin.startswith("sharepoint2text."):
        return None, None
    parts = origin.split(".")
    rel = "/".join(parts[:-1]) + ".py"
    if os.path.exists(os.path.join(mod.repo, rel)):
        return loader.module(rel, mod.repo), parts[-1]
    return None, None


class SharedSources:
    """Backward slice of an expression to objects that live longer than one extraction: module-level objects, mutable default
    arguments, class attributes, dataclass field defaults built once, results of cached functions.  `found` lists them,
    `unresolved` the places where the slice stops (parameters of entry points, third-party calls)."""

    def __init__(self, repo):
        self.repo, self.found, self.unresolved, self.seen = repo, [], [], set()

    def mutable_value(self, v):
        if isinstance(v, ast.Call):
            return dotted(v.func) not in IMMUTABLE_CALLS and dotted(v.func).split(".")[-1] not in ("compile", "getLogger", "Struct", "frozenset", "field")
        return isinstance(v, (ast.List, ast.Dict, ast.Set, ast.ListComp, ast.DictComp, ast.SetComp))

    def module_level(self, mod, name, why):
        v = mod.assigns.get(name)
        if v is not None and self.mutable_value(v):
            self.found.append(f"{why}module-level object {short(mod.rel)}::{name} = {ast.unparse(v)[:40]}")
            return True
        return False

    def expr(self, e, fn, mod, depth=0):
        key = (id(e), id(fn))
        if key in self.seen or depth > 6:
            return
        self.seen.add(key)
        if isinstance(e, ast.IfExp):
            self.expr(e.body, fn, mod, depth + 1)
            self.expr(e.orelse, fn, mod, depth + 1)
        elif isinstance(e, ast.BoolOp):
            for v in e.values:
                self.expr(v, fn, mod, depth + 1)
        elif isinstance(e, ast.NamedExpr):
            self.expr(e.value, fn, mod, depth + 1)
        elif isinstance(e, ast.Name):
            self.name(e.id, fn, mod, depth)
        elif isinstance(e, ast.Attribute):
            self.attribute(e, fn, mod, depth)
        elif isinstance(e, ast.Call):
            self.call(e, fn, mod, depth)
        elif isinstance(e, ast.Subscript):
            self.expr(e.value, fn, mod, depth + 1)
        elif isinstance(e, ast.Constant):
            pass
        else:
            self.unresolved.append(ast.unparse(e)[:40])

    def name(self, name, fn, mod, depth):
        defs = single_defs(fn, name) if isinstance(fn, (ast.FunctionDef, ast.AsyncFunctionDef)) else []
        if not defs:
            if self.module_level(mod, name, ""):
                return
            m2, k = _module_of_import(mod, name, self.repo)
            if m2 is not None and self.module_level(m2, k, f"imported as {name}: "):
                return
            return
        for d in defs:
            if d[0] == "assign":
                self.expr(d[1], fn, mod, depth + 1)
            elif d[0] == "unpack":
                self.expr(d[1], fn, mod, depth + 1)
            elif d[0] == "param":
                a = fn.args
                names = [x.arg for x in a.posonlyargs + a.args]
                dflt = dict(zip(names[len(names) - len(a.defaults):], a.defaults))
                dflt.update({k.arg: v for k, v in zip(a.kwonlyargs, a.kw_defaults) if v is not None})
                if name in dflt and self.mutable_value(dflt[name]):
                    self.found.append(f"mutable default argument {name}={ast.unparse(dflt[name])[:30]} of {fn.name}")
                else:
                    self.unresolved.append(f"parameter {name} of {fn.name}")
            elif d[0] == "for":
                self.expr(d[1], fn, mod, depth + 1)
            else:
                self.unresolved.append(f"binding of {name}")

    def class_of(self, fn, mod):
        for q, f in mod.functions.items():
            if f is fn and "." in q and "<locals>" not in q.split(".")[0]:
                return q.split(".")[0]
        return None

    def attribute(self, e, fn, mod, depth):
        base = e.value
        if isinstance(base, ast.Name) and base.id == "self":
            cls = self.class_of(fn, mod)
            node = mod.classes.get(cls) if cls else None
            if node is not None:
                for b in node.body:
                    tgt = b.targets[0] if isinstance(b, ast.Assign) and len(b.targets) == 1 else (b.target if isinstance(b, ast.AnnAssign) else None)
                    val = getattr(b, "value", None)
                    if isinstance(tgt, ast.Name) and tgt.id == e.attr and val is not None and self.mutable_value(val) and "dataclass" not in " ".join(ast.unparse(d) for d in node.decorator_list):
                        self.found.append(f"class attribute {cls}.{e.attr} = {ast.unparse(val)[:30]}")
                for q, f in mod.functions.items():
                    if q.startswith(cls + ".") and "<locals>" not in q:
                        for n in own_walk(f):
                            if isinstance(n, ast.Assign):
                                for t in n.targets:
                                    if isinstance(t, ast.Attribute) and t.attr == e.attr and isinstance(t.value, ast.Name) and t.value.id == "self":
                                        self.expr(n.value, f, mod, depth + 1)
                            elif isinstance(n, ast.AnnAssign) and isinstance(n.target, ast.Attribute) and n.target.attr == e.attr and n.value is not None:
                                self.expr(n.value, f, mod, depth + 1)
            return
        # field of an object: where the object comes from, and what its constructor was given for that field
        self.expr(base, fn, mod, depth + 1)
        for ctor, cfn, cmod in self.constructors_of(base, fn, mod, depth):
            cls = dotted(ctor.func).split(".")[-1]
            given = next((k.value for k in ctor.keywords if k.arg == e.attr), None)
            if given is not None:
                self.expr(given, cfn, cmod, depth + 1)
            else:
                self.field_default(cls, e.attr, cmod)

    def field_default(self, cls, attr, mod):
        dt = loader.module(DT, self.repo)
        for m in (mod, dt):
            node = m.classes.get(cls)
            if node is None:
                continue
            for b in node.body:
                if isinstance(b, ast.AnnAssign) and isinstance(b.target, ast.Name) and b.target.id == attr and b.value is not None:
                    if self.mutable_value(b.value):
                        self.found.append(f"dataclass field default built once: {cls}.{attr} = {ast.unparse(b.value)[:30]}")
                    elif isinstance(b.value, ast.Call) and dotted(b.value.func).split(".")[-1] == "field":
                        for k in b.value.keywords:
                            if k.arg == "default" and self.mutable_value(k.value):
                                self.found.append(f"dataclass field default built once: {cls}.{attr}")
            return

    def constructors_of(self, e, fn, mod, depth, hops=0):
        """Constructor calls (with their function / module) that may have built the object denoted by e."""
        out = []
        if hops > 3:
            return out
        if isinstance(e, ast.Call):
            name = dotted(e.func).split(".")[-1]
            if name[:1].isupper():
                return [(e, fn, mod)]
            g, gmod = self.resolve_function(e, fn, mod)
            if g is not None:
                for r in [n.value for n in own_walk(g) if isinstance(n, ast.Return) and n.value is not None]:
                    out.extend(self.constructors_of(r, g, gmod, depth, hops + 1))
            return out
        if isinstance(e, ast.Name) and isinstance(fn, (ast.FunctionDef, ast.AsyncFunctionDef)):
            for d in single_defs(fn, e.id):
                if d[0] == "assign":
                    out.extend(self.constructors_of(d[1], fn, mod, depth, hops + 1))
                elif d[0] == "for":
                    out.extend(self.constructors_of(d[1], fn, mod, depth, hops + 1))
        return out

    def resolve_function(self, call, fn, mod):
        f = call.func
        if isinstance(f, ast.Name):
            if f.id in mod.functions:
                return mod.functions[f.id], mod
            m2, k = _module_of_import(mod, f.id, self.repo)
            if m2 is not None and k in m2.functions:
                return m2.functions[k], m2
            return None, None
        if isinstance(f, ast.Attribute):
            cands = [(q, g) for q, g in mod.functions.items() if q.split(".")[-1] == f.attr and "<locals>" not in q]
            if len(cands) == 1:
                return cands[0][1], mod
        return None, None

    def call(self, e, fn, mod, depth):
        name = dotted(e.func).split(".")[-1]
        if name[:1].isupper() and name not in ("Path",):
            return                                   # a constructor call: a fresh object (its fields: see attribute())
        g, gmod = self.resolve_function(e, fn, mod)
        if g is None:
            self.unresolved.append(f"call {ast.unparse(e.func)[:30]}")
            return
        if any(ast.unparse(d).split("(")[0].split(".")[-1] in ("lru_cache", "cache", "cached_property") for d in g.decorator_list):
            self.found.append(f"result of the cached function {g.name}")
            return
        rets = [n.value for n in own_walk(g) if isinstance(n, ast.Return) and n.value is not None]
        gens = [n.value for n in own_walk(g) if isinstance(n, ast.Yield) and n.value is not None]
        for r in rets + gens:
            self.expr(r, g, gmod, depth + 1)


def metadata_freshness_sites(repo, tier):
    """The object whose path fields populate_from_path() fills must belong to this extraction alone: at every call site the
    receiver is sliced backwards (locals, returns of package functions, attributes set in methods, constructor keywords and
    dataclass defaults); reaching an object that outlives the call -- a module-level object, a mutable default argument, a
    class attribute, a default built once, a cached result -- means results share state: path metadata of one extraction
    would show up in another.  Such a site is `unknown` and decided by the native two-extraction replay."""
    obls = []
    n_sites = 0
    for rel, mod in modules(repo).items():
        ix = Index(mod)
        per_fn = {}
        for n in ast.walk(mod.tree):
            if isinstance(n, ast.Call) and isinstance(n.func, ast.Attribute) and n.func.attr == "populate_from_path":
                q, fnode = ix.enclosing(n)
                per_fn.setdefault(q, []).append((n, fnode))
        for q, sites in sorted(per_fn.items()):
            for k, (call, fnode) in enumerate(sorted(sites, key=lambda x: (x[0].lineno, x[0].col_offset))):
                n_sites += 1
                oid = f"C04/{short(rel)}::{q}/call-pre#populate_from_path-receiver-belongs-to-this-extraction@{k}"
                S = SharedSources(repo)
                try:
                    S.expr(call.func.value, fnode, mod)
                except RecursionError:
                    S.unresolved.append("recursion limit")
                if S.found:
                    o = ground_obligation(oid, False, f"{rel}:{call.lineno} {ast.unparse(call.func.value)} may be {S.found[0]}: its path fields are "
                                                       f"shared between extractions", rel, definite=False)
                    o["replay_hint"] = {"kind": "shared-metadata", "file": rel}
                else:
                    o = ground_obligation(oid, True, f"{rel}:{call.lineno} no object that outlives the extraction flows into {ast.unparse(call.func.value)}"
                                          + (f" (slice stops at: {', '.join(sorted(set(S.unresolved))[:3])})" if S.unresolved else ""), rel)
                obls.append(o)
    obls.append(ground_obligation("C04/package/call-pre#populate_from_path-sites-scanned", n_sites >= 15, f"{n_sites} populate_from_path call sites", "package"))
    return {"obligations": obls, "functions": []}


# ------------------------------------------------------------ unit numbers --
def unit_number_fields(dt):
    """{class: field} for every class whose stored number is reported as unit_number: the unit classes (field read by
    get_metadata(): `unit_number=self.<field>`) and the page-like content classes those units copy their number from
    (`slide.slide_number`): every non-image dataclass with an `int` field of that name."""
    out = {}
    img = set(image_classes(dt))
    for n, c in dt.classes.items():
        if "UnitInterface" in [ast.unparse(b).split(".")[-1] for b in c.bases]:
            gm = dt.functions.get(f"{n}.get_metadata")
            for k in ast.walk(gm) if gm is not None else []:
                if isinstance(k, ast.keyword) and k.arg == "unit_number" and isinstance(k.value, ast.Attribute) and isinstance(k.value.value, ast.Name) \
                        and k.value.value.id == "self":
                    out[n] = k.value.attr
    copied = set()
    for fn in dt.functions.values():
        for call in ast.walk(fn):
            if isinstance(call, ast.Call) and dotted(call.func).split(".")[-1] in out:
                for k in call.keywords:
                    if k.arg == out[dotted(call.func).split(".")[-1]] and isinstance(k.value, ast.Attribute):
                        copied.add(k.value.attr)
    for n in dt.classes:
        if n in img or n in out:
            continue
        ann = _field_annotations(dt, n)
        for f in copied:
            if ann.get(f) == "int":
                out[n] = f
    return out


def unit_number_sites(repo, tier):
    """unit numbers >= 1: at every constructor call of a unit class (and of the page-like classes units copy their number from)
    the number argument is >= 1 -- constant, enumerate(start >= 1), a counter that starts >= 1 or is incremented before the
    constructor on every path (also through `nonlocal`), or a copy of a stored number."""
    dt = loader.module(DT, repo)
    carriers = unit_number_fields(dt)
    STORED_NUMBER_FIELDS.update(carriers.values())
    obls = []
    n_sites = 0
    for rel, mod in modules(repo).items():
        ix = Index(mod)
        per_fn = {}
        for n in ast.walk(mod.tree):
            if isinstance(n, ast.Call) and dotted(n.func).split(".")[-1] in carriers:
                q, fnode = ix.enclosing(n)
                per_fn.setdefault((q, dotted(n.func).split(".")[-1]), []).append((n, fnode))
        for (q, cls), sites in sorted(per_fn.items()):
            fields = dataclass_fields(dt, cls)
            names = [f for f, _d in fields]
            nf = carriers[cls]
            for k, (call, fnode) in enumerate(sorted(sites, key=lambda x: (x[0].lineno, x[0].col_offset))):
                n_sites += 1
                oid = f"C04/{short(rel)}::{q}/call-pre#{cls}-{nf}-positive@{k}"
                try:
                    if any(k_.arg is None for k_ in call.keywords):
                        obls.append(ground_obligation(oid, False, f"{rel}:{call.lineno} **kwargs constructor call", rel, definite=False))
                        continue
                    kw = call_kwargs(call, names)
                    e = kw.get(nf)
                    o = _nonlocal_counter(oid, rel, ix, call, fnode, nf, e) if e is not None else None
                    if o is None:
                        o = _number_obligation(oid, rel, mod, ix, call, fnode, cls, nf, e, dict(fields).get(nf), nf in kw)
                    o["replay_hint"] = {"kind": "unit-number", "class": cls, "file": rel}
                    obls.append(o)
                except Exception as ex:  # noqa -- an unexpected shape is never an engine error
                    obls.append(ground_obligation(oid, False, f"{rel}:{call.lineno} analysis gave up: {type(ex).__name__}", rel, definite=False))
    obls.append(ground_obligation("C04/package/call-pre#unit-constructor-sites-scanned", n_sites >= 15, f"{n_sites} unit / page constructor call sites", "package"))
    return {"obligations": obls, "functions": []}


def _nonlocal_counter(oid, rel, ix, call, fnode, nf, e):
    """A counter shared with the enclosing function through `nonlocal`: initialised >= 1 there, only incremented anywhere."""
    if not (isinstance(e, ast.Name) and isinstance(fnode, (ast.FunctionDef, ast.AsyncFunctionDef))):
        return None
    if not any(isinstance(n, ast.Nonlocal) and e.id in n.names for n in own_walk(fnode)):
        return None
    _q, outer = ix.enclosing(fnode)
    if not isinstance(outer, (ast.FunctionDef, ast.AsyncFunctionDef)):
        return None
    inits = []
    for scope in (outer, fnode):
        for d in single_defs(scope, e.id):
            if d[0] == "assign" and isinstance(d[1], ast.Constant) and isinstance(d[1].value, int):
                inits.append(d[1].value)
            elif d[0] == "aug" and isinstance(d[1], ast.Add) and isinstance(d[2], ast.Constant) and isinstance(d[2].value, int) and d[2].value >= 0:
                continue
            elif d[0] == "assign" and _is_self_increment(d[1], e.id) is not None:
                continue
            else:
                return None
    for q2, f2 in ix.mod.functions.items():        # sibling closures sharing the counter
        if f2 is not fnode and f2 is not outer and ix.enclosing(f2)[1] is outer and any(isinstance(n, ast.Nonlocal) and e.id in n.names for n in own_walk(f2)):
            for d in single_defs(f2, e.id):
                if not (d[0] == "aug" and isinstance(d[1], ast.Add) and isinstance(d[2], ast.Constant) and isinstance(d[2].value, int) and d[2].value >= 0):
                    return None
    if inits and min(inits) >= 1:
        return ground_obligation(oid, True, f"{rel}:{call.lineno} {nf}={e.id}: nonlocal counter initialised at {min(inits)} and only incremented", rel)
    return None
